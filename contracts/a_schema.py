"""Shared schema: sorts of the attributes the contracts mention (assumption A3) and vocabulary (DESIGN section 4).

Loaded first (file name order).  Dynamic classes of order types are modelled by the tag field ORDER_TYPE
(the class attribute of the concrete LimitOrder / LimitOnCloseOrder / MarketOnCloseOrder class).
"""

# ----------------------------------------------------------------------------- order types
schema(
    "BaseOrderType",
    ORDER_TYPE=ATOM,  # OrderTypes.LIMIT / LIMIT_ON_CLOSE / MARKET_ON_CLOSE (class attribute of the concrete class)
    EXCHANGE=ATOM,
    price=Opt(REAL),
    size=Opt(REAL),
    liability=Opt(REAL),
    persistence_type=Opt(ATOM),
    time_in_force=Opt(ATOM),
    min_fill_size=Opt(REAL),
    bet_target_type=Opt(ATOM),
    bet_target_size=Opt(REAL),
    price_ladder_definition=Opt(ATOM),
    line_range_info=Opt(Ref("LineRangeInfo")),
)
schema("LineRangeInfo", min_unit_value=REAL, max_unit_value=REAL, interval=REAL)

# ----------------------------------------------------------------------------- clients
schema(
    "BaseClient",
    min_bet_validation=BOOL,
    min_bet_size=REAL,  # property over betfairlightweight.metadata.currency_parameters: symbolic minimum (all currencies)
    min_bet_payout=REAL,
    min_bsp_liability=REAL,
    best_price_execution=BOOL,
    simulated_full_match=BOOL,
    paper_trade=BOOL,
    commission_base=REAL,
    transaction_limit=Opt(INT),
    trading_controls=ListOf(Ref("BaseControl")),
    execution=Ref("BaseExecution"),
    username=ATOM,
    EXCHANGE=ATOM,
)

# ----------------------------------------------------------------------------- orders
struct("UpdateData", size_reduction=Opt(REAL), new_price=Opt(REAL), absent_keyerror=False)
schema(
    "BaseOrder",
    id=ATOM,
    trade=Ref("Trade"),
    side=ATOM,
    order_type=Ref("BaseOrderType"),
    selection_id=INT,
    handicap=REAL,
    lookup=Tup(ATOM, INT, REAL),
    client=Opt(Ref("BaseClient")),
    runner_status=Opt(ATOM),
    line_range_result=Opt(REAL),
    market_type=Opt(ATOM),
    each_way_divisor=Opt(REAL),
    number_of_dead_heat_winners=Opt(INT),
    status=Opt(ATOM),
    complete=BOOL,
    status_log=ListOf(ATOM),
    violation_msg=Opt(ATOM),
    bet_id=Opt(ATOM),
    update_data=Ref("UpdateData"),
    responses=Ref("Responses"),
    simulated=Ref("SimulatedOrder"),
    _simulated=BOOL,
    publish_time=Opt(REAL),
    market_version=Opt(INT),
    async_=Opt(BOOL),
    date_time_created=REAL,
    date_time_execution_complete=Opt(REAL),
    date_time_status_update=REAL,
    market_notes=Opt(ATOM),
    market_id=ATOM,  # property: self.trade.market_id
)
schema(
    "SimulatedOrder",
    order=Ref("BetfairOrder"),  # only Betfair orders are simulated (BetdaqOrder.current_order never uses it)
    size_matched=REAL,
    average_price_matched=REAL,
    matched=ListOf(Ref("Fragment")),
    size_cancelled=REAL,
    size_lapsed=REAL,
    size_voided=REAL,
    market_version=Opt(INT),
    _piq=REAL,
    _bsp_reconciled=BOOL,
)
record("Fragment", REAL, REAL, REAL)  # [publish_time, price, size]
schema("PriceSize", price=REAL, size=REAL)  # {"price": p, "size": s} entries of the book ladders

ST_PENDING = "OrderStatus.PENDING"
