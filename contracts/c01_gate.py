"""C01 (a) - the gate: StrategyExposure._validate lets a non-forced PLACE / REPLACE through only within the configured limits.

e = worst-case loss of the order as it stands when it is validated: size for BACK and for line markets, (price-1)*size for LAY,
the liability for both on-close types (I-1).  The per-selection figure is C16's specification (wp_win / wp_lose).
The market clause goes through Blotter.market_exposure, which is outside the prover's subset (C16): it is represented here by
an ASSUMED contract (its result is an uninterpreted figure), so the market clause proved below is only
"-market_exposure(...) <= max_market_exposure at the moment of validation" - listed as an assumption.
"""

schema("BaseFlumine", markets=Ref("Markets"), trading_controls=ListOf(Ref("BaseControl")))
schema("Markets", _markets=MapOf(ATOM, Ref("Market")))
schema("BaseStrategy", max_order_exposure=Opt(REAL), max_selection_exposure=Opt(REAL), max_market_exposure=Opt(REAL),
       max_trade_count=REAL, max_live_trade_count=REAL, multi_order_trades=BOOL, _invested=MapOf(Tup(ATOM, INT, REAL), Ref("RunnerContext")))
inline("flumine/markets/markets.py::Markets.markets")


def order_exposure(o):
    if o.order_type.ORDER_TYPE == OrderTypes.LIMIT:
        if o.order_type.price_ladder_definition == "LINE_RANGE":
            return eff_size(o.order_type)
        return eff_size(o.order_type) if o.side == "BACK" else (o.order_type.price - 1) * eff_size(o.order_type)
    return o.order_type.liability


def gate_domain(o):
    return ((o.order_type.ORDER_TYPE == OrderTypes.LIMIT and eff_size(o.order_type) is not None and o.order_type.price is not None
             and (o.order_type.price_ladder_definition == "CLASSIC" or o.order_type.price_ladder_definition == "FINEST" or o.order_type.price_ladder_definition == "LINE_RANGE"))
            or ((o.order_type.ORDER_TYPE == OrderTypes.LIMIT_ON_CLOSE or o.order_type.ORDER_TYPE == OrderTypes.MARKET_ON_CLOSE) and o.order_type.liability is not None))


def the_market(ctrl, o):
    return ctrl.flumine.markets._markets[o.market_id]


@contract("flumine/strategy/strategy.py::BaseStrategy.get_runner_context", tags=["C01-assumed"])
def _(self, market_id: ATOM, selection_id: INT, handicap: REAL) -> Ref("RunnerContext"):
    trusted("C10 (BaseStrategy.get_runner_context): returns the runner context, creating it on first use")
    modifies_map(self._invested)


@contract("flumine/strategy/strategy.py::BaseStrategy.validate_order", tags=["C01-assumed"])
def _(self, runner_context: Ref("RunnerContext"), order: Ref("BaseOrder")) -> BOOL:
    trusted("C10 (BaseStrategy.validate_order): user-overridable; may only set order.violation_msg")
    modifies(order, "violation_msg")


@contract("flumine/markets/blotter.py::Blotter.market_exposure", tags=["C01-assumed"])
def _(self, strategy: Ref("BaseStrategy"), market_book: Opt(Ref("MarketBook")), exclusion: Opt(Ref("BaseOrder")), new_order: Opt(Ref("BaseOrder"))) -> REAL:
    trusted("Blotter.market_exposure is outside the prover's subset (C16: bounded native stand-in only)")
    modifies_map(self._strategy_selection_orders)
    modifies_map(self._strategy_orders)


ON_ERROR_FRAME = 0


@contract("flumine/controls/tradingcontrols.py::StrategyExposure._validate", tags=["C01"])
def _(self, order: Ref("BetfairOrder"), package_type: ATOM):
    requires("market_known", order.market_id in self.flumine.markets._markets)
    requires("lookup_is_the_orders", order.lookup[0] == order.market_id and order.lookup[1] == order.selection_id and order.lookup[2] == order.handicap)
    requires("validated_order", gate_domain(order))  # OrderValidation runs first (C17) and BetfairOrder fixes the order types
    requires("known_order_types", implies(has_view(the_market(self, order).blotter, order.trade.strategy, order.lookup),
             forall(lambda j: order_ok(sel_view(the_market(self, order).blotter, order.trade.strategy, order.lookup)[j]), 0,
                    len(sel_view(the_market(self, order).blotter, order.trade.strategy, order.lookup)))))
    modifies(order, "violation_msg")
    modifies_map(order.trade.strategy._invested)
    modifies_map(the_market(self, order).blotter._strategy_selection_orders)
    modifies_map(the_market(self, order).blotter._strategy_orders)
    raises(ControlError, when=True, label="refused",
           modifies=[(order, "status"), (order, "complete"), (order, "violation_msg"), (order, "date_time_status_update"),
                     (order.update_data, "size_reduction"), (order.update_data, "new_price"),
                     (order.trade.strategy._invested, "@map"), (the_market(self, order).blotter._strategy_selection_orders, "@map"),
                     (the_market(self, order).blotter._strategy_orders, "@map")])
    ensures("per_order_limit", implies((package_type == OrderPackageType.PLACE or package_type == OrderPackageType.REPLACE) and order.trade.strategy.max_order_exposure is not None,
                                       order_exposure(order) <= order.trade.strategy.max_order_exposure))
    ensures("per_selection_limit_back", implies((package_type == OrderPackageType.PLACE or package_type == OrderPackageType.REPLACE)
            and order.trade.strategy.max_selection_exposure is not None and order.side == "BACK",
            old(-wp_lose(the_market(self, order).blotter, order.trade.strategy, order.lookup, order if package_type == OrderPackageType.REPLACE else None, None))
            + order_exposure(order) <= order.trade.strategy.max_selection_exposure))
    ensures("per_selection_limit_lay", implies((package_type == OrderPackageType.PLACE or package_type == OrderPackageType.REPLACE)
            and order.trade.strategy.max_selection_exposure is not None and order.side != "BACK",
            old(-wp_win(the_market(self, order).blotter, order.trade.strategy, order.lookup, order if package_type == OrderPackageType.REPLACE else None, None))
            + order_exposure(order) <= order.trade.strategy.max_selection_exposure))
