"""C01 (b) - the consequence: once an order passed the gate, no later event of the alphabet I-2 (fill at a price at least as
good as the limit, cancel, lapse, completion) lowers the selection's worst-case figures; settled profit is bounded by them.

Spec-level lemmas over the per-order contributions of C16 (matched m at average a, open remainder r at limit p):
  BACK: win = (a-1)m,            lose = -m - r          LAY: win = -(a-1)m - (p-1)r,   lose = +m
They are tied to the code by C04/C05/C06 (a fill moves size from remaining to matched at such a price, nothing else),
C16 (get_exposures reports exactly these sums) and C08 (profit is the settlement rule).  VWAP is exact here (the 2dp
rounding of the reported average moves a figure by at most 0.005 per order: I-0).
"""


def c_win(side, m, a, r, p):
    return (a - 1) * m if side == "BACK" else -(a - 1) * m - (p - 1) * r


def c_lose(side, m, a, r, p):
    return -m - r if side == "BACK" else m


@lemma("fill_never_lowers_worst_case", tags=["C01"])
def _(m: REAL, a: REAL, r: REAL, p: REAL, s: REAL, q: REAL):
    # a fill of size s (0 < s <= r) at price q, at least as good as the limit p; new average a2 is the VWAP
    requires(m >= 0 and r >= 0 and p >= 1.01 and a >= 1.01 and s > 0 and s <= r and q >= 1.01)
    ensures("back_fill", implies(q >= p, c_win("BACK", m + s, (a * m + q * s) / (m + s), r - s, p) >= c_win("BACK", m, a, r, p)
                                 and c_lose("BACK", m + s, (a * m + q * s) / (m + s), r - s, p) >= c_lose("BACK", m, a, r, p)))
    ensures("lay_fill", implies(q <= p, c_win("LAY", m + s, (a * m + q * s) / (m + s), r - s, p) >= c_win("LAY", m, a, r, p)
                                and c_lose("LAY", m + s, (a * m + q * s) / (m + s), r - s, p) >= c_lose("LAY", m, a, r, p)))


@lemma("cancel_lapse_complete_never_lower_worst_case", tags=["C01"])
def _(m: REAL, a: REAL, r: REAL, p: REAL, c: REAL):
    # c of the remainder leaves the book (partial / full cancel, lapse on suspension, version mismatch, completion)
    requires(m >= 0 and r >= 0 and p >= 1.01 and a >= 1.01 and c >= 0 and c <= r)
    ensures("back", c_win("BACK", m, a, r - c, p) >= c_win("BACK", m, a, r, p) and c_lose("BACK", m, a, r - c, p) >= c_lose("BACK", m, a, r, p))
    ensures("lay", c_win("LAY", m, a, r - c, p) >= c_win("LAY", m, a, r, p) and c_lose("LAY", m, a, r - c, p) >= c_lose("LAY", m, a, r, p))


@lemma("accepted_order_keeps_selection_within_limit", tags=["C01"])
def _(win: REAL, lose: REAL, limit: REAL, size: REAL, p: REAL):
    # J: win >= -limit and lose >= -limit before; the gate accepted  -worst_side + e <= limit; the new order is open with remainder = size
    requires(limit >= 0 and size > 0 and p >= 1.01 and win >= -limit and lose >= -limit)
    ensures("back_accepted", implies(-lose + size <= limit, win + c_win("BACK", 0, 0, size, p) >= -limit and lose + c_lose("BACK", 0, 0, size, p) >= -limit))
    ensures("lay_accepted", implies(-win + (p - 1) * size <= limit, win + c_win("LAY", 0, 0, size, p) >= -limit and lose + c_lose("LAY", 0, 0, size, p) >= -limit))


@lemma("settled_profit_not_below_worst_case", tags=["C01"])
def _(m: REAL, a: REAL, r: REAL, p: REAL):
    # at settlement the unmatched remainder is void: WINNER pays (a-1)m to a back, LOSER -m, REMOVED 0 (C08)
    requires(m >= 0 and r >= 0 and p >= 1.01 and a >= 1.01)
    ensures("back", (a - 1) * m >= c_win("BACK", m, a, r, p) and -m >= c_lose("BACK", m, a, r, p))
    ensures("lay", -(a - 1) * m >= c_win("LAY", m, a, r, p) and m >= c_lose("LAY", m, a, r, p))
