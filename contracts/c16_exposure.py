"""C16 - reported exposure equals the true worst case (Blotter.get_exposures / selection_exposure, utils.calculate_*).

Per order (DESIGN C16 / I-3): matched part (win, lose) = BACK (+(a-1)m, -m), LAY (-(a-1)m, +m) with a = 2.0 on line markets;
open part (only while not complete, remaining != 0, price != 0), worst case over "fills fully or not at all":
BACK (0, -r), LAY (-(p-1)r, 0); on-close orders: liability on the losing outcome.  By lemma L1 (Lean) the minimum over
fill subsets is the sum of the non-positive terms, which is what the sums below are.
"""

inline("flumine/markets/blotter.py::Blotter.strategy_selection_orders")


def in_pending(st):
    return st == OrderStatus.PENDING or st == OrderStatus.VIOLATION or st == OrderStatus.EXPIRED


def counted(o, exclusion):
    return not (exclusion is not None and o == exclusion) and not in_pending(o.status)


def is_limit(o):
    return o.order_type.ORDER_TYPE == OrderTypes.LIMIT


def is_sp(o):
    return o.order_type.ORDER_TYPE == OrderTypes.LIMIT_ON_CLOSE or o.order_type.ORDER_TYPE == OrderTypes.MARKET_ON_CLOSE


def eff_avg(o):
    return 2.0 if o.order_type.price_ladder_definition == "LINE_RANGE" else o.average_price_matched


def eff_price(o):
    return 2.0 if o.order_type.price_ladder_definition == "LINE_RANGE" else o.order_type.price


def has_matched(o, x):
    return counted(o, x) and is_limit(o) and o.size_matched != 0


def has_open(o, x):
    return counted(o, x) and is_limit(o) and not o.complete and eff_price(o) is not None and eff_price(o) != 0 and o.size_remaining != 0


def mb_win(o, x):
    return (eff_avg(o) - 1) * o.size_matched if has_matched(o, x) and o.side == "BACK" else 0


def mb_lose(o, x):
    return -o.size_matched if has_matched(o, x) and o.side == "BACK" else 0


def ml_win(o, x):
    return (eff_avg(o) - 1) * -o.size_matched if has_matched(o, x) and o.side != "BACK" else 0


def ml_lose(o, x):
    return o.size_matched if has_matched(o, x) and o.side != "BACK" else 0


def ub_lose(o, x):
    return -o.size_remaining if has_open(o, x) and o.side == "BACK" else 0


def ul_win(o, x):
    return (eff_price(o) - 1) * -o.size_remaining if has_open(o, x) and o.side != "BACK" else 0


def sp_win(o, x):
    return -o.order_type.liability if counted(o, x) and is_sp(o) and o.side != "BACK" else 0


def sp_lose(o, x):
    return -o.order_type.liability if counted(o, x) and is_sp(o) and o.side == "BACK" else 0


def pair_sum_win(l):
    return sum_(lambda k: (l[k][0] - 1) * l[k][1], 0, len(l))


def pair_sum_size(l):
    return sum_(lambda k: l[k][1], 0, len(l))


@contract("flumine/utils.py::calculate_matched_exposure", tags=["C16"])
def _(mb: ListOf(Tup(REAL, REAL)), ml: ListOf(Tup(REAL, REAL))) -> Tup(REAL, REAL):
    invariant(0, "back_sums", back_exp == -sum_(lambda k: mb[k][1], 0, _i0) and back_profit == sum_(lambda k: (mb[k][0] - 1) * mb[k][1], 0, _i0))
    invariant(1, "lay_sums", lay_exp == sum_(lambda k: (ml[k][0] - 1) * -ml[k][1], 0, _i1) and lay_profit == sum_(lambda k: ml[k][1], 0, _i1))
    ensures("win", result[0] == round(pair_sum_win(mb) + sum_(lambda k: (ml[k][0] - 1) * -ml[k][1], 0, len(ml)), 2))
    ensures("lose", result[1] == round(pair_sum_size(ml) + -pair_sum_size(mb), 2))


@contract("flumine/utils.py::calculate_unmatched_exposure", tags=["C16"])
def _(ub: ListOf(Tup(REAL, REAL)), ul: ListOf(Tup(REAL, REAL))) -> Tup(REAL, REAL):
    invariant(0, "back_sum", back_exp == -sum_(lambda k: ub[k][1], 0, _i0))
    invariant(1, "lay_sum", lay_exp == sum_(lambda k: (ul[k][0] - 1) * -ul[k][1], 0, _i1))
    ensures("win_all_lays_fill", result[0] == round(sum_(lambda k: (ul[k][0] - 1) * -ul[k][1], 0, len(ul)), 2))
    ensures("lose_all_backs_fill", result[1] == round(-pair_sum_size(ub), 2))


struct("Exposures", matched_profit_if_win=REAL, matched_profit_if_lose=REAL, worst_potential_unmatched_profit_if_win=REAL,
       worst_potential_unmatched_profit_if_lose=REAL, worst_possible_profit_on_win=REAL, worst_possible_profit_on_lose=REAL)


def sel_view(blotter, strategy, lookup):
    return blotter._strategy_selection_orders[(strategy, lookup[1], lookup[2])]


def has_view(blotter, strategy, lookup):
    return (strategy, lookup[1], lookup[2]) in blotter._strategy_selection_orders


def vlen(blotter, strategy, lookup):
    """number of orders the strategy has on the selection (0 when the defaultdict has no entry yet)"""
    return len(sel_view(blotter, strategy, lookup)) if has_view(blotter, strategy, lookup) else 0


def order_at(view, new_order, j):
    return view[j] if j < len(view) else new_order


def n_orders(view, new_order):
    return len(view) + (1 if new_order is not None else 0)


def oat(blotter, strategy, lookup, new_order, j):
    """j-th order of the book 'view + [new_order]'"""
    return sel_view(blotter, strategy, lookup)[j] if j < vlen(blotter, strategy, lookup) else new_order


def nord(blotter, strategy, lookup, new_order):
    return vlen(blotter, strategy, lookup) + (1 if new_order is not None else 0)


def order_ok(o):
    return (is_limit(o) or is_sp(o)) and implies(is_sp(o), o.order_type.liability is not None)


@contract("flumine/markets/blotter.py::Blotter.get_exposures", tags=["C16"])
def _(self, strategy: Ref("BaseStrategy"), lookup: Tup(ATOM, INT, REAL), exclusion: Opt(Ref("BaseOrder")), new_order: Opt(Ref("BaseOrder"))) -> Ref("Exposures"):
    requires("known_order_types", implies(has_view(self, strategy, lookup), forall(lambda j: order_ok(sel_view(self, strategy, lookup)[j]), 0, len(sel_view(self, strategy, lookup))))
             and implies(new_order is not None, order_ok(new_order)))
    modifies_map(self._strategy_selection_orders)  # a defaultdict: the first look-up of a selection inserts an empty view
    ensures("view_is_kept_or_created_empty", has_view(self, strategy, lookup)
            and (sel_view(self, strategy, lookup) is old(sel_view(self, strategy, lookup)) if old(has_view(self, strategy, lookup)) else len(sel_view(self, strategy, lookup)) == 0))
    local(mb=ListOf(Tup(REAL, REAL)), ml=ListOf(Tup(REAL, REAL)), ub=ListOf(Tup(REAL, REAL)), ul=ListOf(Tup(REAL, REAL)))
    # right-hand sides over the PRE state (no order and no view changes while the loop runs); _i0 = number of orders processed
    invariant(0, "iterating_the_book", _n0 == old(nord(self, strategy, lookup, new_order)))
    invariant(0, "matched_back", pair_sum_win(mb) == old(sum_(lambda j: mb_win(oat(self, strategy, lookup, new_order, j), exclusion), 0, _i0))
              and -pair_sum_size(mb) == old(sum_(lambda j: mb_lose(oat(self, strategy, lookup, new_order, j), exclusion), 0, _i0)))
    invariant(0, "matched_lay", sum_(lambda k: (ml[k][0] - 1) * -ml[k][1], 0, len(ml)) == old(sum_(lambda j: ml_win(oat(self, strategy, lookup, new_order, j), exclusion), 0, _i0))
              and pair_sum_size(ml) == old(sum_(lambda j: ml_lose(oat(self, strategy, lookup, new_order, j), exclusion), 0, _i0)))
    invariant(0, "open_back", -pair_sum_size(ub) == old(sum_(lambda j: ub_lose(oat(self, strategy, lookup, new_order, j), exclusion), 0, _i0)))
    invariant(0, "open_lay", sum_(lambda k: (ul[k][0] - 1) * -ul[k][1], 0, len(ul)) == old(sum_(lambda j: ul_win(oat(self, strategy, lookup, new_order, j), exclusion), 0, _i0)))
    invariant(0, "sp", moc_win_liability == old(sum_(lambda j: sp_win(oat(self, strategy, lookup, new_order, j), exclusion), 0, _i0))
              and moc_lose_liability == old(sum_(lambda j: sp_lose(oat(self, strategy, lookup, new_order, j), exclusion), 0, _i0)))
    # the figures are stated on the PRE state (get_exposures changes no order and no view)
    ensures("matched_win", result["matched_profit_if_win"] == old(round(sum_mb_win(self, strategy, lookup, exclusion, new_order) + sum_ml_win(self, strategy, lookup, exclusion, new_order), 2)))
    ensures("matched_lose", result["matched_profit_if_lose"] == old(round(sum_ml_lose(self, strategy, lookup, exclusion, new_order) + sum_mb_lose(self, strategy, lookup, exclusion, new_order), 2)))
    ensures("unmatched_win", result["worst_potential_unmatched_profit_if_win"] == old(round(sum_ul_win(self, strategy, lookup, exclusion, new_order), 2)))
    ensures("unmatched_lose", result["worst_potential_unmatched_profit_if_lose"] == old(round(sum_ub_lose(self, strategy, lookup, exclusion, new_order), 2)))
    ensures("worst_on_win", result["worst_possible_profit_on_win"] == old(wp_win(self, strategy, lookup, exclusion, new_order)))
    ensures("worst_on_lose", result["worst_possible_profit_on_lose"] == old(wp_lose(self, strategy, lookup, exclusion, new_order)))


def sum_mb_win(b, s, l, x, n):
    return sum_(lambda j: mb_win(oat(b, s, l, n, j), x), 0, nord(b, s, l, n))


def sum_ml_win(b, s, l, x, n):
    return sum_(lambda j: ml_win(oat(b, s, l, n, j), x), 0, nord(b, s, l, n))


def sum_mb_lose(b, s, l, x, n):
    return sum_(lambda j: mb_lose(oat(b, s, l, n, j), x), 0, nord(b, s, l, n))


def sum_ml_lose(b, s, l, x, n):
    return sum_(lambda j: ml_lose(oat(b, s, l, n, j), x), 0, nord(b, s, l, n))


def sum_ul_win(b, s, l, x, n):
    return sum_(lambda j: ul_win(oat(b, s, l, n, j), x), 0, nord(b, s, l, n))


def sum_ub_lose(b, s, l, x, n):
    return sum_(lambda j: ub_lose(oat(b, s, l, n, j), x), 0, nord(b, s, l, n))


def sum_sp_win(b, s, l, x, n):
    return sum_(lambda j: sp_win(oat(b, s, l, n, j), x), 0, nord(b, s, l, n))


def sum_sp_lose(b, s, l, x, n):
    return sum_(lambda j: sp_lose(oat(b, s, l, n, j), x), 0, nord(b, s, l, n))


def wp_win(b, s, l, x, n):
    """worst-case profit if the selection wins, as get_exposures reports it (two separately rounded sums + SP liabilities)"""
    return round(sum_mb_win(b, s, l, x, n) + sum_ml_win(b, s, l, x, n), 2) + round(sum_ul_win(b, s, l, x, n), 2) + sum_sp_win(b, s, l, x, n)


def wp_lose(b, s, l, x, n):
    return round(sum_ml_lose(b, s, l, x, n) + sum_mb_lose(b, s, l, x, n), 2) + round(sum_ub_lose(b, s, l, x, n), 2) + sum_sp_lose(b, s, l, x, n)


@contract("flumine/markets/blotter.py::Blotter.selection_exposure", tags=["C16"])
def _(self, strategy: Ref("BaseStrategy"), lookup: Tup(ATOM, INT, REAL)) -> REAL:
    requires("known_order_types", implies(has_view(self, strategy, lookup), forall(lambda j: order_ok(sel_view(self, strategy, lookup)[j]), 0, len(sel_view(self, strategy, lookup)))))
    modifies_map(self._strategy_selection_orders)
    ensures("worst_case_loss_or_zero", old(
        (-wp_win(self, strategy, lookup, None, None) if wp_win(self, strategy, lookup, None, None) < wp_lose(self, strategy, lookup, None, None)
         else -wp_lose(self, strategy, lookup, None, None))
        if (wp_win(self, strategy, lookup, None, None) < 0 or wp_lose(self, strategy, lookup, None, None) < 0) else 0) == result)
