"""C17 - OrderValidation (flumine/controls/tradingcontrols.py): normal return <=> the order is valid."""

schema("BaseControl", flumine=Ref("BaseFlumine"), NAME=ATOM)


# used at the call site in _on_error; PROVED in engine variant B (groups/B/contracts/c03_lifecycle.py, property C03), assumed in this variant
@contract("flumine/order/order.py::BaseOrder.violation", tags=[])
def _(self, violation_msg: ATOM):
    trusted("proved under C03 in engine variant B (the order state machine lives there); used here as the callee contract of BaseControl._on_error")
    modifies(self, "status")
    modifies(self, "complete")
    modifies(self, "date_time_status_update")
    modifies(self, "violation_msg")
    modifies_list(self.status_log)
    modifies(self.update_data, "size_reduction")
    modifies(self.update_data, "new_price")
    ensures("violation", self.status == OrderStatus.VIOLATION and self.complete)


@contract("flumine/controls/__init__.py::BaseControl._on_error", tags=["C01", "C17", "C18", "C02", "C03"])
def _(self, order: Ref("BaseOrder"), error: ATOM):
    raises(ControlError, when=True, iff=True, label="always",
           modifies=[(order, "status"), (order, "complete"), (order, "violation_msg"), (order, "date_time_status_update"),
                     (order.update_data, "size_reduction"), (order.update_data, "new_price")])
    modifies_list(order.status_log)


def on_finest(p):
    return exists_int(lambda k: 0 <= k and k <= 99899 and p == 1.01 + k * 0.01)


def on_line(p, lo, hi, st):
    return exists_int(lambda k: k >= 0 and p == lo + k * st and p <= hi)


def penny(x):
    return is_int(x * 100)


def eff_size(ot):
    return ot.size if (ot.size is not None and ot.size != 0) else ot.bet_target_size


def valid_size(ot):
    return eff_size(ot) is not None and eff_size(ot) > 0 and penny(eff_size(ot))


def valid_price(ot):
    return ot.price is not None and (
        on_classic(ot.price) if ot.price_ladder_definition == "CLASSIC" else (
            on_finest(ot.price) if ot.price_ladder_definition == "FINEST" else (
                on_line(ot.price, ot.line_range_info.min_unit_value, ot.line_range_info.max_unit_value, ot.line_range_info.interval)
                if ot.price_ladder_definition == "LINE_RANGE" else True)))


def valid_liability(ot):
    return ot.liability is not None and ot.liability > 0 and penny(ot.liability)


def min_size_ok_limit(ot, client):
    return (not client.min_bet_validation) or eff_size(ot) >= client.min_bet_size or ot.price * eff_size(ot) >= client.min_bet_payout


def min_size_ok_sp(order, client):
    return (not client.min_bet_validation) or (
        order.order_type.liability >= client.min_bet_size if order.side == "BACK" else (
            order.order_type.liability >= client.min_bsp_liability if order.side == "LAY" else True))


def valid_betfair(order):
    return (
        (valid_size(order.order_type) and valid_price(order.order_type) and min_size_ok_limit(order.order_type, order.client))
        if order.order_type.ORDER_TYPE == OrderTypes.LIMIT else (
            (valid_price(order.order_type) and valid_liability(order.order_type) and min_size_ok_sp(order, order.client))
            if order.order_type.ORDER_TYPE == OrderTypes.LIMIT_ON_CLOSE else (
                (valid_liability(order.order_type) and min_size_ok_sp(order, order.client))
                if order.order_type.ORDER_TYPE == OrderTypes.MARKET_ON_CLOSE else False)))


def ladder_domain(ot):
    return ot.price_ladder_definition == "CLASSIC" or ot.price_ladder_definition == "FINEST" or (
        ot.price_ladder_definition == "LINE_RANGE" and ot.line_range_info is not None and ot.line_range_info.interval > 0
        and ot.line_range_info.min_unit_value <= ot.line_range_info.max_unit_value)


@contract("flumine/utils.py::make_line_prices", tags=["C17"], fresh_result=True)
def _(min_unit: REAL, max_unit: REAL, interval: REAL) -> ListOf(REAL):
    requires("positive_interval", interval > 0)
    local(prices=ListOf(REAL))
    invariant(0, "shape", len(prices) >= 1 and price == min_unit + (len(prices) - 1) * interval and price <= max_unit or (len(prices) == 1 and price == min_unit))
    invariant(0, "content", forall(lambda j: prices[j] == min_unit + j * interval, 0, len(prices)))
    invariant(0, "bound", forall(lambda j: implies(j >= 1, prices[j] <= max_unit), 0, len(prices)))
    invariant(0, "cursor", price == min_unit + (len(prices) - 1) * interval)
    ensures("first", len(result) >= 1 and result[0] == min_unit)
    ensures("content", forall(lambda j: result[j] == min_unit + j * interval, 0, len(result)))
    ensures("bounded", forall(lambda j: implies(j >= 1, result[j] <= max_unit), 0, len(result)))
    ensures("complete", min_unit + len(result) * interval > max_unit)


@contract("flumine/controls/tradingcontrols.py::OrderValidation._validate_size", tags=["C17"], self_class="OrderValidation")
def _(self, order: Ref("BetfairOrder")):
    raises(ControlError, when=not valid_size(order.order_type), iff=True, label="invalid_size",
           modifies=[(order, "status"), (order, "complete"), (order, "violation_msg"), (order, "date_time_status_update"),
                     (order.update_data, "size_reduction"), (order.update_data, "new_price")])


@contract("flumine/controls/tradingcontrols.py::OrderValidation._validate_betfair_price", tags=["C17"])
def _(self, order: Ref("BetfairOrder")):
    requires("ladder_domain", ladder_domain(order.order_type))
    raises(ControlError, when=not valid_price(order.order_type), iff=True, label="invalid_price",
           modifies=[(order, "status"), (order, "complete"), (order, "violation_msg"), (order, "date_time_status_update"),
                     (order.update_data, "size_reduction"), (order.update_data, "new_price")])


@contract("flumine/controls/tradingcontrols.py::OrderValidation._validate_betfair_liability", tags=["C17"])
def _(self, order: Ref("BetfairOrder")):
    raises(ControlError, when=not valid_liability(order.order_type), iff=True, label="invalid_liability",
           modifies=[(order, "status"), (order, "complete"), (order, "violation_msg"), (order, "date_time_status_update"),
                     (order.update_data, "size_reduction"), (order.update_data, "new_price")])


@contract("flumine/controls/tradingcontrols.py::OrderValidation._validate_betfair_min_size", tags=["C17"])
def _(self, order: Ref("BetfairOrder"), order_type: ATOM):
    requires("client_bound", order.client is not None)
    requires("type_matches", order_type == order.order_type.ORDER_TYPE)
    requires("already_validated", implies(order_type == OrderTypes.LIMIT, eff_size(order.order_type) is not None and order.order_type.price is not None)
             and implies(order_type != OrderTypes.LIMIT, order.order_type.liability is not None))
    raises(ControlError,
           when=not (min_size_ok_limit(order.order_type, order.client) if order_type == OrderTypes.LIMIT else min_size_ok_sp(order, order.client)),
           iff=True, label="below_minimum",
           modifies=[(order, "status"), (order, "complete"), (order, "violation_msg"), (order, "date_time_status_update"),
                     (order.update_data, "size_reduction"), (order.update_data, "new_price")])


@contract("flumine/controls/tradingcontrols.py::OrderValidation._validate_betfair_order", tags=["C17"])
def _(self, order: Ref("BetfairOrder")):
    requires("client_bound", order.client is not None)
    requires("ladder_domain", ladder_domain(order.order_type))
    raises(ControlError, when=not valid_betfair(order), iff=True, label="invalid_order",
           modifies=[(order, "status"), (order, "complete"), (order, "violation_msg"), (order, "date_time_status_update"),
                     (order.update_data, "size_reduction"), (order.update_data, "new_price")])


# ----------------------------------------------------------------------------- Betdaq orders (second instantiation of the shared validators)
def betdaq_band(t, lo, hi, st):
    return lo <= t and t < hi and exists_int(lambda k: k >= 0 and t == lo + k * st)


def on_betdaq(t):
    """Betdaq ladder written from its increment table: 1.01-3 by 0.01, 3-4 by 0.05, 4-10 by 0.1, 10-20 by 0.5, 20-50 by 1, 50-200 by 2, 200-1000 by 5"""
    return (betdaq_band(t, 1.01, 3, 0.01) or betdaq_band(t, 3, 4, 0.05) or betdaq_band(t, 4, 10, 0.1) or betdaq_band(t, 10, 20, 0.5)
            or betdaq_band(t, 20, 50, 1) or betdaq_band(t, 50, 200, 2) or betdaq_band(t, 200, 1000, 5) or t == 1000)


def valid_size_betdaq(ot):
    return ot.size is not None and ot.size > 0 and penny(ot.size)


def valid_betdaq(order):
    return order.order_type.ORDER_TYPE == OrderTypes.LIMIT and valid_size_betdaq(order.order_type) and order.order_type.price is not None and on_betdaq(order.order_type.price)


ON_ERROR_MODS = 0


@contract("flumine/controls/tradingcontrols.py::OrderValidation._validate_size", tags=["C17"], variant="betdaq")
def _(self, order: Ref("BetdaqOrder")):
    raises(ControlError, when=not valid_size_betdaq(order.order_type), iff=True, label="invalid_size",
           modifies=[(order, "status"), (order, "complete"), (order, "violation_msg"), (order, "date_time_status_update"),
                     (order.update_data, "size_reduction"), (order.update_data, "new_price")])


@contract("flumine/controls/tradingcontrols.py::OrderValidation._validate_betdaq_price", tags=["C17"])
def _(self, order: Ref("BetdaqOrder")):
    raises(ControlError, when=not (order.order_type.price is not None and on_betdaq(order.order_type.price)), iff=True, label="invalid_price",
           modifies=[(order, "status"), (order, "complete"), (order, "violation_msg"), (order, "date_time_status_update"),
                     (order.update_data, "size_reduction"), (order.update_data, "new_price")])


@contract("flumine/controls/tradingcontrols.py::OrderValidation._validate_betdaq_min_size", tags=["C17"])
def _(self, order: Ref("BetdaqOrder"), order_type: ATOM):
    requires("client_bound", order.client is not None)


@contract("flumine/controls/tradingcontrols.py::OrderValidation._validate_betdaq_order", tags=["C17"])
def _(self, order: Ref("BetdaqOrder")):
    requires("client_bound", order.client is not None)
    raises(ControlError, when=not valid_betdaq(order), iff=True, label="invalid_order",
           modifies=[(order, "status"), (order, "complete"), (order, "violation_msg"), (order, "date_time_status_update"),
                     (order.update_data, "size_reduction"), (order.update_data, "new_price")])


@contract("flumine/controls/tradingcontrols.py::OrderValidation._validate", tags=["C17"])
def _(self, order: Ref("BetfairOrder"), package_type: ATOM):
    requires("client_bound", order.client is not None)
    requires("ladder_domain", ladder_domain(order.order_type))
    raises(ControlError, when=not valid_betfair(order), iff=True, label="invalid_order",
           modifies=[(order, "status"), (order, "complete"), (order, "violation_msg"), (order, "date_time_status_update"),
                     (order.update_data, "size_reduction"), (order.update_data, "new_price")])


@contract("flumine/controls/tradingcontrols.py::OrderValidation._validate", tags=["C17"], variant="betdaq")
def _(self, order: Ref("BetdaqOrder"), package_type: ATOM):
    requires("client_bound", order.client is not None)
    raises(ControlError, when=not valid_betdaq(order), iff=True, label="invalid_order",
           modifies=[(order, "status"), (order, "complete"), (order, "violation_msg"), (order, "date_time_status_update"),
                     (order.update_data, "size_reduction"), (order.update_data, "new_price")])
