"""C01: bounded native stand-in for the gate on real objects (rt/c01_gate.py) - labelled bounded, never counted as proved.
Failures inside the region of a recorded known finding print KNOWN-FINDING; any other failure is a VIOLATION."""
import json, os, subprocess


def run(repo, spec, ground, repo_root):
    here = os.path.dirname(os.path.dirname(os.path.abspath(__file__)))
    tier = os.environ.get("VERIF_TIER_EFFECTIVE", "quick")
    n = 250 if tier == "quick" else 4000
    seed = int(os.environ.get("VERIF_SEED", "0"))
    p = subprocess.run(["/venv/bin/python", os.path.join(here, "rt", "c01_gate.py"), "--repo", repo_root, "--n", str(n), "--seed", str(seed)], capture_output=True, text=True, timeout=1200)
    lines = [l for l in p.stdout.strip().splitlines() if l.startswith("{")]
    if not lines:
        return dict(obligations=0, discharged=0, violations=[], samples=[], assumptions=[], ground=[dict(check="bounded C01 gate stand-in", ok=False, detail=p.stderr[-400:])])
    r = json.loads(lines[-1])
    known = json.load(open(os.path.join(here, "known_findings.json"))).get("findings", [])
    kreg = {f["region"]: f for f in known if f["property"] == "C01" and f["obligation"] == "native:c01_gate"}
    viol, klines = [], []
    for f in r["failures"]:
        reg = f.get("region")
        if reg in kreg:
            klines.append("KNOWN-FINDING: property=C01 %s" % kreg[reg]["what"])
        elif not viol:
            viol.append(dict(obligation="c01_gate/bounded-standin:%s" % f["kind"].replace(" ", "_"), kind="bounded-standin", function="flumine/controls/tradingcontrols.py::StrategyExposure._validate (through Transaction)",
                             failing_input=f, native=dict(confirmed=True, observed=f), note="real Market/Blotter/Transaction/StrategyExposure objects; brute-force worst case"))
    return dict(obligations=0, discharged=0, violations=viol, samples=[], known_lines=sorted(set(klines)),
                assumptions=["BOUNDED (not proved): the market clause of the gate and the Transaction wiring are checked natively only: %d requests (%d accepted) on random positions, brute-force worst case over fills and winner sets" % (r["evaluations"], r["accepted"])],
                ground=[dict(check="bounded C01 gate stand-in", ok=not viol, evaluations=r["evaluations"], accepted_requests=r["accepted"], distinct_cases=r["distinct"],
                             bound="<=3 selections, <=7 requests per position, limits from {None,5,10,20,50}, %d positions" % n)])
