"""C16: bounded stand-in for Blotter.market_exposure (labelled bounded, never counted as proved) - see rt/c16_market_exposure.py"""
import json, os, subprocess


def run(repo, spec, ground, repo_root):
    here = os.path.dirname(os.path.dirname(os.path.abspath(__file__)))
    tier = os.environ.get("VERIF_TIER_EFFECTIVE", "quick")
    n = 1500 if tier == "quick" else 20000
    seed = int(os.environ.get("VERIF_SEED", "0"))
    p = subprocess.run(["/venv/bin/python", os.path.join(here, "rt", "c16_market_exposure.py"), "--repo", repo_root, "--n", str(n), "--seed", str(seed)],
                       capture_output=True, text=True, timeout=900)
    lines = [l for l in p.stdout.strip().splitlines() if l.startswith("{")]
    if not lines:
        return dict(obligations=0, discharged=0, violations=[], samples=[], assumptions=[], ground=[dict(check="bounded market_exposure stand-in", ok=False, detail=p.stderr[-400:])])
    r = json.loads(lines[-1])
    viol = []
    for f in r["failures"][:1]:
        viol.append(dict(obligation="Blotter.market_exposure/bounded-standin:worst_case_over_winner_sets", kind="bounded-standin", function="flumine/markets/blotter.py::Blotter.market_exposure",
                         failing_input=f, native=dict(confirmed=True, observed=f), note="native comparison with the brute-force worst case over all winner sets on real Blotter/Order objects"))
    lean = []
    extra_ob = 0
    extra_dis = 0
    if tier == "thorough":
        # lemmas L1 (min over fill subsets = sum of the non-positive terms) and L2 (sorted prefix = least k-subset sum), Lean 4 + Mathlib
        lp = subprocess.run(["lean", "Exposure.lean"], cwd=os.path.join(here, "lean"), capture_output=True, text=True, timeout=1800)
        ok = lp.returncode == 0 and "error" not in (lp.stdout + lp.stderr)
        lean = [dict(check="lean Exposure.lean (L1_lower, L1_attained, L2_lower)", ok=ok, detail=(lp.stdout + lp.stderr)[-300:])]
        extra_ob, extra_dis = 3, (3 if ok else 0)
    return dict(obligations=extra_ob, discharged=extra_dis, violations=viol, samples=[dict(obligation="lean:" + l["check"], verdict="accepted" if l["ok"] else "rejected", solver="lean 4.33 + Mathlib") for l in lean],
                assumptions=["BOUNDED (not proved): Blotter.market_exposure is outside the prover's subset (set of symbolic keys, sorted()[:k]); it is compared natively with the brute-force minimum over all winner sets on %d random positions (<= 4 selections x <= 4 orders)" % r["evaluations"]],
                ground=lean + [dict(check="bounded market_exposure stand-in", ok=not r["failures"], evaluations=r["evaluations"], distinct_cases=r["distinct"], bound="<=4 selections x <=4 orders, <=7 active runners, <=3 winners, %d draws" % n)])
