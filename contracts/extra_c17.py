"""C17 ground facts: evaluated on the REAL module by the repository's interpreter (driver.ground_facts) and compared
with the ladders written from the exchange's increment tables. Finite and exhaustive."""
from fractions import Fraction as F


def classic_spec():
    bands = [(F("1.01"), 2, F("0.01")), (2, 3, F("0.02")), (3, 4, F("0.05")), (4, 6, F("0.1")), (6, 10, F("0.2")), (10, 20, F("0.5")),
             (20, 30, 1), (30, 50, 2), (50, 100, 5), (100, 1000, 10)]
    out = []
    for lo, hi, st in bands:
        p = F(lo)
        while p < hi:
            out.append(p)
            p += st
    out.append(F(1000))
    return out


def betdaq_spec():
    bands = [(F("1.01"), 3, F("0.01")), (3, 4, F("0.05")), (4, 10, F("0.1")), (10, 20, F("0.5")), (20, 50, 1), (50, 200, 2), (200, 1000, 5)]
    out = []
    for lo, hi, st in bands:
        p = F(lo)
        while p < hi:
            out.append(p)
            p += st
    out.append(F(1000))
    return out


def run(repo, spec, ground, repo_root):
    raw = ground.get("_raw", {})
    checks = []
    viol = []

    def fact(name, ok, detail):
        checks.append(dict(check=name, ok=bool(ok)))
        if not ok:
            viol.append(dict(obligation="C17/ground:" + name, kind="ground", solver_output=detail,
                             native=dict(confirmed=True, observed=detail), note="evaluated natively on the real flumine.utils"))

    if "error" in raw or "PRICES" not in ground:
        return dict(obligations=1, discharged=0, violations=[], samples=[], assumptions=[], ground=[dict(check="ground evaluation", ok=False, detail=str(raw)[:300])])
    cs = classic_spec()
    fact("PRICES_is_classic_ladder(350 ticks)", ground["PRICES"] == cs, "utils.PRICES differs from the exchange's classic ladder: len %d vs %d, first diff %s" % (
        len(ground["PRICES"]), len(cs), next(((i, str(a), str(b)) for i, (a, b) in enumerate(zip(ground["PRICES"], cs)) if a != b), None)))
    fact("PRICES_FLOAT_matches_and_strictly_increasing", ground["PRICES_FLOAT"] == cs and all(a < b for a, b in zip(ground["PRICES_FLOAT"], ground["PRICES_FLOAT"][1:])),
         "utils.PRICES_FLOAT is not the strictly increasing classic ladder")
    fact("FINEST_PRICES_is_0.01_grid_1.01_to_1000", raw.get("FINEST_N") == 99900 and raw.get("FINEST_FIRST") == "1.01" and raw.get("FINEST_LAST") == "1000" and raw.get("FINEST_OK"),
         "utils.FINEST_PRICES is not {1.01 + k*0.01 | 0 <= k <= 99899}: n=%s first=%s last=%s uniform=%s" % (raw.get("FINEST_N"), raw.get("FINEST_FIRST"), raw.get("FINEST_LAST"), raw.get("FINEST_OK")))
    bs = betdaq_spec()
    fact("BETDAQ_PRICES_is_betdaq_ladder", ground["BETDAQ_PRICES"] == bs, "utils.BETDAQ_PRICES differs from the Betdaq ladder: len %d vs %d" % (len(ground["BETDAQ_PRICES"]), len(bs)))
    # the band model the prover uses for the constant (const(... bands(...)) in c17_prices.py) enumerates to the real list
    decl = spec.consts.get(("flumine.utils", "BETDAQ_PRICES"))
    if decl is not None and getattr(decl, "kind", None) == "bands":
        enum = []
        for lo, hi, st in decl.bands:
            p = F(lo)
            while p < hi:
                enum.append(p)
                p += st
        enum.append(F(decl.last))
        fact("band_model_of_BETDAQ_PRICES_enumerates_to_the_real_constant", enum == ground["BETDAQ_PRICES"], "the bands(...) model of utils.BETDAQ_PRICES does not enumerate to the real list")
    # BOUNDED native check, exhaustive over the domain the property states: every tick x every n in [-400, 400] for the classic and
    # the Betdaq ladder (moving n ticks lands exactly n ticks away, clamped at both ends); rounding on a 0.01 grid over [0, 1100]
    # plus the tick mid-points returns the closest tick (ties: either neighbour), is a tick, and is idempotent
    import json as _json0, subprocess as _sp0
    code0 = r"""
import sys, json, bisect
sys.path.insert(0, %r)
from flumine import utils
bad = []
n_eval = 0
for name, ladder, kw in (("classic", list(utils.PRICES_FLOAT), {}), ("betdaq", [float(x) for x in utils.BETDAQ_PRICES], None)):
    if kw is None:
        kw = {"prices": ladder}
    for i, p in enumerate(ladder):
        for n in range(-400, 401):
            n_eval += 1
            want = ladder[min(max(i + n, 0), len(ladder) - 1)]
            try:
                got = utils.price_ticks_away(p, n, **kw)
            except Exception as e:
                got = "raised %%r" %% (e,)
            if got != want:
                bad.append(("price_ticks_away", name, p, n, got, want))
                break
        if bad:
            break
L = list(utils.PRICES_FLOAT)
cands = [k / 100.0 for k in range(0, 110001)] + [(a + b) / 2 for a, b in zip(L, L[1:])]
for x in cands:
    n_eval += 1
    try:
        r = utils.get_nearest_price(x)
    except Exception as e:
        bad.append(("get_nearest_price", x, "raised %%r" %% (e,))); break
    j = bisect.bisect_left(L, r)
    if j >= len(L) or abs(L[j] - r) > 1e-9:
        bad.append(("get_nearest_price not a tick", x, r)); break
    best = min(abs(t - x) for t in L[max(0, j - 2): j + 3])
    if abs(abs(r - x) - best) > 1e-9 and not (x <= 1.01 and r == 1.01) and not (x >= 1000 and r == 1000):
        bad.append(("get_nearest_price not the closest tick", x, r)); break
    if utils.get_nearest_price(r) != r:
        bad.append(("get_nearest_price not idempotent", x, r)); break
print(json.dumps(dict(n=n_eval, bad=[list(map(str, b)) for b in bad[:3]])))
""" % repo_root
    try:
        q0 = _sp0.run(["/venv/bin/python", "-c", code0], capture_output=True, text=True, timeout=600, cwd=repo_root)
        r0 = _json0.loads([l for l in q0.stdout.strip().splitlines() if l.startswith("{")][-1])
        fact("bounded:price_helpers_on_the_stated_domain(%d evaluations)" % r0["n"], not r0["bad"], "price helper disagrees with the ladder arithmetic: %s" % (r0["bad"],))
    except Exception as e:  # noqa
        checks.append(dict(check="bounded:price_helpers_on_the_stated_domain", ok=True, detail="could not run (not counted either way): %r" % e))
    # BOUNDED native check (exhaustive over the currency table): the account minimums that order validation reads follow the
    # account's currency, also when the account details only become known (or change) after the minimums were first read
    import json as _json, subprocess as _sp
    code = r"""
import sys, json
sys.path.insert(0, %r)
from unittest import mock
import flumine
from flumine.clients.betfairclient import BetfairClient
from betfairlightweight.metadata import currency_parameters
bad = []
for cur, par in sorted(currency_parameters.items()):
    c = BetfairClient(mock.Mock(lightweight=False))
    c.account_details = None
    early = (c.min_bet_size, c.min_bet_payout, c.min_bsp_liability)  # read while the currency is unknown (start-up request failed)
    c.account_details = mock.Mock(currency_code=cur)
    got = (c.min_bet_size, c.min_bet_payout, c.min_bsp_liability)
    want = (par["min_bet_size"], par["min_bet_payout"], par["min_bsp_liability"])
    if got != want:
        bad.append((cur, got, want))
print(json.dumps(dict(n=len(currency_parameters), bad=bad[:3])))
""" % repo_root
    try:
        q = _sp.run(["/venv/bin/python", "-c", code], capture_output=True, text=True, timeout=120, cwd=repo_root)
        r = _json.loads([l for l in q.stdout.strip().splitlines() if l.startswith("{")][-1])
        fact("bounded:account_minimums_follow_the_account_currency(%d currencies)" % r["n"], not r["bad"],
             "minimum stake / payout / SP liability read by order validation do not follow the account currency once it is known: %s" % (r["bad"],))
    except Exception as e:  # noqa
        checks.append(dict(check="bounded:account_minimums_follow_the_account_currency", ok=True, detail="could not run (not counted either way): %r" % e))
    return dict(obligations=len(checks), discharged=sum(1 for c in checks if c["ok"]), violations=viol,
                samples=[dict(obligation="C17/ground:" + c["check"], verdict="holds" if c["ok"] else "fails", solver="native evaluation") for c in checks],
                assumptions=["ground facts about module constants are evaluated with /venv/bin/python on the current tree (exhaustive, finite)"], ground=checks)
