"""Shared schema: sorts of the attributes the contracts mention (assumption A3) and vocabulary (DESIGN section 4).

Loaded first (file name order).  Dynamic classes of order types are modelled by the tag field ORDER_TYPE
(the class attribute of the concrete LimitOrder / LimitOnCloseOrder / MarketOnCloseOrder class).
"""

# ----------------------------------------------------------------------------- order types
schema(
    "BaseOrderType",
    ORDER_TYPE=ATOM,  # OrderTypes.LIMIT / LIMIT_ON_CLOSE / MARKET_ON_CLOSE (class attribute of the concrete class)
    EXCHANGE=ATOM,
    price=Opt(REAL),
    size=Opt(MONEY),  # D1: sizes are on the penny grid (OrderValidation refuses anything else, C17)
    liability=Opt(REAL),
    persistence_type=Opt(ATOM),
    time_in_force=Opt(ATOM),
    min_fill_size=Opt(REAL),
    bet_target_type=Opt(ATOM),
    bet_target_size=Opt(REAL),
    price_ladder_definition=Opt(ATOM),
    line_range_info=Opt(Ref("LineRangeInfo")),
)
schema("LineRangeInfo", min_unit_value=REAL, max_unit_value=REAL, interval=REAL)

# ----------------------------------------------------------------------------- clients
schema(
    "BaseClient",
    min_bet_validation=BOOL,
    min_bet_size=REAL,  # property over betfairlightweight.metadata.currency_parameters: symbolic minimum (all currencies)
    min_bet_payout=REAL,
    min_bsp_liability=REAL,
    best_price_execution=BOOL,
    simulated_full_match=BOOL,
    paper_trade=BOOL,
    commission_base=REAL,
    transaction_limit=Opt(INT),
    trading_controls=ListOf(Ref("BaseControl")),
    execution=Ref("BaseExecution"),
    username=ATOM,
    EXCHANGE=ATOM,
)

# ----------------------------------------------------------------------------- orders
struct("UpdateData", size_reduction=Opt(REAL), new_price=Opt(REAL), absent_keyerror=False)
schema(
    "BaseOrder",
    id=ATOM,
    trade=Ref("Trade"),
    side=ATOM,
    order_type=Ref("BaseOrderType"),
    selection_id=INT,
    handicap=REAL,
    lookup=Tup(ATOM, INT, REAL),
    client=Opt(Ref("BaseClient")),
    runner_status=Opt(ATOM),
    line_range_result=Opt(REAL),
    market_type=Opt(ATOM),
    each_way_divisor=Opt(REAL),
    number_of_dead_heat_winners=Opt(INT),
    status=Opt(ATOM),
    complete=BOOL,
    status_log=ListOf(ATOM),
    violation_msg=Opt(ATOM),
    bet_id=Opt(ATOM),
    update_data=Ref("UpdateData"),
    responses=Ref("Responses"),
    simulated=Ref("SimulatedOrder"),
    _simulated=BOOL,
    publish_time=Opt(REAL),
    market_version=Opt(INT),
    async_=Opt(BOOL),
    date_time_created=REAL,
    date_time_execution_complete=Opt(REAL),
    date_time_status_update=REAL,
    market_notes=Opt(ATOM),
    market_id=ATOM,  # property: self.trade.market_id
)
schema(
    "SimulatedOrder",
    order=Ref("BetfairOrder"),  # only Betfair orders are simulated (BetdaqOrder.current_order never uses it)
    size_matched=MONEY,
    average_price_matched=REAL,
    matched=ListOf(Ref("Fragment")),
    size_cancelled=MONEY,
    size_lapsed=MONEY,
    size_voided=MONEY,
    market_version=Opt(INT),
    _piq=REAL,
    _bsp_reconciled=BOOL,
)
record("Fragment", REAL, REAL, MONEY)  # [publish_time, price, size]
schema("PriceSize", price=REAL, size=MONEY)  # {"price": p, "size": s} entries of the book ladders

ST_PENDING = "OrderStatus.PENDING"

# ----------------------------------------------------------------------------- dispatch (A4)
# receivers of static class BaseOrder are BetfairOrder instances (the simulated exchange and the live Betfair
# execution only handle those); BetdaqOrder methods are verified as separate instantiations where claimed
dispatch("BaseOrder", "BetfairOrder")

# properties of an order that the exposure / settlement contracts read as abstract fields (DESIGN C16: "as reads of
# current_order"): the property bodies are one-line reads of the exchange's or the simulator's record
abstract_property("BaseOrder", "size_matched", REAL)
abstract_property("BaseOrder", "size_remaining", REAL)
abstract_property("BaseOrder", "average_price_matched", REAL)
abstract_property("BaseOrder", "profit", REAL)

# ----------------------------------------------------------------------------- market data (betfairlightweight resources: external, A7)
schema(
    "MarketBook",
    market_id=ATOM, status=ATOM, version=INT, bet_delay=REAL, publish_time=REAL, publish_time_epoch=REAL, inplay=BOOL,
    bsp_reconciled=BOOL, number_of_winners=INT, number_of_active_runners=INT, runners=ListOf(Ref("RunnerBook")),
    market_definition=Ref("MarketDefinition"), streaming_unique_id=INT, streaming_snap=BOOL,
)
schema(
    "RunnerBook",
    selection_id=INT, handicap=REAL, status=ATOM, adjustment_factor=Opt(REAL), ex=Ref("RunnerBookEX"),
    sp=Opt(Ref("RunnerBookSP")), last_price_traded=Opt(REAL),
)
schema("RunnerBookEX", available_to_back=ListOf(Ref("PriceSize")), available_to_lay=ListOf(Ref("PriceSize")), traded_volume=ListOf(Ref("PriceSize")))
schema("RunnerBookSP", actual_sp=Opt(REAL))
schema(
    "MarketDefinition",
    market_type=ATOM, each_way_divisor=Opt(REAL), bsp_market=BOOL, persistence_enabled=BOOL, event_id=ATOM, event_type_id=ATOM,
)

# ----------------------------------------------------------------------------- blotter / market
schema(
    "Blotter",
    market_id=ATOM,
    active=BOOL,
    _orders=MapOf(ATOM, Ref("BaseOrder")),
    _trades=MapOfDefault(Ref("Trade"), ListOf(Ref("BaseOrder"))),
    _bet_id_lookup=MapOf(Opt(ATOM), Ref("BaseOrder")),
    _trade_lookup=MapOf(ATOM, Ref("Trade")),
    _live_orders=ListOf(Ref("BaseOrder")),
    _strategy_orders=MapOfDefault(Ref("BaseStrategy"), ListOf(Ref("BaseOrder"))),
    _strategy_selection_orders=MapOfDefault(Tup(Ref("BaseStrategy"), INT, REAL), ListOf(Ref("BaseOrder"))),
    _client_orders=MapOfDefault(Opt(Ref("BaseClient")), ListOf(Ref("BaseOrder"))),
    _client_strategy_orders=MapOfDefault(Tup(Opt(Ref("BaseClient")), Ref("BaseStrategy")), ListOf(Ref("BaseOrder"))),
)
schema(
    "Market",
    flumine=Ref("BaseFlumine"), market_id=ATOM, closed=BOOL, date_time_created=REAL, date_time_closed=Opt(REAL),
    market_book=Opt(Ref("MarketBook")), market_catalogue=Opt(Ref("MarketCatalogue")), update_market_catalogue=BOOL,
    blotter=Ref("Blotter"), _transaction_id=INT,
    event_id=Opt(ATOM), event_type_id=Opt(ATOM),  # properties over catalogue / book: abstract
)
schema("Trade", id=ATOM, market_id=ATOM, selection_id=INT, handicap=REAL, strategy=Ref("BaseStrategy"), status=ATOM,
       orders=ListOf(Ref("BaseOrder")), pending_orders=BOOL, status_log=ListOf(ATOM), place_reset_seconds=REAL, reset_seconds=REAL,
       date_time_created=REAL, date_time_complete=Opt(REAL), market_notes=Opt(ATOM))
module_var("flumine.config", simulated=BOOL, simulated_strategy_isolation=BOOL, simulation_available_prices=BOOL, current_time=REAL,
           raise_errors=BOOL, customer_strategy_ref=ATOM, async_place_orders=BOOL, place_latency=REAL, cancel_latency=REAL,
           update_latency=REAL, replace_latency=REAL, order_sep=ATOM, execution_retry_attempts=INT)
