"""C04 / C05 / C06 - the simulated order (flumine/simulation/simulatedorder.py).

Buckets of a simulated LIMIT order: M matched, C cancelled, L lapsed, V voided, S requested size, R = S - M - C - L - V.
Inv4 (DESIGN C04): all on the penny grid, M, C, L, V >= 0, R >= 0.
"""

inline(
    "flumine/simulation/simulatedorder.py::SimulatedOrder.size_remaining",
    "flumine/simulation/simulatedorder.py::SimulatedOrder.take_sp",
    "flumine/simulation/utils.py::SimulatedCancelResponse.__init__",
    "flumine/simulation/utils.py::SimulatedPlaceResponse.__init__",
    "flumine/simulation/utils.py::SimulatedUpdateResponse.__init__",
    "flumine/utils.py::get_price",
    "flumine/utils.py::get_size",
)
clock("flumine.config", "current_time")
inline_module("flumine/simulation/simulatedorder.py")  # a helper of this file without a contract is verified inside its callers
heap_wf_elements("SimulatedOrder", "matched")  # the fragments of an order are allocated objects: a fragment created later is none of them
schema("SimulatedCancelResponse", status=ATOM, size_cancelled=Opt(REAL), cancelled_date=Opt(REAL), error_code=Opt(ATOM))
schema("SimulatedPlaceResponse", status=ATOM, order_status=Opt(ATOM), bet_id=Opt(ATOM), average_price_matched=Opt(REAL), size_matched=Opt(REAL),
       placed_date=Opt(REAL), error_code=Opt(ATOM))
schema("SimulatedUpdateResponse", status=Opt(ATOM), error_code=Opt(ATOM))


def on_grid(x):
    return is_int(x * 100)


def is_limit_so(so):
    return so.order.order_type.ORDER_TYPE == OrderTypes.LIMIT


def S(so):
    return so.order.order_type.size


def R(so):
    return S(so) - so.size_matched - so.size_cancelled - so.size_lapsed - so.size_voided


def sp_lay_resized(so):
    """the exception stated by C04: a LAY limit order carried to the starting price is re-sized to preserve its liability,
    'cancelled' absorbs the (possibly negative) difference"""
    return so._bsp_reconciled and so.order.side == "LAY" and so.order.order_type.persistence_type == "MARKET_ON_CLOSE"


def Inv4(so):
    """the penny grid is the MONEY sort of these fields (schema): every store into them carries a grid obligation"""
    return (S(so) is not None and S(so) > 0
            and so.size_matched >= 0 and (so.size_cancelled >= 0 or sp_lay_resized(so)) and so.size_lapsed >= 0 and so.size_voided >= 0
            and R(so) >= 0)


def frag_ok(f):
    return f[1] > 0 and f[2] > 0 and on_grid(f[2])


def sum_sizes(m):
    return sum_(lambda j: m[j][2], 0, len(m))


def sum_ps(m):
    return sum_(lambda j: m[j][1] * m[j][2], 0, len(m))


# ----------------------------------------------------------------------------- wap
@contract("flumine/utils.py::wap", tags=["C05", "C04", "C06", "C08", "C09"])
def _(matched: ListOf(Ref("Fragment"))) -> Tup(REAL, REAL):
    invariant(0, "running_sums", a == sum_(lambda j: matched[j][1] * matched[j][2], 0, _i0) and b == sum_(lambda j: matched[j][2], 0, _i0))
    ensures("empty_or_zero", implies(len(matched) == 0 or sum_sizes(matched) == 0 or sum_ps(matched) == 0, result[0] == 0 and result[1] == 0))
    ensures("size_and_average", implies(not (len(matched) == 0 or sum_sizes(matched) == 0 or sum_ps(matched) == 0),
                                        result[0] == round(sum_sizes(matched), 2) and result[1] == round(sum_ps(matched) / sum_sizes(matched), 2)))


# ----------------------------------------------------------------------------- cancel
@contract("flumine/simulation/simulatedorder.py::SimulatedOrder.cancel", tags=["C04", "C02", "C08", "C09"])
def _(self, market_book: Ref("MarketBook")) -> Ref("SimulatedCancelResponse"):
    requires("inv4", implies(is_limit_so(self), Inv4(self)))
    requires("reduction_on_grid", implies(self.order.update_data["size_reduction"] is not None,
                                         on_grid(self.order.update_data["size_reduction"]) and self.order.update_data["size_reduction"] >= 0))
    modifies(self, "size_cancelled")
    ensures("closed_market_refuses", implies(market_book.status != "OPEN", result.status == "FAILURE" and self.size_cancelled == old(self.size_cancelled)))
    ensures("not_limit_refuses", implies(market_book.status == "OPEN" and not is_limit_so(self), result.status == "FAILURE" and self.size_cancelled == old(self.size_cancelled)))
    ensures("amount_is_clamped_to_remaining", implies(market_book.status == "OPEN" and is_limit_so(self),
            result.status == "SUCCESS"
            and result.size_cancelled == (old(R(self)) if (old(self.order.update_data["size_reduction"]) is None or old(self.order.update_data["size_reduction"]) == 0
                                                           or old(self.order.update_data["size_reduction"]) > old(R(self)))
                                          else old(self.order.update_data["size_reduction"]))
            and self.size_cancelled == old(self.size_cancelled) + result.size_cancelled))
    ensures("inv4_preserved", implies(is_limit_so(self), Inv4(self)))


# ----------------------------------------------------------------------------- representation invariant of the fragment list
def frags_ok(so):
    """every fragment has a positive price and a non-negative size (on the penny grid by its MONEY sort); a zero-size fragment
    is reachable (an order fully matched at placement and carried to the starting price in the same update)"""
    return forall(lambda j: so.matched[j][1] > 0 and so.matched[j][2] >= 0, 0, len(so.matched))


def matched_ok(so):
    """Inv4 (DESIGN C04), fragment part: M is the sum of the fragment sizes (so it is on the grid and >= 0)"""
    return (frags_ok(so) and so.size_matched == sum_sizes(so.matched) and so.size_matched >= 0 and sum_ps(so.matched) >= 0
            and implies(so.size_matched > 0, sum_ps(so.matched) > 0))


# ----------------------------------------------------------------------------- _update_matched
@contract("flumine/simulation/simulatedorder.py::SimulatedOrder._update_matched", tags=["C04", "C05", "C06", "C08", "C09"])
def _(self, data: Ref("Fragment")):
    requires("fragment_ok", data[1] > 0 and data[2] >= 0)
    requires("matched_ok", matched_ok(self))
    modifies(self, "size_matched")
    modifies(self, "average_price_matched")
    modifies_list(self.matched)
    ensures("appended", len(self.matched) == old(len(self.matched)) + 1 and self.matched[old(len(self.matched))] == data
            and forall(lambda j: self.matched[j] == old(self.matched[j]), 0, old(len(self.matched))))
    ensures("matched_grows_by_fragment", self.size_matched == old(self.size_matched) + data[2])
    ensures("matched_ok", matched_ok(self))
    ensures("average_is_vwap_2dp", self.average_price_matched == (round(sum_ps(self.matched) / sum_sizes(self.matched), 2) if self.size_matched > 0 else 0))


# ----------------------------------------------------------------------------- _create_place_response
def inv_so(so):
    """Inv4 for limit orders + the fragment part for every order"""
    return matched_ok(so) and implies(is_limit_so(so), Inv4(so) and so.order.order_type.price is not None and so.order.order_type.price >= 1.01)  # D1: prices are >= 1.01


@contract("flumine/simulation/simulatedorder.py::SimulatedOrder._create_place_response", tags=["C04", "C05", "C08"])
def _(self, bet_id: Opt(INT), status: ATOM = "SUCCESS", order_status: Opt(ATOM) = None, error_code: Opt(ATOM) = None) -> Ref("SimulatedPlaceResponse"):
    requires("has_client", self.order.client is not None)
    requires("inv", inv_so(self))
    requires("bet_ids_are_positive", bet_id is None or bet_id > 0)
    modifies(self, "size_matched")
    modifies(self, "average_price_matched")
    modifies_list(self.matched)
    ensures("no_full_match_no_change", implies(not (self.order.client.simulated_full_match and status == "SUCCESS" and old(R(self)) != 0 and is_limit_so(self)),
                                               self.size_matched == old(self.size_matched) and len(self.matched) == old(len(self.matched))
                                               and self.average_price_matched == old(self.average_price_matched)
                                               and forall(lambda j: self.matched[j] == old(self.matched[j]), 0, len(self.matched))))
    ensures("full_match_takes_all_remaining", implies(self.order.client.simulated_full_match and status == "SUCCESS" and is_limit_so(self),
                                                      self.size_matched == old(self.size_matched) + old(R(self)) and R(self) == 0))
    ensures("full_match_fragment_at_own_price", implies(self.order.client.simulated_full_match and status == "SUCCESS" and is_limit_so(self) and old(R(self)) != 0,
                                                        len(self.matched) == old(len(self.matched)) + 1
                                                        and self.matched[old(len(self.matched))][1] == self.order.order_type.price
                                                        and self.matched[old(len(self.matched))][2] == old(R(self))
                                                        and forall(lambda j: self.matched[j] == old(self.matched[j]), 0, old(len(self.matched)))))
    ensures("inv", inv_so(self))
    ensures("response_reports_the_buckets", result.status == status and result.size_matched == self.size_matched
            and result.average_price_matched == self.average_price_matched and result.error_code == error_code)
    ensures("reported_complete_iff_nothing_remains", implies(order_status is None and is_limit_so(self),
                                                             iff(result.order_status == "EXECUTION_COMPLETE", R(self) == 0)
                                                             and (result.order_status == "EXECUTION_COMPLETE" or result.order_status == "EXECUTABLE")))


# ----------------------------------------------------------------------------- passive matching (C06 single-order contracts)
def half(x):
    return x / 2


@contract("flumine/simulation/simulatedorder.py::SimulatedOrder._calculate_process_traded", tags=["C04", "C06", "C05"])
def _(self, publish_time: REAL, traded_size: REAL) -> REAL:
    requires("limit_order", is_limit_so(self))
    requires("inv", inv_so(self))
    requires("queue_nonneg", self._piq >= 0)
    requires("traded_nonneg", traded_size >= 0)
    modifies(self, "size_matched")
    modifies(self, "average_price_matched")
    modifies(self, "_piq")
    modifies_list(self.matched)
    # DESIGN C06, single order: queue first ...
    ensures("queue_ahead_absorbs", implies(old(self._piq) >= traded_size / 2,
                                           self._piq == old(self._piq) - traded_size / 2 and result == traded_size
                                           and self.size_matched == old(self.size_matched) and len(self.matched) == old(len(self.matched))))
    # ... then the order, by half the remaining volume, clamped to what remains, at 2dp
    ensures("fill_is_half_of_the_rest", implies(old(self._piq) < traded_size / 2,
                                                self._piq == 0
                                                and self.size_matched - old(self.size_matched) == round(min(old(R(self)), traded_size / 2 - old(self._piq)), 2)
                                                and result == (old(self._piq) + (self.size_matched - old(self.size_matched))) * 2))
    ensures("fragment_at_own_price", implies(self.size_matched != old(self.size_matched),
                                             len(self.matched) == old(len(self.matched)) + 1
                                             and self.matched[old(len(self.matched))][1] == self.order.order_type.price
                                             and self.matched[old(len(self.matched))][2] == self.size_matched - old(self.size_matched)))
    ensures("no_fill_no_fragment", implies(self.size_matched == old(self.size_matched), len(self.matched) == old(len(self.matched))))
    ensures("old_fragments_kept", forall(lambda j: self.matched[j] == old(self.matched[j]), 0, old(len(self.matched))))
    ensures("fill_bounded", self.size_matched >= old(self.size_matched) and self.size_matched - old(self.size_matched) <= old(R(self)))
    ensures("consumed_volume_accounted", result >= 0 and result <= traded_size + 0.01
            and result == 2 * (old(self._piq) - self._piq) + 2 * (self.size_matched - old(self.size_matched)))
    ensures("queue_nonneg", self._piq >= 0 and self._piq <= old(self._piq))
    ensures("inv", inv_so(self))


def tkey(d, j):
    return keys_of(d)[j]


def eligible(so, p):
    """the prices at or through the order's limit (C06 / C05)"""
    return (so.order.side == "BACK" and p >= so.order.order_type.price) or (so.order.side == "LAY" and p <= so.order.order_type.price)


@contract("flumine/simulation/simulatedorder.py::SimulatedOrder._process_traded", tags=["C06", "C04", "C05"])
def _(self, publish_time: REAL, traded: MapOf(REAL, REAL)):
    requires("limit_order", is_limit_so(self))
    requires("inv", inv_so(self))
    requires("queue_nonneg", self._piq >= 0)
    requires("traded_nonneg", forall(lambda j: traded[tkey(traded, j)] >= 0, 0, len(keys_of(traded))))
    modifies(self, "size_matched")
    modifies(self, "average_price_matched")
    modifies(self, "_piq")
    modifies_list(self.matched)
    modifies_map(traded)
    invariant(0, "same_keys", len(keys_of(traded)) == old(len(keys_of(traded)))
              and forall(lambda j: tkey(traded, j) == old(tkey(traded, j)), 0, len(keys_of(traded))))
    invariant(0, "suffix_untouched", forall(lambda j: traded[tkey(traded, j)] == old(traded[tkey(traded, j)]), _i0, len(keys_of(traded))))
    invariant(0, "prefix_consumed", forall(lambda j: traded[tkey(traded, j)] >= 0 and traded[tkey(traded, j)] <= old(traded[tkey(traded, j)])
                                           and implies(not eligible(self, tkey(traded, j)), traded[tkey(traded, j)] == old(traded[tkey(traded, j)])), 0, _i0))
    invariant(0, "accounting", sum_(lambda j: old(traded[tkey(traded, j)]) - traded[tkey(traded, j)], 0, _i0)
              <= 2 * (old(self._piq) - self._piq) + 2 * (self.size_matched - old(self.size_matched))
              and sum_(lambda j: old(traded[tkey(traded, j)]) - traded[tkey(traded, j)], 0, _i0)
              >= 2 * (old(self._piq) - self._piq) + 2 * (self.size_matched - old(self.size_matched)) - 0.01 * _i0)
    invariant(0, "order_state", inv_so(self) and self._piq >= 0 and self._piq <= old(self._piq) and self.size_matched >= old(self.size_matched)
              and implies(self.size_matched > old(self.size_matched), self._piq == 0))
    invariant(0, "fragments", len(self.matched) >= old(len(self.matched))
              and forall(lambda j: self.matched[j] == old(self.matched[j]), 0, old(len(self.matched)))
              and forall(lambda j: self.matched[j][1] == self.order.order_type.price, old(len(self.matched)), len(self.matched)))
    ensures("same_keys", len(keys_of(traded)) == old(len(keys_of(traded)))
            and forall(lambda j: tkey(traded, j) == old(tkey(traded, j)), 0, len(keys_of(traded))))
    ensures("only_eligible_prices_consumed", forall(lambda j: traded[tkey(traded, j)] >= 0 and traded[tkey(traded, j)] <= old(traded[tkey(traded, j)])
                                                    and implies(not eligible(self, tkey(traded, j)), traded[tkey(traded, j)] == old(traded[tkey(traded, j)])),
                                                    0, len(keys_of(traded))))
    ensures("consumed_volume_is_queue_plus_twice_the_fill",
            sum_(lambda j: old(traded[tkey(traded, j)]) - traded[tkey(traded, j)], 0, len(keys_of(traded)))
            <= 2 * (old(self._piq) - self._piq) + 2 * (self.size_matched - old(self.size_matched))
            and sum_(lambda j: old(traded[tkey(traded, j)]) - traded[tkey(traded, j)], 0, len(keys_of(traded)))
            >= 2 * (old(self._piq) - self._piq) + 2 * (self.size_matched - old(self.size_matched)) - 0.01 * len(keys_of(traded)))
    ensures("fill_only_after_the_queue", implies(self.size_matched > old(self.size_matched), self._piq == 0) and self._piq >= 0 and self._piq <= old(self._piq))
    ensures("matched_monotone_and_bounded", self.size_matched >= old(self.size_matched) and self.size_matched - old(self.size_matched) <= old(R(self)))
    ensures("new_fragments_at_own_price", len(self.matched) >= old(len(self.matched))
            and forall(lambda j: self.matched[j] == old(self.matched[j]), 0, old(len(self.matched)))
            and forall(lambda j: self.matched[j][1] == self.order.order_type.price, old(len(self.matched)), len(self.matched)))
    ensures("inv", inv_so(self))


# ----------------------------------------------------------------------------- _get_runner
def book_ok(l):
    """D2 (the part used here): prices >= 1.01 and sizes > 0 (on the penny grid by the MONEY sort of PriceSize.size)"""
    return forall(lambda j: l[j]["price"] >= 1.01 and l[j]["size"] > 0, 0, len(l))


def is_order_runner(so, r):
    return r.selection_id == so.order.selection_id and r.handicap == so.order.handicap


def head_ok(l):
    """book_ok instantiated at the best level (quantifier free: usable for path pruning)"""
    return implies(len(l) > 0, l[0]["price"] >= 1.01 and l[0]["size"] > 0)


def books_ok(mb):
    """D2 for every runner of a market book (the part used by the simulator: prices >= 1.01, sizes > 0)"""
    return forall(lambda j: book_ok(mb.runners[j].ex.available_to_back) and book_ok(mb.runners[j].ex.available_to_lay), 0, len(mb.runners))


@contract("flumine/simulation/simulatedorder.py::SimulatedOrder._get_runner", tags=["C04", "C05", "C06"])
def _(self, market_book: Ref("MarketBook")) -> Opt(Ref("RunnerBook")):
    # the looked-up runner inherits the validity of the book it comes from (stated at the best level, quantifier free)
    ensures("best_back_level_valid_when_the_book_is", implies(books_ok(market_book) and result is not None, head_ok(result.ex.available_to_back)))
    ensures("best_lay_level_valid_when_the_book_is", implies(books_ok(market_book) and result is not None, head_ok(result.ex.available_to_lay)))
    ensures("levels_valid_when_the_book_is", implies(books_ok(market_book) and result is not None,
                                                    book_ok(result.ex.available_to_back) and book_ok(result.ex.available_to_lay)))
    ensures("none_iff_runner_absent", iff(result is None, not exists(lambda j: is_order_runner(self, market_book.runners[j]), 0, len(market_book.runners))))
    ensures("found_when_present", implies(exists(lambda j: is_order_runner(self, market_book.runners[j]), 0, len(market_book.runners)), result is not None))
    ensures("a_runner_of_the_book_with_the_orders_key", implies(result is not None, is_order_runner(self, result)
                                                                and exists(lambda j: market_book.runners[j] == result, 0, len(market_book.runners))))


# ----------------------------------------------------------------------------- order status setter used by the simulator (owned by C03)
inline("flumine/utils.py::get_sp")


def may_complete(st):
    """Legal(s, EXECUTION_COMPLETE) of DESIGN section 4"""
    return (st == OrderStatus.PENDING or st == OrderStatus.EXECUTABLE or st == OrderStatus.CANCELLING or st == OrderStatus.UPDATING
            or st == OrderStatus.REPLACING or st == OrderStatus.EXECUTION_COMPLETE)


@contract("flumine/order/order.py::BaseOrder.execution_complete", tags=["C03-assumed"])
def _(self):
    trusted("owned by the C03 contributor (lifecycle): assumed here - sets EXECUTION_COMPLETE / complete, clears the request data, may complete the "
            "trade; the runner-context bookkeeping of Trade.complete_trade (C10) is not part of this assumed frame")
    requires("legal_transition", may_complete(self.status))
    modifies(self, "status")
    modifies(self, "complete")
    modifies(self, "date_time_status_update")
    modifies(self, "date_time_execution_complete")
    modifies_list(self.status_log)
    modifies(self.update_data, "size_reduction")
    modifies(self.update_data, "new_price")
    modifies_all("Trade.status")
    modifies_all("Trade.date_time_complete")
    ensures("complete", self.status == OrderStatus.EXECUTION_COMPLETE and self.complete)


# ----------------------------------------------------------------------------- _process_sp
def known_order_type(so):
    return (so.order.order_type.ORDER_TYPE == OrderTypes.LIMIT or so.order.order_type.ORDER_TYPE == OrderTypes.LIMIT_ON_CLOSE
            or so.order.order_type.ORDER_TYPE == OrderTypes.MARKET_ON_CLOSE)


def on_close_ok(so):
    """D1 for on-close orders: a positive liability, on the penny grid where it becomes a matched size (BACK)"""
    return implies(not is_limit_so(so), so.order.order_type.liability is not None and so.order.order_type.liability > 0
                   and implies(so.order.side == "BACK", on_grid(so.order.order_type.liability))
                   and implies(so.order.order_type.ORDER_TYPE == OrderTypes.LIMIT_ON_CLOSE, so.order.order_type.price is not None))


def sp_of(runner):
    return None if runner.sp is None else runner.sp.actual_sp


@contract("flumine/simulation/simulatedorder.py::SimulatedOrder._process_sp", tags=["C04"])
def _(self, publish_time: REAL, runner: Ref("RunnerBook")):
    requires("known_order_type", known_order_type(self))
    requires("sides", self.order.side == "BACK" or self.order.side == "LAY")
    requires("inv", inv_so(self))
    requires("on_close_terms", on_close_ok(self))
    requires("has_client", self.order.client is not None)
    requires("sp_is_a_price", runner.sp is None or runner.sp.actual_sp is None or runner.sp.actual_sp > 1)
    requires("not_yet_reconciled", not self._bsp_reconciled)
    requires("order_may_complete", may_complete(self.order.status))
    requires("order_takes_sp", implies(is_limit_so(self), self.order.order_type.persistence_type == "MARKET_ON_CLOSE"))  # the caller tests take_sp
    modifies(self, "size_matched")
    modifies(self, "average_price_matched")
    modifies(self, "size_cancelled")
    modifies(self, "size_lapsed")
    modifies(self, "_bsp_reconciled")
    modifies_list(self.matched)
    modifies(self.order, "status")
    modifies(self.order, "complete")
    modifies(self.order, "date_time_status_update")
    modifies(self.order, "date_time_execution_complete")
    modifies_list(self.order.status_log)
    modifies(self.order.update_data, "size_reduction")
    modifies(self.order.update_data, "new_price")
    modifies_all("Trade.status")
    modifies_all("Trade.date_time_complete")
    ensures("no_sp_no_change", implies(sp_of(runner) is None or sp_of(runner) == 0,
                                       self.size_matched == old(self.size_matched) and self.size_cancelled == old(self.size_cancelled)
                                       and self.size_lapsed == old(self.size_lapsed) and not self._bsp_reconciled
                                       and len(self.matched) == old(len(self.matched))))
    ensures("reconciled_and_complete", implies(not (sp_of(runner) is None or sp_of(runner) == 0),
                                               self._bsp_reconciled and self.order.complete and self.order.status == OrderStatus.EXECUTION_COMPLETE))
    # C04: a limit order carried to the starting price keeps its total; nothing remains afterwards
    ensures("limit_total_conserved", implies(is_limit_so(self) and not (sp_of(runner) is None or sp_of(runner) == 0),
                                             R(self) == 0 and self.size_matched >= old(self.size_matched)
                                             and self.size_matched + self.size_cancelled + self.size_lapsed
                                             == old(self.size_matched) + old(self.size_cancelled) + old(self.size_lapsed) + old(R(self))))
    ensures("back_limit_takes_the_remainder", implies(is_limit_so(self) and self.order.side == "BACK" and not (sp_of(runner) is None or sp_of(runner) == 0),
                                                      self.size_matched == old(self.size_matched) + old(R(self)) and self.size_cancelled == old(self.size_cancelled)
                                                      and self.size_lapsed == old(self.size_lapsed)))
    ensures("matched_never_decreases", self.size_matched >= old(self.size_matched))
    ensures("inv", inv_so(self))


# ----------------------------------------------------------------------------- matching against available prices (config.simulation_available_prices)
@contract("flumine/simulation/simulatedorder.py::SimulatedOrder._calculate_process_available", tags=["C04", "C05"])
def _(self, publish_time: REAL, price: REAL, size: MONEY):
    requires("limit_order", is_limit_so(self))
    requires("inv", inv_so(self))
    requires("price_positive", price > 0)
    requires("size_nonneg", size >= 0)
    modifies(self, "size_matched")
    modifies(self, "average_price_matched")
    modifies(self, "_piq")
    modifies_list(self.matched)
    ensures("fill_is_clamped_to_remaining", self.size_matched - old(self.size_matched) == min(old(R(self)), size))
    ensures("fragment_iff_fill", len(self.matched) == old(len(self.matched)) + (1 if self.size_matched != old(self.size_matched) else 0)
            and forall(lambda j: self.matched[j] == old(self.matched[j]), 0, old(len(self.matched)))
            and implies(self.size_matched != old(self.size_matched), self.matched[old(len(self.matched))][1] == price))
    ensures("queue_reset", self._piq == 0)
    ensures("inv", inv_so(self))




@contract("flumine/simulation/simulatedorder.py::SimulatedOrder._process_available", tags=["C04", "C05"])
def _(self, publish_time: REAL, runner: Ref("RunnerBook")):
    requires("limit_order", is_limit_so(self))
    requires("inv", inv_so(self))
    requires("book", book_ok(runner.ex.available_to_back) and book_ok(runner.ex.available_to_lay))
    modifies(self, "size_matched")
    modifies(self, "average_price_matched")
    modifies(self, "_piq")
    modifies_list(self.matched)
    invariant(0, "order_state", inv_so(self) and self.size_matched >= old(self.size_matched) and self._piq >= 0 and self._piq <= old(self._piq)
              and len(self.matched) >= old(len(self.matched)) and forall(lambda j: self.matched[j] == old(self.matched[j]), 0, old(len(self.matched))))
    invariant(1, "order_state", inv_so(self) and self.size_matched >= old(self.size_matched) and self._piq >= 0 and self._piq <= old(self._piq)
              and len(self.matched) >= old(len(self.matched)) and forall(lambda j: self.matched[j] == old(self.matched[j]), 0, old(len(self.matched))))
    requires("queue_nonneg", self._piq >= 0)
    ensures("matched_monotone_and_bounded", self.size_matched >= old(self.size_matched) and self.size_matched - old(self.size_matched) <= old(R(self)))
    ensures("old_fragments_kept", len(self.matched) >= old(len(self.matched)) and forall(lambda j: self.matched[j] == old(self.matched[j]), 0, old(len(self.matched))))
    ensures("queue", self._piq >= 0 and self._piq <= old(self._piq))
    ensures("inv", inv_so(self))


# ----------------------------------------------------------------------------- __call__ : one market update applied to a live order
def takes_sp(so):
    return not is_limit_so(so) or so.order.order_type.persistence_type == "MARKET_ON_CLOSE"


def sp_step(so, mb):
    """this update reconciles the starting price for an order that is carried to it"""
    return (not so._bsp_reconciled) and mb.bsp_reconciled and takes_sp(so)


def lapse_step(so, mb):
    """C04: lapse on suspension = a LAPSE-persistence limit order seeing a SUSPENDED book with a new market version"""
    return (is_limit_so(so) and mb.version != so.market_version and mb.status == "SUSPENDED"
            and so.order.order_type.persistence_type == "LAPSE")


def sps_ok(mb):
    return forall(lambda j: mb.runners[j].sp is None or mb.runners[j].sp.actual_sp is None or mb.runners[j].sp.actual_sp > 1, 0, len(mb.runners))


def consumed(traded, j):
    return old(traded[tkey(traded, j)]) - traded[tkey(traded, j)]


@contract("flumine/simulation/simulatedorder.py::SimulatedOrder.__call__", tags=["C04", "C06"])
def _(self, market_book: Ref("MarketBook"), runner_traded: Tup(Ref("RunnerBook"), MapOf(REAL, REAL))):
    requires("known_order_type", known_order_type(self))
    requires("sides", self.order.side == "BACK" or self.order.side == "LAY")
    requires("inv", inv_so(self))
    requires("on_close_terms", on_close_ok(self))
    requires("has_client", self.order.client is not None)
    requires("order_is_live", may_complete(self.order.status))
    requires("queue_nonneg", self._piq >= 0)
    requires("traded_nonneg", forall(lambda j: runner_traded[1][tkey(runner_traded[1], j)] >= 0, 0, len(keys_of(runner_traded[1]))))
    requires("book", book_ok(runner_traded[0].ex.available_to_back) and book_ok(runner_traded[0].ex.available_to_lay))
    requires("runner_in_book", exists(lambda j: is_order_runner(self, market_book.runners[j]), 0, len(market_book.runners)))
    requires("starting_prices_are_prices", sps_ok(market_book))
    modifies(self, "size_matched")
    modifies(self, "average_price_matched")
    modifies(self, "size_cancelled")
    modifies(self, "size_lapsed")
    modifies(self, "_bsp_reconciled")
    modifies(self, "market_version")
    modifies(self, "_piq")
    modifies_list(self.matched)
    modifies_map(runner_traded[1])
    modifies(self.order, "status")
    modifies(self.order, "complete")
    modifies(self.order, "date_time_status_update")
    modifies(self.order, "date_time_execution_complete")
    modifies_list(self.order.status_log)
    modifies(self.order.update_data, "size_reduction")
    modifies(self.order.update_data, "new_price")
    modifies_all("Trade.status")
    modifies_all("Trade.date_time_complete")
    # ---- C04
    ensures("inv", inv_so(self))
    ensures("matched_never_decreases", self.size_matched >= old(self.size_matched))
    ensures("never_voids", self.size_voided == old(self.size_voided))
    ensures("lapse_on_suspension_moves_the_remainder", implies(old(lapse_step(self, market_book)) and not old(sp_step(self, market_book)),
                                                               self.size_lapsed == old(self.size_lapsed) + old(R(self)) and R(self) == 0
                                                               and self.size_matched == old(self.size_matched) and self.size_cancelled == old(self.size_cancelled)
                                                               and len(self.matched) == old(len(self.matched))))
    ensures("lapses_only_then", implies(not old(lapse_step(self, market_book)) and not old(sp_step(self, market_book)),
                                        self.size_lapsed == old(self.size_lapsed)))
    ensures("cancelled_only_at_sp", implies(not old(sp_step(self, market_book)), self.size_cancelled == old(self.size_cancelled)
                                            and self.order.status == old(self.order.status) and self.order.complete == old(self.order.complete)))
    ensures("sp_total_conserved", implies(is_limit_so(self) and old(sp_step(self, market_book)),
                                          self.size_matched + self.size_cancelled + self.size_lapsed + R(self)
                                          == old(self.size_matched) + old(self.size_cancelled) + old(self.size_lapsed) + old(R(self))))
    ensures("fill_bounded_by_remainder", implies(is_limit_so(self), self.size_matched - old(self.size_matched) <= old(R(self))
                                                 or old(sp_step(self, market_book))))
    # ---- C06 (the documented double-counting mode excluded)
    ensures("same_keys", len(keys_of(runner_traded[1])) == old(len(keys_of(runner_traded[1])))
            and forall(lambda j: tkey(runner_traded[1], j) == old(tkey(runner_traded[1], j)), 0, len(keys_of(runner_traded[1]))))
    ensures("traded_only_consumed", forall(lambda j: runner_traded[1][tkey(runner_traded[1], j)] >= 0
                                           and runner_traded[1][tkey(runner_traded[1], j)] <= old(runner_traded[1][tkey(runner_traded[1], j)]),
                                           0, len(keys_of(runner_traded[1]))))
    ensures("only_limit_prices_at_or_through_the_limit", forall(lambda j: implies(not is_limit_so(self) or not eligible(self, tkey(runner_traded[1], j)),
                                                                                  runner_traded[1][tkey(runner_traded[1], j)] == old(runner_traded[1][tkey(runner_traded[1], j)])),
                                                                0, len(keys_of(runner_traded[1]))))
    ensures("fill_is_at_most_half_the_consumed_volume", implies(not config.simulation_available_prices and not old(sp_step(self, market_book)),
            2 * (self.size_matched - old(self.size_matched)) + 2 * (old(self._piq) - self._piq)
            <= sum_(lambda j: old(runner_traded[1][tkey(runner_traded[1], j)]) - runner_traded[1][tkey(runner_traded[1], j)], 0, len(keys_of(runner_traded[1])))
            + 0.01 * len(keys_of(runner_traded[1]))
            and 2 * (self.size_matched - old(self.size_matched)) + 2 * (old(self._piq) - self._piq)
            >= sum_(lambda j: old(runner_traded[1][tkey(runner_traded[1], j)]) - runner_traded[1][tkey(runner_traded[1], j)], 0, len(keys_of(runner_traded[1])))))
    ensures("queue", self._piq >= 0 and self._piq <= old(self._piq))
    ensures("fill_only_after_the_queue", implies(not config.simulation_available_prices and not old(sp_step(self, market_book))
                                                 and self.size_matched > old(self.size_matched), self._piq == 0))


# ----------------------------------------------------------------------------- size_remaining (the derived fifth bucket)
@contract("flumine/simulation/simulatedorder.py::SimulatedOrder.size_remaining", tags=["C04", "C05", "C06", "C08", "C09"])
def _(self) -> REAL:
    requires("limit_orders_have_a_size", implies(is_limit_so(self), S(self) is not None and S(self) > 0))
    ensures("defined_as_the_rest", result == (R(self) if is_limit_so(self) else 0))
