"""C05 - fills never breach the order's limit; fill-or-kill is all-or-nothing (SimulatedOrder.place and the two book walks).

Vocabulary of c04_simorder.py (loaded before this file): inv_so, matched_ok, book_ok, eligible, R, S, is_limit_so ...
"""


def within_limit(so, p, price):
    """C05: a BACK order is filled at or above, a LAY order at or below, the requested price"""
    return (so.order.side == "BACK" and p >= price) or (so.order.side == "LAY" and p <= price)


def new_frag(so, n0, k):
    """k-th fragment appended since the list had n0 elements"""
    return so.matched[n0 + k]


@contract("flumine/simulation/simulatedorder.py::SimulatedOrder._process_price_matched", tags=["C05", "C04"])
def _(self, publish_time: REAL, price: REAL, size: MONEY, available: ListOf(Ref("PriceSize"))):
    requires("sides", self.order.side == "BACK" or self.order.side == "LAY")
    requires("matched_ok", matched_ok(self))
    requires("book", book_ok(available))
    requires("size_nonneg", size >= 0)
    local(size_remaining=MONEY)
    modifies(self, "size_matched")
    modifies(self, "average_price_matched")
    modifies_list(self.matched)
    invariant(0, "walk", size_remaining >= 0 and size_remaining <= size
              and len(self.matched) == old(len(self.matched)) + _i0
              and self.size_matched == old(self.size_matched) + (size - size_remaining)
              and implies(_i0 == 0, size_remaining == size)
              and implies(_i0 >= 1, size - size_remaining >= min(size, available[0]["size"]))
              and matched_ok(self))
    invariant(0, "old_fragments_kept", forall(lambda j: self.matched[j] == old(self.matched[j]), 0, old(len(self.matched))))
    invariant(0, "one_fragment_per_level_in_book_order",
              forall(lambda k: new_frag(self, old(len(self.matched)), k)[1] == available[k]["price"]
                     and new_frag(self, old(len(self.matched)), k)[2] > 0
                     and new_frag(self, old(len(self.matched)), k)[2] <= available[k]["size"]
                     and within_limit(self, available[k]["price"], price), 0, _i0))
    # C05: every fragment is one book level, in book order, at that level's price, at most that level's size, within the limit
    ensures("levels_taken", len(self.matched) >= old(len(self.matched)) and len(self.matched) - old(len(self.matched)) <= len(available))
    ensures("one_fragment_per_level_in_book_order",
            forall(lambda k: new_frag(self, old(len(self.matched)), k)[1] == available[k]["price"]
                   and new_frag(self, old(len(self.matched)), k)[2] > 0
                   and new_frag(self, old(len(self.matched)), k)[2] <= available[k]["size"]
                   and within_limit(self, available[k]["price"], price), 0, len(self.matched) - old(len(self.matched))))
    ensures("old_fragments_kept", forall(lambda j: self.matched[j] == old(self.matched[j]), 0, old(len(self.matched))))
    ensures("never_more_than_asked", self.size_matched >= old(self.size_matched) and self.size_matched - old(self.size_matched) <= size)
    ensures("takes_the_best_level_when_within_limit", implies(len(available) > 0 and within_limit(self, available[0]["price"], price),
                                                              self.size_matched - old(self.size_matched) >= min(size, available[0]["size"])))
    ensures("nothing_when_best_level_outside_limit", implies(len(available) == 0 or not within_limit(self, available[0]["price"], price),
                                                             self.size_matched == old(self.size_matched) and len(self.matched) == old(len(self.matched))))
    ensures("matched_ok", matched_ok(self))


def vwap(so):
    """the exact volume-weighted average price of the fragments"""
    return sum_ps(so.matched) / sum_sizes(so.matched)


def vwap_within_limit(so, price):
    """I-5: the acceptance test is made on the reported (2dp) average, so the exact average is within half a tick unit of the limit"""
    return ((so.order.side == "BACK" and so.average_price_matched >= price and vwap(so) >= price - 0.005)
            or (so.order.side == "LAY" and so.average_price_matched <= price and vwap(so) <= price + 0.005))


@contract("flumine/simulation/simulatedorder.py::SimulatedOrder._process_price_matched_vwap", tags=["C05", "C04", "C08"])
def _(self, publish_time: REAL, price: REAL, size: MONEY, available: ListOf(Ref("PriceSize")), min_fill_size: REAL):
    requires("limit_order", is_limit_so(self))
    requires("sides", self.order.side == "BACK" or self.order.side == "LAY")
    requires("inv", inv_so(self))
    requires("placed_once", len(self.matched) == 0 and self.size_matched == 0)  # D3
    requires("book", book_ok(available))
    requires("size_nonneg", size >= 0)
    local(size_remaining=MONEY, _all_matched=ListOf(Ref("Fragment")))
    modifies(self, "size_matched")
    modifies(self, "average_price_matched")
    modifies(self, "size_cancelled")
    modifies(self, "matched")
    modifies_list(self.matched)
    invariant(0, "walk", size_remaining >= 0 and size_remaining <= size
              and len(self.matched) == _i0
              and self.size_matched == size - size_remaining
              and implies(_i0 == 0, size_remaining == size)
              and implies(_i0 >= 1, self.size_matched > 0)
              and self.matched is old(self.matched)
              and matched_ok(self))
    invariant(0, "one_fragment_per_level_in_book_order",
              forall(lambda k: self.matched[k][1] == available[k]["price"] and self.matched[k][2] > 0 and self.matched[k][2] <= available[k]["size"], 0, _i0))
    invariant(0, "average_within_limit", implies(self.size_matched > 0, self.average_price_matched == round(vwap(self), 2) and vwap_within_limit(self, price)))
    # C05, fill-or-kill priced through the book: all-or-nothing on the minimum fill, the average respects the limit
    ensures("all_or_nothing", self.size_matched == 0 or self.size_matched >= min_fill_size)
    ensures("killed_means_cancelled_at_once", implies(self.size_matched == 0, len(self.matched) == 0))
    ensures("kill_cancels_the_whole_order", implies(old(self.size_matched) == 0 and self.size_cancelled != old(self.size_cancelled),
                                                    self.size_matched == 0 and R(self) == 0 and self.size_cancelled == old(self.size_cancelled) + old(R(self))))
    ensures("cancel_only_on_kill", self.size_cancelled == old(self.size_cancelled) or self.size_matched == 0)
    ensures("one_fragment_per_level_in_book_order", len(self.matched) <= len(available)
            and forall(lambda k: self.matched[k][1] == available[k]["price"] and self.matched[k][2] > 0 and self.matched[k][2] <= available[k]["size"],
                       0, len(self.matched)))
    ensures("average_within_limit", implies(self.size_matched > 0, vwap_within_limit(self, price)))
    ensures("never_more_than_asked", self.size_matched >= 0 and self.size_matched <= size)
    ensures("matched_list_kept_or_new", self.matched is old(self.matched) or fresh(self.matched))
    ensures("inv", matched_ok(self))


# ----------------------------------------------------------------------------- place
schema("BaseOrderPackage", client=Ref("BaseClient"), _market_version=Opt(INT))
inline("flumine/order/orderpackage.py::BaseOrderPackage.market_version")
struct("PlaceInstruction", limitOrder=Opt(Ref("LimitOrderInstruction")), absent_keyerror=True)  # the placeOrder instruction dict ("limitOrder" may be absent)
struct("LimitOrderInstruction", timeInForce=Opt(ATOM), minFillSize=Opt(REAL), absent_keyerror=False)


def is_fok(instr):
    return "limitOrder" in instr and instr["limitOrder"].get("timeInForce") == "FILL_OR_KILL"


def min_fill(instr, size):
    """the minimum fill of a fill-or-kill order: the instruction's minFillSize, the whole size when absent (or zero)"""
    return size if (instr["limitOrder"].get("minFillSize") is None or instr["limitOrder"].get("minFillSize") == 0) else instr["limitOrder"].get("minFillSize")


def best_price(levels, default):
    return levels[0]["price"] if len(levels) > 0 else default


def own_side_best(so, r):
    """best price the order would match against: best available-to-back for a BACK order (default 1.01), best available-to-lay for a LAY (1000)"""
    return best_price(r.ex.available_to_back, 1.01) if so.order.side == "BACK" else best_price(r.ex.available_to_lay, 1000)


def own_side_levels(so, r):
    return r.ex.available_to_back if so.order.side == "BACK" else r.ex.available_to_lay


def queue_side_levels(so, r):
    """a resting BACK order queues among the lay offers at its price, a resting LAY among the back offers"""
    return r.ex.available_to_lay if so.order.side == "BACK" else r.ex.available_to_back


def priced_through(so, r):
    """the order would be price-improved: the best price is strictly better than the limit"""
    return (so.order.side == "BACK" and own_side_best(so, r) > so.order.order_type.price) or (so.order.side == "LAY" and own_side_best(so, r) < so.order.order_type.price)


def crosses(so, r):
    return (so.order.side == "BACK" and own_side_best(so, r) >= so.order.order_type.price) or (so.order.side == "LAY" and own_side_best(so, r) <= so.order.order_type.price)


def version_mismatch(pkg, mb):
    return pkg._market_version is not None and pkg._market_version != 0 and pkg._market_version != mb.version


def fresh_so(so):
    """D3: a simulated order is placed once, with empty buckets"""
    return (so.size_matched == 0 and so.size_cancelled == 0 and so.size_lapsed == 0 and so.size_voided == 0 and len(so.matched) == 0
            and so._piq == 0 and so.average_price_matched == 0)


def runner_keys_distinct(mb):
    return forall_int(lambda a, b: implies(0 <= a and a < b and b < len(mb.runners),
                                           not (mb.runners[a].selection_id == mb.runners[b].selection_id and mb.runners[a].handicap == mb.runners[b].handicap)))


def prices_distinct(l):
    return forall_int(lambda a, b: implies(0 <= a and a < b and b < len(l), l[a]["price"] != l[b]["price"]))


def reaches_matching(so, pkg, mb, r):
    """none of the placement validations fails (market open, version, runner active)"""
    return mb.status == "OPEN" and not version_mismatch(pkg, mb) and r.status != "REMOVED"


@contract("flumine/simulation/simulatedorder.py::SimulatedOrder.place", tags=["C05", "C04"])  # (the _piq clause 'rests_behind_the_queue' is C06's; not tagged C06 to keep that check short)
def _(self, order_package: Ref("BaseOrderPackage"), market_book: Ref("MarketBook"), instruction: Ref("PlaceInstruction"), bet_id: INT) -> Ref("SimulatedPlaceResponse"):
    requires("known_order_type", known_order_type(self))
    requires("sides", self.order.side == "BACK" or self.order.side == "LAY")
    requires("placed_once", fresh_so(self))  # D3
    requires("inv", inv_so(self))
    requires("has_client", self.order.client is not None)
    requires("bet_ids_are_positive", bet_id > 0)
    requires("runner_in_book", exists(lambda j: is_order_runner(self, market_book.runners[j]), 0, len(market_book.runners)))
    requires("runner_keys_distinct", runner_keys_distinct(market_book))
    requires("books", books_ok(market_book))  # D2
    requires("book_prices_distinct", forall(lambda j: prices_distinct(market_book.runners[j].ex.available_to_back) and prices_distinct(market_book.runners[j].ex.available_to_lay),
                                            0, len(market_book.runners)))  # D2
    requires("limit_instruction", implies(is_limit_so(self), "limitOrder" in instruction))  # BetfairOrder.create_place_instruction builds it for LIMIT orders
    requires("min_fill_positive", implies(is_fok(instruction) and instruction["limitOrder"].get("minFillSize") is not None, instruction["limitOrder"].get("minFillSize") >= 0))
    modifies(self, "size_matched")
    modifies(self, "average_price_matched")
    modifies(self, "size_cancelled")
    modifies(self, "size_lapsed")
    modifies(self, "size_voided")
    modifies(self, "market_version")
    modifies(self, "_piq")
    modifies(self, "matched")
    modifies_list(self.matched)
    local(available=ListOf(Ref("PriceSize")))
    invariant(0, "no_level_at_the_price_so_far", forall(lambda j: available[j]["price"] != price, 0, _i0) and self._piq == old(self._piq)
              and self.size_matched == old(self.size_matched) and self.size_cancelled == old(self.size_cancelled) and self.size_lapsed == old(self.size_lapsed)
              and self.size_voided == old(self.size_voided) and self.matched is old(self.matched) and len(self.matched) == 0
              and self.average_price_matched == old(self.average_price_matched))
    # ---- C04: the order's buckets always add up, failed placements move the whole size to exactly one bucket
    ensures("inv", inv_so(self))
    ensures("closed_market_voids", implies(market_book.status != "OPEN", result.status == "FAILURE" and result.error_code == "ERROR_IN_ORDER"
                                           and self.size_matched == 0 and self.size_cancelled == 0 and self.size_lapsed == 0
                                           and implies(is_limit_so(self), self.size_voided == S(self))))
    ensures("stale_market_version_lapses", implies(market_book.status == "OPEN" and version_mismatch(order_package, market_book),
                                                   result.status == "FAILURE" and result.error_code == "BET_TAKEN_OR_LAPSED"
                                                   and self.size_matched == 0 and self.size_cancelled == 0 and self.size_voided == 0
                                                   and implies(is_limit_so(self), self.size_lapsed == S(self))))
    ensures("removed_runner_voids", forall(lambda j: implies(is_order_runner(self, market_book.runners[j]) and market_book.status == "OPEN"
                                                             and not version_mismatch(order_package, market_book) and market_book.runners[j].status == "REMOVED",
                                                             result.status == "FAILURE" and result.error_code == "RUNNER_REMOVED"
                                                             and self.size_matched == 0 and self.size_cancelled == 0 and self.size_lapsed == 0
                                                             and implies(is_limit_so(self), self.size_voided == S(self))), 0, len(market_book.runners)))
    ensures("invalid_min_fill_cancels", forall(lambda j: implies(is_order_runner(self, market_book.runners[j]) and reaches_matching(self, order_package, market_book, market_book.runners[j])
                                                                 and is_limit_so(self) and is_fok(instruction) and min_fill(instruction, S(self)) > S(self),
                                                                 result.status == "FAILURE" and result.error_code == "INVALID_MIN_FILL_SIZE"
                                                                 and self.size_matched == 0 and self.size_cancelled == S(self) and self.size_lapsed == 0 and self.size_voided == 0),
                                               0, len(market_book.runners)))
    ensures("failure_means_nothing_matched_nothing_remains", implies(result.status == "FAILURE" and is_limit_so(self), self.size_matched == 0 and len(self.matched) == 0 and R(self) == 0))
    ensures("success_or_failure", result.status == "SUCCESS" or result.status == "FAILURE")
    ensures("reported_complete_iff_nothing_remains", implies(is_limit_so(self), iff(result.order_status == "EXECUTION_COMPLETE", R(self) == 0)
                                                             and (result.order_status == "EXECUTION_COMPLETE" or result.order_status == "EXECUTABLE")))
    ensures("never_voids_or_lapses_on_success", implies(result.status == "SUCCESS", self.size_voided == 0 and self.size_lapsed == 0))
    # ---- C05: best-price execution off => an order priced through the best price lapses instead of filling
    ensures("bpe_off_priced_through_lapses", forall(lambda j: implies(is_order_runner(self, market_book.runners[j]) and reaches_matching(self, order_package, market_book, market_book.runners[j])
                                                                      and is_limit_so(self) and not (is_fok(instruction) and min_fill(instruction, S(self)) > S(self))
                                                                      and not order_package.client.best_price_execution and priced_through(self, market_book.runners[j]),
                                                                      result.status == "FAILURE" and result.error_code == "BET_LAPSED_PRICE_IMPROVEMENT_TOO_LARGE"
                                                                      and self.size_lapsed == S(self) and self.size_matched == 0 and len(self.matched) == 0
                                                                      and self.size_cancelled == 0 and self.size_voided == 0), 0, len(market_book.runners)))
    # ---- C05: fill-or-kill is all-or-nothing, the rest is cancelled at once (never rests)
    ensures("fill_or_kill_all_or_nothing", implies(is_limit_so(self) and is_fok(instruction) and result.status == "SUCCESS",
                                                   (self.size_matched == 0 or self.size_matched >= min_fill(instruction, S(self))) and R(self) == 0))
    # ---- C05: the limit is respected by every fragment (by the volume-weighted average for a fill-or-kill order priced through the book);
    #      the force-match option (simulated_full_match) is outside the level-availability clause and fills at the order's own price
    ensures("fragments_within_limit_one_per_level", forall(lambda j: implies(is_order_runner(self, market_book.runners[j]) and is_limit_so(self)
                                                                             and not self.order.client.simulated_full_match
                                                                             and not (is_fok(instruction) and priced_through(self, market_book.runners[j])),
                                                                             len(self.matched) <= len(own_side_levels(self, market_book.runners[j]))
                                                                             and forall(lambda k: self.matched[k][1] == own_side_levels(self, market_book.runners[j])[k]["price"]
                                                                                        and self.matched[k][2] > 0
                                                                                        and self.matched[k][2] <= own_side_levels(self, market_book.runners[j])[k]["size"]
                                                                                        and within_limit(self, self.matched[k][1], self.order.order_type.price), 0, len(self.matched))),
                                                           0, len(market_book.runners)))
    ensures("fill_or_kill_through_the_book_average_within_limit", forall(lambda j: implies(is_order_runner(self, market_book.runners[j]) and is_limit_so(self)
                                                                                          and not self.order.client.simulated_full_match
                                                                                          and is_fok(instruction) and priced_through(self, market_book.runners[j]) and self.size_matched > 0,
                                                                                          vwap_within_limit(self, self.order.order_type.price)
                                                                                          and len(self.matched) <= len(own_side_levels(self, market_book.runners[j]))
                                                                                          and forall(lambda k: self.matched[k][1] == own_side_levels(self, market_book.runners[j])[k]["price"]
                                                                                                     and self.matched[k][2] > 0
                                                                                                     and self.matched[k][2] <= own_side_levels(self, market_book.runners[j])[k]["size"], 0, len(self.matched))),
                                                                         0, len(market_book.runners)))
    ensures("never_more_than_the_size", implies(is_limit_so(self), self.size_matched <= S(self)))
    ensures("force_match_leaves_nothing", implies(is_limit_so(self) and self.order.client.simulated_full_match and result.status == "SUCCESS", R(self) == 0))
    ensures("every_fragment_within_limit_also_when_force_matched",
            forall(lambda j: implies(is_order_runner(self, market_book.runners[j]) and is_limit_so(self)
                                     and not (is_fok(instruction) and priced_through(self, market_book.runners[j])),
                                     forall(lambda k: within_limit(self, self.matched[k][1], self.order.order_type.price), 0, len(self.matched))),
                   0, len(market_book.runners)))
    # ---- C06: an order that does not cross rests; the volume queued ahead of it is the size shown at its price on the side it joins
    ensures("rests_behind_the_queue", forall(lambda j: implies(is_order_runner(self, market_book.runners[j]) and reaches_matching(self, order_package, market_book, market_book.runners[j])
                                                               and is_limit_so(self) and not is_fok(instruction) and not crosses(self, market_book.runners[j])
                                                               and not self.order.client.simulated_full_match,
                                                               result.status == "SUCCESS" and self.size_matched == 0 and len(self.matched) == 0 and R(self) == S(self)
                                                               and forall(lambda k: implies(queue_side_levels(self, market_book.runners[j])[k]["price"] == self.order.order_type.price,
                                                                                            self._piq == queue_side_levels(self, market_book.runners[j])[k]["size"]),
                                                                          0, len(queue_side_levels(self, market_book.runners[j])))
                                                               and implies(forall(lambda k: queue_side_levels(self, market_book.runners[j])[k]["price"] != self.order.order_type.price,
                                                                                  0, len(queue_side_levels(self, market_book.runners[j]))), self._piq == 0)),
                                             0, len(market_book.runners)))
    ensures("queue_nonneg", self._piq >= 0)
    raises(NotImplementedError, when=False, label="bet_target_size_not_simulated")
