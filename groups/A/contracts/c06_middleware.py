"""C06 - passive liquidity is never double counted; queue position is honoured (flumine/markets/middleware.py).

RunnerAnalytics.traded = volume newly traded per price in this update (difference of the cumulative ladders);
SimulatedMiddleware._sort_orders = the priority in which the resting orders of one sharing group are served.
The single-order contracts (_calculate_process_traded, _process_traded, __call__, place: _piq) are in c04_simorder.py / c05_fills.py.
"""

struct("PriceSize", price=REAL, size=MONEY, absent_keyerror=True)  # the ladder entries are python dicts {"price": p, "size": s}: == is key by key
schema("RunnerAnalytics", runner=Ref("RunnerBook"), traded=MapOf(REAL, REAL), _traded_volume=ListOf(Ref("PriceSize")), _p_v=MapOf(REAL, REAL))


def ladder_ok(tv):
    """D2 for a cumulative traded-volume ladder: distinct prices, sizes >= 0"""
    return prices_distinct(tv) and forall(lambda j: tv[j]["size"] >= 0, 0, len(tv))


def within_half_penny(r, x):
    """r is x at 2dp (I-0 / A2: |round(x, 2) - x| <= 0.005)"""
    return r - x <= 0.005 and x - r <= 0.005


def cached_is(pv, tv):
    """the cached volume dict holds exactly the ladder tv"""
    return (forall(lambda j: tv[j]["price"] in pv and pv[tv[j]["price"]] == tv[j]["size"], 0, len(tv))
            and forall(lambda j: exists(lambda m: tv[m]["price"] == keys_of(pv)[j], 0, len(tv)), 0, len(keys_of(pv))))


@contract("flumine/markets/middleware.py::RunnerAnalytics._calculate_traded", tags=["C06", "C05"], fresh_result=True)
def _(self, traded_volume: ListOf(Ref("PriceSize"))) -> MapOf(REAL, REAL):
    requires("ladder", ladder_ok(traded_volume))
    local(traded=MapOf(REAL, REAL), c_v=MapOf(REAL, REAL))
    modifies(self, "_p_v")
    invariant(0, "ladder_keys_distinct", forall_int(lambda a, b: implies(0 <= a and a < b and b < len(keys_of(c_v)), keys_of(c_v)[a] != keys_of(c_v)[b])))
    invariant(0, "known_price_increase_only", forall(lambda j: implies(keys_of(c_v)[j] in p_v, iff(keys_of(c_v)[j] in traded, c_v[keys_of(c_v)[j]] - p_v[keys_of(c_v)[j]] > 0)), 0, _i0))
    invariant(0, "known_price_difference", forall(lambda j: implies(keys_of(c_v)[j] in p_v and keys_of(c_v)[j] in traded,
                                                                   within_half_penny(traded[keys_of(c_v)[j]], c_v[keys_of(c_v)[j]] - p_v[keys_of(c_v)[j]])), 0, _i0))
    invariant(0, "new_price_in_full", forall(lambda j: implies(not (keys_of(c_v)[j] in p_v), keys_of(c_v)[j] in traded and traded[keys_of(c_v)[j]] == c_v[keys_of(c_v)[j]]), 0, _i0))
    invariant(0, "pending_prices_absent", forall(lambda j: not (keys_of(c_v)[j] in traded), _i0, len(keys_of(c_v))))
    invariant(0, "only_ladder_prices", forall(lambda j: keys_of(traded)[j] in c_v, 0, len(keys_of(traded))))
    invariant(0, "cache_untouched", self._p_v is old(self._p_v))
    # C06: T[p] = increase of the cumulative traded size at p since the previous update; new prices count in full;
    #      decreases and unchanged sizes count zero (the price is absent)
    ensures("increase_per_price", forall(lambda j: (implies(traded_volume[j]["price"] in old(self._p_v),
                                                             iff(traded_volume[j]["price"] in result, traded_volume[j]["size"] - old(self._p_v[traded_volume[j]["price"]]) > 0)
                                                             and implies(traded_volume[j]["price"] in result,
                                                                         within_half_penny(result[traded_volume[j]["price"]], traded_volume[j]["size"] - old(self._p_v[traded_volume[j]["price"]]))))
                                                     and implies(not (traded_volume[j]["price"] in old(self._p_v)),
                                                                 traded_volume[j]["price"] in result and result[traded_volume[j]["price"]] == traded_volume[j]["size"])),
                                         0, len(traded_volume)))
    ensures("only_ladder_prices", forall(lambda j: exists(lambda m: traded_volume[m]["price"] == keys_of(result)[j], 0, len(traded_volume)), 0, len(keys_of(result))))
    ensures("cache_is_the_new_ladder", cached_is(self._p_v, traded_volume))


@contract("flumine/markets/middleware.py::RunnerAnalytics.__init__", tags=["C06", "C05"])
def _(self, runner: Ref("RunnerBook")):
    requires("ladder", ladder_ok(runner.ex.traded_volume))
    modifies(self, "runner")
    modifies(self, "traded")
    modifies(self, "_traded_volume")
    modifies(self, "_p_v")
    # C06: the ladder present when the analytics object is created counts zero ("traded after it arrived")
    ensures("nothing_traded_yet", len(keys_of(self.traded)) == 0)
    ensures("cache_is_the_first_ladder", cached_is(self._p_v, runner.ex.traded_volume) and self._traded_volume is runner.ex.traded_volume and self.runner == runner)


def same_ladder(a, b):
    return len(a) == len(b) and forall(lambda j: a[j]["price"] == b[j]["price"] and a[j]["size"] == b[j]["size"], 0, len(a))


@contract("flumine/markets/middleware.py::RunnerAnalytics.__call__", tags=["C06", "C05"])
def _(self, runner: Ref("RunnerBook")):
    requires("ladder", ladder_ok(runner.ex.traded_volume))
    modifies(self, "runner")
    modifies(self, "traded")
    modifies(self, "_traded_volume")
    modifies(self, "_p_v")
    # C06: repeated / unchanged ladders count zero ...
    ensures("unchanged_ladder_counts_zero", implies(old(same_ladder(self._traded_volume, runner.ex.traded_volume)), len(keys_of(self.traded)) == 0
                                                    and self._p_v is old(self._p_v)))
    # ... otherwise the per-price increase since the cached ladder
    ensures("increase_per_price", implies(not old(same_ladder(self._traded_volume, runner.ex.traded_volume)),
            forall(lambda j: (implies(runner.ex.traded_volume[j]["price"] in old(self._p_v),
                                      iff(runner.ex.traded_volume[j]["price"] in self.traded, runner.ex.traded_volume[j]["size"] - old(self._p_v[runner.ex.traded_volume[j]["price"]]) > 0)
                                      and implies(runner.ex.traded_volume[j]["price"] in self.traded,
                                                  within_half_penny(self.traded[runner.ex.traded_volume[j]["price"]],
                                                                    runner.ex.traded_volume[j]["size"] - old(self._p_v[runner.ex.traded_volume[j]["price"]]))))
                              and implies(not (runner.ex.traded_volume[j]["price"] in old(self._p_v)),
                                          runner.ex.traded_volume[j]["price"] in self.traded
                                          and self.traded[runner.ex.traded_volume[j]["price"]] == runner.ex.traded_volume[j]["size"])),
                   0, len(runner.ex.traded_volume))
            and forall(lambda j: exists(lambda m: runner.ex.traded_volume[m]["price"] == keys_of(self.traded)[j], 0, len(runner.ex.traded_volume)), 0, len(keys_of(self.traded)))
            and cached_is(self._p_v, runner.ex.traded_volume)))
    ensures("runner_updated", self.runner == runner)


# ----------------------------------------------------------------------------- priority of the resting orders
def is_moc(o):
    return o.order_type.ORDER_TYPE == OrderTypes.MARKET_ON_CLOSE


def rank(o):
    """LAY orders first, then BACK orders, then market-on-close orders"""
    return 2 if is_moc(o) else (0 if o.side == "LAY" else 1)


def served_before(a, b):
    """C06: 'orders offering the better price to the other side are served first': among LAY orders the higher price,
    among BACK orders the lower price"""
    return (rank(a) < rank(b)
            or (rank(a) == 0 and rank(b) == 0 and a.order_type.price >= b.order_type.price)
            or (rank(a) == 1 and rank(b) == 1 and a.order_type.price <= b.order_type.price)
            or (rank(a) == 2 and rank(b) == 2))


def orders_distinct(l):
    return forall_int(lambda a, b: implies(0 <= a and a < b and b < len(l), l[a] != l[b]))


@contract("flumine/markets/middleware.py::SimulatedMiddleware._sort_orders", tags=["C06"], fresh_result=True)
def _(orders: ListOf(Ref("BaseOrder"))) -> ListOf(Ref("BaseOrder")):
    requires("sides", forall(lambda j: orders[j].side == "BACK" or orders[j].side == "LAY", 0, len(orders)))
    requires("priced", forall(lambda j: implies(not is_moc(orders[j]), orders[j].order_type.price is not None), 0, len(orders)))
    requires("distinct", orders_distinct(orders))
    ensures("priority_order", forall_int(lambda a, b: implies(0 <= a and a < b and b < len(result), served_before(result[a], result[b]))))
    # NOT DISCHARGED (left out of the claim, see NOTES_A.md): the three clauses that make the result a permutation of the input
    # stay 'unknown' in z3 / cvc5 (chains filter -> sorted -> concatenation need nested quantifier instantiation):
    #   only_given_orders:  forall(lambda k: exists(lambda j: orders[j] == result[k], 0, len(orders)), 0, len(result))
    #   every_given_order:  forall(lambda j: exists(lambda k: result[k] == orders[j], 0, len(result)), 0, len(orders))
    #   no_order_twice:     orders_distinct(result)
