"""builtin calls, methods on values, constructors, loops, with-blocks, spec forms"""
import ast
from fractions import Fraction

import z3

from .values import *  # noqa


def _bm():
    from . import builtins_model as bm

    return bm


def _E():
    from . import engine as E

    return E


def has_free_bvar(t):
    """a constant that some enclosing spec binder will bind (name bv!..) occurs in t (inside nested lambdas too)"""
    todo = [t]
    seen = set()
    while todo:
        x = todo.pop()
        if x.get_id() in seen:
            continue
        seen.add(x.get_id())
        if z3.is_quantifier(x):
            todo.append(x.body())
            continue
        if z3.is_const(x) and x.decl().kind() == z3.Z3_OP_UNINTERPRETED and x.decl().name().startswith("bv!"):
            return True
        if z3.is_app(x):
            todo.extend(x.children())
    return False


# --------------------------------------------------------------------------- rounding (A2)
def round_nd(eng, x, nd):
    """round(x, nd) = RND_nd(x): a deterministic function with  10^nd * RND(x) integer,
    |RND(x) - x| <= half a unit (either neighbour at a tie) and RND(-x) == -RND(x)  (A2)."""
    scale = 10 ** nd
    if is_conc_num(x.t):
        fx = Fraction(x.t) * scale
        lo = fx.numerator // fx.denominator
        if fx - lo != Fraction(1, 2):
            r = lo if fx - lo < Fraction(1, 2) else lo + 1
            return SV(REAL, Fraction(r, scale))
    # RND is deterministic and odd; it is Ackermannised (one real variable per distinct argument term plus the
    # pairwise congruence / oddness implications) because UF applications over real terms made the integrality
    # goals undecidable in practice for z3 and cvc5
    xt = z3.simplify(zreal(x.t))
    if has_free_bvar(xt):
        # the Ackermannised result is ONE real per argument term: for an argument that depends on a bound variable it
        # would not depend on it (all instances would share one rounded value) - refuse rather than be unsound
        raise EngineLimit("round() of a term that depends on a quantified variable: state the bound |r - x| <= half a unit instead")
    reg = eng.path.ghost.setdefault("rnd", [])
    for x0, r0, nd0 in reg:
        if nd0 == nd and x0.eq(xt):
            return SV(REAL, r0)
    k = z3.Int(fresh_name("rnd"))
    r = z3.Real(fresh_name("rndv"))
    half = z3.RealVal(1) / (2 * scale)
    facts = [r * scale == z3.ToReal(k), r - xt <= half, xt - r <= half]
    for x0, r0, nd0 in reg:
        if nd0 == nd:
            facts.append(z3.Implies(xt == x0, r == r0))
            facts.append(z3.Implies(xt == -x0, r == -r0))
    reg.append((xt, r, nd))
    for fct in facts:
        eng.path.assume(fct, check=False)
    return SV(REAL, r)


# --------------------------------------------------------------------------- builtin calls
def call_builtin(eng, name, args, kwargs, line, fr):
    bm = _bm()
    E = _E()
    if name == "len":
        v = args[0]
        if isinstance(v, PyVal):
            if v.kind in ("list", "tuple", "set", "dictlit"):
                return SV(INT, len(v.items))
            if v.kind == "repeat":
                return v.n
            raise EngineLimit("len of %s" % v)
        v = eng.deref(v, "TypeError", line)
        if isinstance(v.sort, Tup):
            return SV(INT, len(v.t))
        if isinstance(v.sort, ListOf):
            return SV(INT, eng.list_len(v.t, v.sort.elem))
        if isinstance(v.sort, MapOf):
            return SV(INT, bm.map_size(eng, v))
        if v.sort == CHARS:
            return SV(INT, v.t[0])
        if isinstance(v.sort, Ref):
            mem = eng.repo.lookup_member(v.sort.cls, "__len__")
            if mem:
                kind, ci, n = mem
                return eng.call_function(ci.module, ci, n, [v], {}, line, "%s::%s.__len__" % (ci.module.relpath, ci.name))
        raise EngineLimit("len of %s" % v.sort)
    if name in ("min", "max"):
        key = kwargs.get("key")
        if key is not None:
            raise EngineLimit("min/max with key")
        items = args
        if len(args) == 1:
            items = bm.iter_concrete(eng, args[0])
        res = eng.deref(items[0], "TypeError", line)
        for y in items[1:]:
            y = eng.deref(y, "TypeError", line)
            c = bm.order_compare(eng, "Lt" if name == "min" else "Gt", y, res, line)
            if isinstance(c, bool):
                res = y if c else res
            elif eng.spec_mode:
                d = eng.decide(c)
                res = (y if d else res) if d is not None else bm.ite(eng, c, y, res)
            else:
                # executable code: case split (keeps if-then-else terms out of integrality / rounding goals)
                res = y if eng.branch(c, name) else res
        return res
    if name == "abs":
        x = eng.deref(args[0], "TypeError", line)
        if is_conc_num(x.t):
            return SV(x.sort, abs(x.t))
        if not eng.spec_mode:
            return x if eng.branch(zr(x.t) >= 0, "abs") else SV(x.sort, -zr(x.t))
        return SV(x.sort, z3.If(zr(x.t) >= 0, zr(x.t), -zr(x.t)))
    if name == "round":
        x = eng.deref(args[0], "TypeError", line)
        x = bm.as_num(eng, x, line)
        if len(args) == 1:
            raise EngineLimit("round to int")
        nd = args[1]
        if not (isinstance(nd.t, int)):
            raise EngineLimit("round with symbolic digits")
        return round_nd(eng, x, nd.t)
    if name == "float":
        x = eng.deref(args[0], "TypeError", line)
        if x.sort in (REAL, INT, BOOL):
            x = bm.as_num(eng, x, line)
            return SV(REAL, x.t if is_conc_num(x.t) else zreal(x.t))
        raise EngineLimit("float() of %s" % x.sort)
    if name == "int":
        x = eng.deref(args[0], "TypeError", line)
        if x.sort == INT:
            return x
        if x.sort == CHARS:
            return SV(INT, z3.Function("str_to_int", z3.IntSort(), z3.ArraySort(z3.IntSort(), z3.IntSort()), z3.IntSort())(zr(x.t[0]), x.t[1]))
        raise EngineLimit("int() of %s" % x.sort)
    if name == "bool":
        return SV(BOOL, eng.truth(args[0]))
    if name == "str":
        v = args[0] if args else None
        r = bm.opaque_string(eng, "str")
        if isinstance(v, SV) and isinstance(v.sort, Opt) and v.sort.inner in (REAL, INT) and not eng.spec_mode:
            if not eng.branch(v.t[0], "str-none"):
                v = v.t[1]
        if isinstance(v, SV) and v.sort in (REAL, INT):
            r.aux = v  # str(number): remembered so that Decimal(str(x)) is x (A1)
        elif isinstance(v, SV) and v.sort in (ATOM, CHARS):
            return v
        return r
    if name == "isinstance":
        return isinstance_model(eng, args[0], args[1], line)
    if name in ("list", "tuple"):
        if not args:
            return PyVal("list" if name == "list" else "tuple", items=[])
        v = args[0]
        if isinstance(v, PyVal) and v.kind in ("list", "tuple", "set"):
            return PyVal("list" if name == "list" else "tuple", items=list(v.items))
        if isinstance(v, SV) and isinstance(v.sort, ListOf):
            return list_copy(eng, v)
        if isinstance(v, PyVal) and v.kind == "mapview":
            from . import containers as ct

            return ct.view_to_list(eng, v)
        if isinstance(v, PyVal) and v.kind == "genfunc_call":
            raise EngineLimit("list(generator)")
        if isinstance(v, PyVal) and v.kind == "iter":
            return call_builtin(eng, name, [v.of], {}, line, fr)
        raise EngineLimit("%s() of %s" % (name, v))
    if name == "iter":
        return PyVal("iter", of=args[0])
    if name == "set":
        if not args:
            return PyVal("set", items=[])
        v = args[0]
        if isinstance(v, PyVal) and v.kind in ("list", "tuple", "set"):
            return PyVal("set", items=dedup(eng, v.items))
        if isinstance(v, SV) and isinstance(v.sort, ListOf):
            return PyVal("setof", of=v)
        raise EngineLimit("set() of %s" % v)
    if name == "dict":
        if not args and not kwargs:
            return PyVal("dictlit", items=[])
        raise EngineLimit("dict() with arguments")
    if name == "zip":
        return PyVal("zip", parts=list(args))
    if name == "enumerate":
        return PyVal("enumerate", of=args[0])
    if name == "range":
        return PyVal("range", args=list(args))
    if name == "reversed":
        v = args[0]
        if isinstance(v, PyVal) and v.kind in ("list", "tuple"):
            return PyVal("list", items=list(reversed(v.items)))
        raise EngineLimit("reversed of %s" % v)
    if name == "sum":
        return sum_builtin(eng, args, line)
    if name == "sorted":
        return sorted_builtin(eng, args, kwargs, line)
    if name == "hasattr":
        v = args[0]
        nm = bm.atom_str(args[1])
        if isinstance(v, SV) and isinstance(v.sort, Ref):
            has = eng.field_info(v.sort.cls, nm) is not None or eng.repo.lookup_member(v.sort.cls, nm) is not None
            return SV(BOOL, has)
        raise EngineLimit("hasattr on %s" % v)
    if name == "super":
        if fr is None or fr.cls is None:
            raise EngineLimit("super() outside method")
        return PyVal("super", cls=fr.cls, self_=fr.locals.get("self"))
    if name == "print":
        return NONE_V
    if name in ("any", "all"):
        v = args[0]
        items = bm.iter_concrete(eng, v)
        ts = [eng.truth(x) for x in items]
        return SV(BOOL, bm.or_(*ts) if name == "any" else bm.and_(*ts))
    if name == "next":
        raise EngineLimit("next()")
    raise EngineLimit("builtin %s" % name)


def dedup(eng, items):
    out = []
    for x in items:
        dup = False
        for y in out:
            e = eng.eq(x, y)
            if e is True:
                dup = True
                break
            if e is not False:
                raise EngineLimit("set of possibly-equal symbolic values")
        if not dup:
            out.append(x)
    return out


def isinstance_model(eng, v, cls, line):
    bm = _bm()
    names = []
    if isinstance(cls, PyVal) and cls.kind == "class":
        names = [cls.ci.name]
    elif isinstance(cls, PyVal) and cls.kind == "builtin":
        names = [cls.name]
    elif isinstance(cls, PyVal) and cls.kind == "tuple":
        return SV(BOOL, bm.or_(*[isinstance_model(eng, v, c, line).t for c in cls.items]))
    elif isinstance(cls, PyVal) and cls.kind == "ext":
        names = [cls.name]
    else:
        raise EngineLimit("isinstance against %s" % (cls,))
    n = names[0]
    if isinstance(v, PyVal):
        k = {"list": "list", "tuple": "tuple", "dictlit": "dict", "set": "set"}.get(v.kind)
        return SV(BOOL, k == n)
    if isinstance(v.sort, Opt):
        inner = isinstance_model(eng, v.t[1], cls, line).t
        return SV(BOOL, bm.and_(bm.not_(v.t[0]), inner))
    if v.sort == NONE:
        return SV(BOOL, False)
    if isinstance(v.sort, Ref):
        if n in ("list", "tuple", "dict", "set", "str", "int", "float"):
            if n == "dict" and eng.spec.is_struct(v.sort.cls):
                return SV(BOOL, True)
            return SV(BOOL, False)
        if eng.repo.is_subclass(v.sort.cls, n):
            return SV(BOOL, True)
        if eng.repo.is_subclass(n, v.sort.cls):
            # static class is a super class: dynamic class tag
            tag = eng.spec.class_tag(eng, v)
            if tag is None:
                raise EngineLimit("isinstance needs dynamic class of %s" % v.sort.cls)
            return SV(BOOL, bm.or_(*[tag == ATOMS.code("cls:" + c) for c in eng.repo.classes if eng.repo.is_subclass(c, n)]))
        return SV(BOOL, False)
    if isinstance(v.sort, ListOf):
        return SV(BOOL, n == "list")
    if isinstance(v.sort, Tup):
        return SV(BOOL, n == "tuple")
    if isinstance(v.sort, MapOf):
        return SV(BOOL, n == "dict")
    if v.sort in (REAL,):
        return SV(BOOL, n == "float")
    if v.sort == INT:
        return SV(BOOL, n == "int")
    if v.sort in (ATOM, CHARS):
        return SV(BOOL, n == "str")
    raise EngineLimit("isinstance of %s" % v.sort)


def list_copy(eng, lv):
    elem = lv.sort.elem
    r = eng.new_ref()
    eng.list_set_all(r, elem, eng.list_len(lv.t, elem), eng.list_items(lv.t, elem))
    return SV(ListOf(elem), r)


def sum_builtin(eng, args, line):
    bm = _bm()
    v = args[0]
    if isinstance(v, PyVal) and v.kind in ("list", "tuple"):
        acc = SV(INT, 0)
        for x in v.items:
            acc = bm.arith(eng, "Add", acc, eng.deref(x, "TypeError", line), line)
        return acc
    if isinstance(v, SV) and isinstance(v.sort, ListOf) and v.sort.elem in (REAL, INT):
        n = eng.list_len(v.t, v.sort.elem)
        arr = eng.list_items(v.t, v.sort.elem)[0]
        return SV(v.sort.elem, seq_sum(eng, arr, z3.IntVal(0), n, v.sort.elem))
    raise EngineLimit("sum of %s" % (v,))


def sorted_builtin(eng, args, kwargs, line):
    v = args[0]
    if isinstance(v, PyVal) and v.kind in ("list", "tuple", "set") and len(v.items) <= 1:
        return PyVal("list", items=list(v.items))
    if isinstance(v, PyVal) and v.kind == "list" and not kwargs and all(isinstance(x, SV) and is_conc_num(x.t) for x in v.items):
        return PyVal("list", items=sorted(v.items, key=lambda x: x.t))
    if isinstance(v, SV) and isinstance(v.sort, ListOf) and set(kwargs) <= {"key"}:
        return sorted_model(eng, v, kwargs.get("key"), line)
    c = eng.spec.builtin_contract("sorted")
    if c is not None:
        from . import contracts as C

        return C.apply_builtin_sorted(eng, v, kwargs, line)
    raise EngineLimit("sorted() of %s" % (v,))


def sorted_model(eng, lv, key, line):
    """sorted(L, key=f) for a heap list of symbolic length - the textbook specification (A7):
    a fresh list R with  R[k] == L[pi(k)]  for a bijection pi of [0, n)  (inverse pinv), ordered by the key
    (key(R[a]) <= key(R[b]) for a < b) and stable (equal keys keep their order in L: pi(a) < pi(b)).
    The key function must be pure and numeric; it is evaluated symbolically on an element (python would raise
    TypeError on a None key: the caller's contract has to exclude it)."""
    E = _E()
    bm = _bm()
    elem = lv.sort.elem
    if len(z3sorts(elem)) != 1:
        raise EngineLimit("sorted() of a list of %s" % elem)
    n = eng.list_len(lv.t, elem)
    src = eng.list_items(lv.t, elem)[0]
    pi = z3.Function(fresh_name("sortperm"), z3.IntSort(), z3.IntSort())
    pinv = z3.Function(fresh_name("sortinv"), z3.IntSort(), z3.IntSort())
    a, b = bvar("sa"), bvar("sb")
    r = eng.new_ref()
    eng.list_set_all(r, elem, n, [z3.Lambda([a], z3.Select(src, pi(a)))])
    res = SV(ListOf(elem), r)

    def keyof(idx_term):
        x = unflatten(elem, [z3.Select(src, idx_term)])
        if key is None:
            kv = x
        else:
            saved = eng.spec_mode
            eng.spec_mode = True
            eng.bound_depth += 1
            try:
                kv = eng.call(key, [x], {}, line)
            finally:
                eng.spec_mode = saved
                eng.bound_depth -= 1
        if isinstance(kv, SV) and isinstance(kv.sort, Opt):
            kv = kv.t[1]
        if not (isinstance(kv, SV) and kv.sort in (REAL, INT)):
            raise EngineLimit("sorted(): key of sort %s" % (getattr(kv, "sort", kv),))
        return zreal(kv.t)

    ka, kb = keyof(pi(a)), keyof(pi(b))
    p = eng.path
    inr = lambda t: z3.And(0 <= t, t < n)
    # explicit triggers: the automatically chosen ones (pi(pinv(a)) ..) match no ground term of a typical goal
    p.assume(z3.ForAll([a], z3.Implies(inr(a), z3.And(inr(pi(a)), pinv(pi(a)) == a)), patterns=[pi(a)]), check=False)
    p.assume(z3.ForAll([a], z3.Implies(inr(a), z3.And(inr(pinv(a)), pi(pinv(a)) == a)), patterns=[pinv(a)]), check=False)
    p.assume(z3.ForAll([a, b], z3.Implies(z3.And(0 <= a, a < b, b < n), z3.And(ka <= kb, z3.Implies(ka == kb, pi(a) < pi(b)))),
                       patterns=[z3.MultiPattern(pi(a), pi(b))]), check=False)
    p.notes.append("sorted() textbook specification assumed at line %s" % line)
    return res


# --------------------------------------------------------------------------- sums as spec functions
def seq_sum(eng, arr, lo, hi, sort=REAL, family="sum"):
    """Sigma_{lo <= j < hi} arr[j] as an uninterpreted function with on-demand unfolding axioms.

    A summand given as a lambda term is *named* by an array constant (one per distinct lambda): z3 does not decide
    even small problems with lambda terms as arguments of uninterpreted functions.  The constant is only a tag - the
    solver learns about SUM(tag, lo, hi) exclusively through the unfolding / congruence instances of sum_axioms, which
    are stated with the beta-reduced summand, so every fact is true of the real sum."""
    p = eng.path
    reg = p.ghost.setdefault("sums", [])
    zs = z3.RealSort() if sort == REAL else z3.IntSort()
    f = z3.Function("SUM_%s" % ("R" if sort == REAL else "I"), z3.ArraySort(z3.IntSort(), zs), z3.IntSort(), z3.IntSort(), zs)
    tag = arr
    if z3.is_quantifier(arr) and arr.is_lambda():
        tags = p.ghost.setdefault("sum_tags", {})
        hit = tags.get(arr.get_id())
        if hit is None or not hit[0].eq(arr):
            hit = (arr, z3.Const(fresh_name("SUMARR"), arr.sort()))
            tags[arr.get_id()] = hit
        tag = hit[1]
    t = f(tag, zr(lo), zr(hi))
    reg.append((f, arr, zr(lo), zr(hi), sort, family, tag))
    return t


def _summand(arr, x):
    return z3.simplify(z3.Select(arr, x))


_NLMUL = z3.Function("NLMUL", z3.RealSort(), z3.RealSort(), z3.RealSort())
_NLDIV = z3.Function("NLDIV", z3.RealSort(), z3.RealSort(), z3.RealSort())


def abstract_nl(t, cache=None):
    """replace non-linear products / quotients by applications of the uninterpreted NLMUL / NLDIV.

    Used only inside the 'summands differ at the witness' disjunct of the sum congruence instances: interpreting
    NLMUL as multiplication gives back the exact instance, so the abstracted instance is satisfied by the real
    world (sound), and the solver can refute 'the summands differ' by congruence alone when their leaves coincide -
    z3 / cvc5 do not do that for two arithmetic monomials in practice."""
    cache = {} if cache is None else cache
    k = t.get_id()
    if k in cache:
        return cache[k]
    if not z3.is_app(t) or t.num_args() == 0:
        cache[k] = t
        return t
    ch = [abstract_nl(c, cache) for c in t.children()]
    kind = t.decl().kind()
    isnum = lambda c: z3.is_rational_value(c) or z3.is_int_value(c)
    r = None
    if kind == z3.Z3_OP_MUL and z3.is_real(t):
        nonconst = [c for c in ch if not isnum(c)]
        if len(nonconst) >= 2:
            acc = nonconst[0]
            for c in nonconst[1:]:
                acc = _NLMUL(acc, c)
            consts = [c for c in ch if isnum(c)]
            r = z3.Product(*(consts + [acc])) if consts else acc
    elif kind == z3.Z3_OP_DIV and z3.is_real(t) and not isnum(ch[1]):
        r = _NLDIV(ch[0], ch[1])
    if r is None:
        r = t.decl()(*ch)
    cache[k] = r
    return r


def sum_axioms(eng):
    """unfolding + congruence instances for every registered sum term of this path (computed incrementally)"""
    p = eng.path
    if p is None:
        return []
    reg = p.ghost.get("sums", [])
    st = p.ghost.setdefault("sum_state", dict(done=0, seen=set(), items=[], ax=[]))
    zero = lambda s: z3.RealVal(0) if s == REAL else z3.IntVal(0)
    ax = st["ax"]
    items = st["items"]
    for f, arr, lo, hi, sort, fam, tag in reg[st["done"]:]:
        key = (f.name(), tag.get_id(), lo.get_id(), hi.get_id())
        if key in st["seen"]:
            continue
        st["seen"].add(key)
        ax.append(z3.Implies(hi <= lo, f(tag, lo, hi) == zero(sort)))
        ax.append(z3.Implies(hi > lo, f(tag, lo, hi) == f(tag, lo, hi - 1) + _summand(arr, hi - 1)))
        ax.append(z3.Implies(hi - 1 <= lo, f(tag, lo, hi - 1) == zero(sort)))
        # congruence with the earlier sums: equal contents on the range => equal sums
        for f2, arr2, lo2, hi2, s2, fam2, tag2 in items:
            if s2 != sort or fam2 != fam or tag2.get_id() == tag.get_id():
                continue
            ranges = {}
            for (l, h) in ((lo, hi), (lo2, hi2), (lo, hi - 1), (lo2, hi2 - 1)):
                ranges[(l.get_id(), h.get_id())] = (l, h)
            for (l, h) in ranges.values():
                kk = z3.Int(fresh_name("sk"))
                differ = abstract_nl(_summand(arr, kk)) != abstract_nl(_summand(arr2, kk))
                ax.append(z3.Or(z3.And(l <= kk, kk < h, differ), f(tag, l, h) == f2(tag2, l, h)))
        items.append((f, arr, lo, hi, sort, fam, tag))
    st["done"] = len(reg)
    return list(ax)


# --------------------------------------------------------------------------- methods on values
def call_value_method(eng, base, name, args, kwargs, line, fr):
    bm = _bm()
    E = _E()
    if isinstance(base, PyVal):
        k = base.kind
        if k == "list":
            if name == "append":
                base.items.append(args[0])
                return NONE_V
            if name == "extend":
                base.items.extend(bm.iter_concrete(eng, args[0]))
                return NONE_V
            if name == "copy":
                return PyVal("list", items=list(base.items))
            if name == "clear":
                del base.items[:]
                return NONE_V
            if name == "index":
                for i, y in enumerate(base.items):
                    if eng.branch(eng.eq(args[0], y), "index"):
                        return SV(INT, i)
                raise E.PyRaise("ValueError", None, line)
        if k == "set":
            if name == "add":
                for y in base.items:
                    e = eng.eq(args[0], y)
                    if e is True:
                        return NONE_V
                    if e is not False:
                        if eng.branch(e, "setadd"):
                            return NONE_V
                base.items.append(args[0])
                return NONE_V
            if name == "union":
                out = list(base.items)
                res = PyVal("set", items=out)
                for x in bm.iter_concrete(eng, args[0]):
                    call_value_method(eng, res, "add", [x], {}, line, fr)
                return res
        if k == "setof" and name == "add":
            raise EngineLimit("add to symbolic set")
        if k == "dictlit":
            if name == "get":
                for kk, v in base.items:
                    e = eng.eq(kk, args[0])
                    if e is True:
                        return v
                    if e is not False:
                        if eng.branch(e, "dictget"):
                            return v
                return args[1] if len(args) > 1 else NONE_V
            if name == "items":
                return PyVal("list", items=[bm.make_tuple([kk, v]) for kk, v in base.items])
            if name == "keys":
                return PyVal("list", items=[kk for kk, v in base.items])
            if name == "values":
                return PyVal("list", items=[v for kk, v in base.items])
            if name == "copy":
                return PyVal("dictlit", items=list(base.items))
            if name == "clear":
                del base.items[:]
                return NONE_V
        raise EngineLimit("method %s on %s" % (name, base.kind))
    s = base.sort
    if s == ATOM and name in ("format", "join", "lower", "upper", "strip"):
        return bm.opaque_string(eng, name)
    if isinstance(s, ListOf):
        elem = s.elem
        if name == "append":
            eng.list_append(base, bm.coerce(eng, args[0], elem))
            return NONE_V
        if name == "copy":
            return list_copy(eng, base)
        if name == "extend":
            bm.list_extend(eng, base, args[0])
            return NONE_V
        if name == "clear":
            eng.list_set_all(base.t, elem, 0, eng.list_items(base.t, elem))
            return NONE_V
        if name == "index":
            n = eng.list_len(base.t, elem)
            x = bm.coerce(eng, args[0], elem)
            i = bvar("li")
            j = bvar("lj")
            e_i = zb(eng.eq(eng.list_get(base.t, elem, i), x))
            exists = z3.Exists([i], z3.And(0 <= i, i < n, e_i))
            if not eng.branch(exists, "index"):
                raise E.PyRaise("ValueError", None, line)
            r = z3.Int(fresh_name("idx"))
            e_r = zb(eng.eq(eng.list_get(base.t, elem, r), x))
            e_j = zb(eng.eq(eng.list_get(base.t, elem, j), x))
            eng.path.assume(z3.And(0 <= r, r < n, e_r, z3.ForAll([j], z3.Implies(z3.And(0 <= j, j < r), z3.Not(e_j)))), check=False)
            return SV(INT, r)
        if name == "remove":
            return list_remove(eng, base, args[0], line)
        if name == "pop":
            n = eng.list_len(base.t, elem)
            if args:
                ci = bm.conc_index(args[0])
                if ci != 0:
                    raise EngineLimit("list.pop(i) for i != 0")
                if not eng.branch(n > 0, "pop"):
                    raise E.PyRaise("IndexError", None, line)
                first = eng.list_get(base.t, elem, z3.IntVal(0))
                j = bvar("pp")
                arrs = [z3.Lambda([j], z3.Select(a, j + 1)) for a in eng.list_items(base.t, elem)]
                eng.list_set_all(base.t, elem, n - 1, arrs)
                return first
            if not eng.branch(n > 0, "pop"):
                raise E.PyRaise("IndexError", None, line)
            last = eng.list_get(base.t, elem, n - 1)
            eng.list_set_all(base.t, elem, n - 1, eng.list_items(base.t, elem))
            return last
        if name == "sort":
            from . import contracts as C

            return C.apply_list_sort(eng, base, kwargs, line)
        raise EngineLimit("list method %s" % name)
    if isinstance(s, MapOf):
        from . import containers as ct

        return ct.map_method(eng, base, name, args, kwargs, line)
    if isinstance(s, Ref) and eng.spec.is_struct(s.cls):
        if name == "get":
            key = bm.atom_str(args[0])
            fi = eng.field_info(s.cls, key) if key is not None else None
            if fi is None:
                return args[1] if len(args) > 1 else NONE_V
            owner, fs = fi
            v = eng.read_field(base.t, owner, key, fs)
            if len(args) > 1 and isinstance(fs, Opt):
                if eng.branch(v.t[0], "getdefault"):
                    return args[1]
                return v.t[1]
            return v
        if name == "clear":
            for fname in eng.spec.struct_fields(s.cls):
                owner, fs = eng.field_info(s.cls, fname)
                eng.spec.note_write(eng, owner, fname, line)
                eng.write_field(base.t, owner, fname, fs, bm.absent_value(fs))
            return NONE_V
    if s == REAL:
        if name == "quantize":
            # Decimal.quantize(Decimal-with-exponent-0, ROUND_HALF_UP): round half away from zero to an integer
            rounding = args[1] if len(args) > 1 else kwargs.get("rounding")
            rn = getattr(rounding, "name", None)
            if rn != "ROUND_HALF_UP":
                raise EngineLimit("quantize rounding mode %s" % rn)
            e = args[0]
            if not (isinstance(e, SV) and isinstance(e.t, int)):
                raise EngineLimit("quantize exponent argument")
            x = zreal(base.t) if not is_conc_num(base.t) else None
            if x is None:
                fx = Fraction(base.t)
                import math

                r = math.floor(fx + Fraction(1, 2)) if fx >= 0 else -math.floor(-fx + Fraction(1, 2))
                return SV(REAL, Fraction(r))
            half = z3.RealVal("1/2")
            r = z3.If(x >= 0, z3.ToReal(z3.ToInt(x + half)), -z3.ToReal(z3.ToInt(-x + half)))
            return SV(REAL, r)
        if name == "total_seconds":
            return base
        if name == "date":
            return SV(INT, z3.ToInt(zreal(base.t) / 86400))
        if name == "replace":
            ks = set(kwargs)
            if ks == {"minute", "second", "microsecond"} and all(isinstance(v.t, int) and v.t == 0 for v in kwargs.values()):
                return SV(REAL, z3.ToReal(z3.ToInt(zreal(base.t) / 3600)) * 3600)
            raise EngineLimit("datetime.replace(%s)" % sorted(ks))
    raise EngineLimit("method %s on %s" % (name, s))


def list_remove(eng, lv, x, line):
    """list.remove(x): removes the first occurrence; ValueError if absent"""
    E = _E()
    bm = _bm()
    elem = lv.sort.elem
    n = eng.list_len(lv.t, elem)
    x = bm.coerce(eng, x, elem)
    i = bvar("ri")
    j = bvar("rj")
    e_i = zb(eng.eq(eng.list_get(lv.t, elem, i), x))
    exists = z3.Exists([i], z3.And(0 <= i, i < n, e_i))
    if not eng.branch(exists, "remove"):
        raise E.PyRaise("ValueError", None, line)
    r = z3.Int(fresh_name("ridx"))
    e_r = zb(eng.eq(eng.list_get(lv.t, elem, r), x))
    e_j = zb(eng.eq(eng.list_get(lv.t, elem, j), x))
    eng.path.assume(z3.And(0 <= r, r < n, e_r, z3.ForAll([j], z3.Implies(z3.And(0 <= j, j < r), z3.Not(e_j)))), check=False)
    arrs = [z3.Lambda([j], z3.If(j < r, z3.Select(a, j), z3.Select(a, j + 1))) for a in eng.list_items(lv.t, elem)]
    eng.list_set_all(lv.t, elem, n - 1, arrs)
    return NONE_V


# --------------------------------------------------------------------------- constructors / externals
def construct(eng, ci, args, kwargs, line):
    """ClassName(...): allocate and run __init__ (contract or inline)"""
    E = _E()
    if eng.exc_is_sub(ci.name, "Exception") or eng.exc_is_sub(ci.name, "BaseException"):
        return PyVal("excinst", name=ci.name, args=args)
    if "Enum" in ci.bases:
        raise EngineLimit("enum construction")
    r = SV(Ref(ci.name), eng.new_ref())
    tagf = eng.spec.class_tag_field(ci.name)
    if tagf is not None:
        owner, fname = tagf
        eng.write_field(r.t, owner, fname, ATOM, SV(ATOM, Atom("cls:" + ci.name)))
    mem = eng.repo.lookup_member(ci.name, "__init__")
    if mem is None:
        return r
    kind, owner, n = mem
    qual = "%s::%s.__init__" % (owner.module.relpath, owner.name)
    eng.call_function(owner.module, owner, n, [r] + args, kwargs, line, qual)
    return r


def call_lambda(eng, f, args):
    E = _E()
    node = f.node
    fr = E.Frame(f.frame.module, f.frame.cls, f.frame.func, dict(f.frame.locals))
    eng.bind_params(node, fr, args, {}, f.frame.module)
    if isinstance(node, ast.Lambda):
        return eng.eval(node.body, fr)
    try:
        eng.exec_block(node.body, fr)
    except E.ReturnEx as r:
        return r.value
    return NONE_V


def call_external(eng, f, args, kwargs, line):
    bm = _bm()
    full = "%s.%s" % (f.module, f.name)
    if full in ("decimal.Decimal",):
        v = args[0]
        if isinstance(v, SV) and v.sort in (REAL, INT):
            return SV(REAL, v.t if not isinstance(v.t, int) else Fraction(v.t)) if is_conc_num(v.t) else SV(REAL, zreal(v.t))
        if isinstance(v, SV) and v.sort == ATOM and v.aux is not None:
            x = v.aux
            return SV(REAL, x.t if is_conc_num(x.t) else zreal(x.t))
        raise EngineLimit("Decimal(%s)" % (v,))
    if full.endswith("datetime.datetime.utcnow") or full.endswith("datetime.utcnow"):
        return eng.spec.clock_now(eng)
    if full.endswith("datetime.timedelta"):
        secs = Fraction(0)
        mult = {"hours": 3600, "minutes": 60, "seconds": 1, "days": 86400}
        tot = None
        for k, v in kwargs.items():
            if k not in mult:
                raise EngineLimit("timedelta(%s)" % k)
            term = bm.arith(eng, "Mult", v, SV(INT, mult[k]), line)
            tot = term if tot is None else bm.arith(eng, "Add", tot, term, line)
        return SV(REAL, tot.t if tot is not None else 0)
    if full == "time.sleep":
        return NONE_V
    c = eng.spec.external_contract(full)
    if c is not None:
        from . import contracts as C

        return C.apply_contract_at_call(eng, c, None, None, None, args, kwargs, line)
    raise EngineLimit("external call %s (line %s): no assumed contract" % (full, line))


# --------------------------------------------------------------------------- with
def exec_with(eng, st, fr):
    E = _E()
    if len(st.items) != 1:
        raise EngineLimit("multi-item with")
    item = st.items[0]
    cm = eng.eval(item.context_expr, fr)
    if isinstance(cm, SV) and isinstance(cm.sort, Opt):
        cm = eng.deref(cm, "AttributeError", st.lineno)
    if isinstance(cm, SV) and isinstance(cm.sort, Ref):
        if eng.spec.is_lock(cm.sort.cls):
            eng.exec_block(st.body, fr)
            return
        ent = eng.getattr(cm, "__enter__", st.lineno)
        v = eng.call(ent, [], {}, st.lineno, fr)
        if item.optional_vars is not None:
            eng.assign(item.optional_vars, v, fr, st.lineno)
        ex = lambda has_exc: eng.call(
            eng.getattr(cm, "__exit__", st.lineno),
            [PyVal("excflag", has=has_exc)] * 3 if has_exc else [NONE_V, NONE_V, NONE_V],
            {},
            st.lineno,
            fr,
        )
        try:
            eng.exec_block(st.body, fr)
        except E.PyRaise:
            r = ex(True)
            # __exit__ returning a true value would swallow: the classes here return None
            raise
        except (E.ReturnEx, E.BreakEx, E.ContinueEx):
            ex(False)
            raise
        ex(False)
        return
    raise EngineLimit("with over %s" % (cm,))


# --------------------------------------------------------------------------- loops
def assigned_names(stmts):
    out = set()
    for st in stmts:
        for n in ast.walk(st):
            if isinstance(n, ast.Name) and isinstance(n.ctx, (ast.Store, ast.Del)):
                out.add(n.id)
    return out


def exec_for(eng, st, fr):
    E = _E()
    bm = _bm()
    if st.orelse:
        pass
    it = eng.eval(st.iter, fr)
    ordinal = fr.loop_ordinal
    fr.loop_ordinal += 1
    if isinstance(it, PyVal) and it.kind == "iter":
        it = it.of
    if isinstance(it, SV) and isinstance(it.sort, Opt):
        it = eng.deref(it, "TypeError", st.lineno)
    # concrete iteration (constant tuples/lists): complete unrolling
    conc = None
    if isinstance(it, PyVal) and it.kind in ("list", "tuple", "set"):
        conc = list(it.items)
    elif isinstance(it, SV) and isinstance(it.sort, Tup):
        conc = list(it.t)
    elif isinstance(it, PyVal) and it.kind == "range" and all(bm.conc_index(a) is not None for a in it.args):
        conc = [SV(INT, i) for i in range(*[bm.conc_index(a) for a in it.args])]
    elif isinstance(it, PyVal) and it.kind == "zip" and all(isinstance(p, PyVal) and p.kind in ("list", "tuple") for p in it.parts):
        conc = [bm.make_tuple(list(xs)) for xs in zip(*[p.items for p in it.parts])]
    elif isinstance(it, PyVal) and it.kind == "enumerate" and isinstance(it.of, PyVal) and it.of.kind in ("list", "tuple"):
        conc = [bm.make_tuple([SV(INT, i), x]) for i, x in enumerate(it.of.items)]
    if conc is not None:
        broke = False
        for x in conc:
            eng.assign(st.target, x, fr, st.lineno)
            try:
                eng.exec_block(st.body, fr)
            except E.BreakEx:
                broke = True
                break
            except E.ContinueEx:
                continue
        if not broke and st.orelse:
            eng.exec_block(st.orelse, fr)
        return
    from . import loops

    loops.symbolic_for(eng, st, fr, it, ordinal)


def exec_while(eng, st, fr):
    ordinal = fr.loop_ordinal
    fr.loop_ordinal += 1
    from . import loops

    loops.symbolic_while(eng, st, fr, ordinal)


# --------------------------------------------------------------------------- spec forms
def spec_form(eng, node, fr):
    bm = _bm()
    E = _E()
    name = node.func.id
    if name == "old":
        old = getattr(fr, "old_heap", None)
        if old is None:
            raise EngineLimit("old() outside a postcondition")
        saved = eng.path.heap
        saved_locals = fr.locals
        eng.path.heap = dict(old)
        if getattr(fr, "old_locals", None) is not None:
            # parameters take their entry values; every other name (quantifier-bound variables, result, loop
            # locals) keeps its current value, so that old(l[j]) can be written under a forall / sum_
            merged = dict(fr.locals)
            merged.update(fr.old_locals)
            fr.locals = merged
        try:
            return eng.eval(node.args[0], fr)
        finally:
            old.update({k: v for k, v in eng.path.heap.items() if k not in old})
            eng.path.heap = saved
            fr.locals = saved_locals
    if name == "is_int":
        v = bm.as_num(eng, eng.eval(node.args[0], fr), node.lineno)
        if is_conc_num(v.t):
            return SV(BOOL, Fraction(v.t).denominator == 1)
        if z3.is_int(zr(v.t)):
            return TRUE_V
        y = zreal(v.t)
        if False:
            # purify: to_int over terms with array selects / UF applications is not decided in practice
            reg = eng.path.ghost.setdefault("isint_pure", {})
            ys = z3.simplify(y)
            pv = reg.get(ys.get_id())
            if pv is None or not pv[0].eq(ys):
                pv = (ys, z3.Real(fresh_name("pure")))
                reg[ys.get_id()] = pv
                eng.path.assume(pv[1] == ys, check=False)
            y = pv[1]
        return SV(BOOL, y == z3.ToReal(z3.ToInt(y)))  # solver-friendlier than (is_int y): gives a witness when assumed
    if name == "implies":
        a = eng.truth(eng.eval(node.args[0], fr))
        if a is False:
            return TRUE_V
        b = eng.truth(eng.eval(node.args[1], fr))
        return SV(BOOL, bm.implies_(a, b))
    if name == "iff":
        a = eng.truth(eng.eval(node.args[0], fr))
        b = eng.truth(eng.eval(node.args[1], fr))
        return SV(BOOL, zb(a) == zb(b))
    if name in ("forall", "exists", "forall_int", "exists_int"):
        lam = node.args[0]
        if not isinstance(lam, ast.Lambda):
            raise EngineLimit("%s needs a lambda" % name)
        vars_ = [a.arg for a in lam.args.args]
        zs = [bvar("q_" + v) for v in vars_]
        fr2 = E.Frame(fr.module, fr.cls, fr.func, dict(fr.locals))
        for attr in ("old_heap", "old_locals"):
            if hasattr(fr, attr):
                setattr(fr2, attr, getattr(fr, attr))
        for v, z in zip(vars_, zs):
            fr2.locals[v] = SV(INT, z)
        guard = True
        if len(node.args) >= 3:
            lo = eng.eval(node.args[1], fr)
            hi = eng.eval(node.args[2], fr)
            guard = z3.And(zr(lo.t) <= zs[0], zs[0] < zr(hi.t))
        eng.bound_depth = getattr(eng, "bound_depth", 0) + 1
        try:
            body = zb(eng.truth(eng.eval(lam.body, fr2)))
        finally:
            eng.bound_depth -= 1
        # canonical bound-variable names (substituted after the body is built, so nested binders cannot capture):
        # the same clause text evaluated twice in the same state yields the identical quantifier term
        # (the nesting depth is part of the name: the SMT-LIB text handed to the solvers binds by NAME, an inner binder
        #  with the name of an outer one would shadow it)
        cs = [z3.Const("bv!q%d_%s" % (eng.bound_depth, v), z3.IntSort()) for v in vars_]
        sub = list(zip(zs, cs))
        body = z3.substitute(body, *sub)
        if guard is not True:
            guard = z3.substitute(guard, *sub)
        if name.startswith("forall"):
            return SV(BOOL, z3.ForAll(cs, z3.Implies(guard, body) if guard is not True else body))
        return SV(BOOL, z3.Exists(cs, z3.And(guard, body) if guard is not True else body))
    if name == "sum_":
        lam = node.args[0]
        lo = eng.eval(node.args[1], fr)
        hi = eng.eval(node.args[2], fr)
        j = bvar("sj")
        fr2 = E.Frame(fr.module, fr.cls, fr.func, dict(fr.locals))
        for attr in ("old_heap", "old_locals"):
            if hasattr(fr, attr):
                setattr(fr2, attr, getattr(fr, attr))
        fr2.locals[lam.args.args[0].arg] = SV(INT, j)
        eng.bound_depth = getattr(eng, "bound_depth", 0) + 1
        try:
            body = eng.eval(lam.body, fr2)
        finally:
            eng.bound_depth -= 1
        body = bm.as_num(eng, body, node.lineno)
        # canonical bound-variable name: the same summand text evaluated twice must give the identical lambda term
        cj = z3.Const("bv!sj%d" % eng.bound_depth, z3.IntSort())  # depth in the name: see forall below (binding by name in SMT-LIB text)
        arr = z3.Lambda([cj], z3.substitute(zreal(body.t), (j, cj)))
        arr = z3.simplify(arr)
        cbody = None
        if z3.is_quantifier(arr) and arr.is_lambda() and z3.is_rational_value(arr.body()):
            cbody = arr.body()
        elif z3.is_K(arr) and z3.is_rational_value(arr.arg(0)):
            cbody = arr.arg(0)
        if cbody is not None:
            # constant summand c: the sum is c * max(hi - lo, 0) (no induction needed by the solver)
            cnt = zr(hi.t) - zr(lo.t)
            return SV(REAL, cbody * z3.ToReal(z3.If(cnt > 0, cnt, 0)))
        return SV(REAL, seq_sum(eng, arr, lo.t, hi.t, REAL, family=id(lam)))
    if name == "keys_of":
        # the insertion-ordered key sequence of a dict, as a list value:  keys_of(d)[j], len(keys_of(d))
        mv = eng.eval(node.args[0], fr)
        if isinstance(mv, SV) and isinstance(mv.sort, Opt):
            mv = mv.t[1]
        if not (isinstance(mv, SV) and isinstance(mv.sort, MapOf)):
            raise EngineLimit("keys_of(%s)" % (mv,))
        from . import containers as ct

        return ct.keys_ref(eng, mv)
    if name == "let":
        raise EngineLimit("let")
    if name == "fresh":
        # fresh(e): the object e was allocated by this function (not present in the pre-state).
        #  - proving the function: its reference lies above the allocation mark at entry;
        #  - using the contract at a call site: e IS a reference allocated now (so the caller's later allocations
        #    are different from it, and it is none of the caller's earlier objects)
        v = eng.eval(node.args[0], fr)
        if isinstance(v, SV) and isinstance(v.sort, Opt):
            v = v.t[1]
        if not (isinstance(v, SV) and isinstance(v.sort, (Ref, ListOf, MapOf))):
            raise EngineLimit("fresh(%s)" % (v,))
        if getattr(eng, "applying_call_post", False):
            r = eng.new_ref()
            return SV(BOOL, zr(v.t) == r)
        return SV(BOOL, z3.And(zr(v.t) > z3.Int("alloc0"), zr(v.t) <= eng.alloc_term()))
    raise EngineLimit("spec form %s" % name)
