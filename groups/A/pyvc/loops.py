"""Loops with sidecar invariants: establish / havoc / assume / body once / re-establish."""
import ast

import z3

from .values import *  # noqa
from . import builtins_model as bm
from . import engine as E

LIST_MUTATORS = {"append", "remove", "clear", "pop", "extend", "sort", "insert"}


class WriteSet:
    def __init__(self):
        self.fine = []  # (base_ast, attr)   attribute store on a loop-invariant base
        self.fine_lists = []  # list_expr_ast  mutated list reached by a loop-invariant expression
        self.coarse_attrs = set()  # attr names: every (owner, attr) heap array
        self.coarse_lists = False
        self.coarse_maps = False
        self.names = set()


def expr_invariant(node, assigned):
    """expression mentions only names not assigned in the loop and no calls"""
    for n in ast.walk(node):
        if isinstance(n, ast.Name) and n.id in assigned:
            return False
        if isinstance(n, (ast.Call, ast.Subscript)):
            return False
    return True


def fresh_local_names(stmts):
    """names whose every assignment in stmts binds an object allocated by that very statement (x = y.copy(), x = [..],
    x = list(..), a comprehension): mutating such an object cannot change anything that existed before the iteration"""
    fresh, other = set(), set()
    for st in stmts:
        for n in ast.walk(st):
            targets = []
            if isinstance(n, ast.Assign):
                targets, val = n.targets, n.value
            elif isinstance(n, (ast.AugAssign, ast.AnnAssign)):
                targets, val = [n.target], None
            elif isinstance(n, (ast.For, ast.comprehension)):
                targets, val = [n.target], None
            elif isinstance(n, ast.With):
                targets, val = [i.optional_vars for i in n.items if i.optional_vars is not None], None
            for t in targets:
                isfresh = isinstance(t, ast.Name) and val is not None and (
                    isinstance(val, (ast.List, ast.ListComp, ast.Dict, ast.DictComp, ast.Set, ast.SetComp))
                    or (isinstance(val, ast.Call) and isinstance(val.func, ast.Attribute) and val.func.attr == "copy" and not val.args)
                    or (isinstance(val, ast.Call) and isinstance(val.func, ast.Name) and val.func.id in ("list", "dict", "set")))
                for nm in ast.walk(t):
                    if isinstance(nm, ast.Name):
                        (fresh if isfresh else other).add(nm.id)
    return fresh - other


def collect_writes(eng, stmts, fr, assigned, ws, depth=0, subst=None):
    """syntactic over-approximation of the heap locations written by stmts"""
    fresh = fresh_local_names(stmts) if depth == 0 and subst is None else set()
    for st in stmts:
        for n in ast.walk(st):
            if isinstance(n, ast.Attribute) and isinstance(n.ctx, ast.Store):
                if subst is None and expr_invariant(n.value, assigned):
                    ws.fine.append((n.value, n.attr))
                else:
                    ws.coarse_attrs.add(n.attr)
            elif isinstance(n, ast.Subscript) and isinstance(n.ctx, (ast.Store, ast.Del)):
                # d[k] = v  /  l[i] = v  / rec[1] = v
                if subst is None and expr_invariant(n.value, assigned):
                    ws.fine_lists.append(n.value)
                else:
                    ws.coarse_lists = True
                    ws.coarse_maps = True
                    # record stores are fields named by the constant index
                    if isinstance(n.slice, ast.Constant):
                        ws.coarse_attrs.add(str(n.slice.value))
            elif isinstance(n, ast.Call):
                if bm.is_logging_call(n):
                    continue
                f = n.func
                if isinstance(f, ast.Attribute) and f.attr in LIST_MUTATORS | {"update", "setdefault", "add"}:
                    if isinstance(f.value, ast.Name) and f.value.id in fresh:
                        continue  # a container allocated in this iteration: nothing that existed before is changed
                    if subst is None and expr_invariant(f.value, assigned):
                        ws.fine_lists.append(f.value)
                    else:
                        ws.coarse_lists = True
                        ws.coarse_maps = True
                    continue
                collect_call_writes(eng, n, fr, assigned, ws, depth)


def collect_call_writes(eng, call, fr, assigned, ws, depth):
    """writes of a callee: its contract's modifies, or (inlined) its body's writes, else coarse everything"""
    name = None
    f = call.func
    if isinstance(f, ast.Name):
        name = f.id
    elif isinstance(f, ast.Attribute):
        name = f.attr
    if name in bm.BUILTINS or name in bm.SPEC_FORMS:
        return
    cands = eng.spec.contracts_named(name)
    found = False
    for c in cands:
        found = True
        amap = call_arg_map(c, call) if depth == 0 else None
        for m in c.modifies:
            add_contract_write(m, amap, assigned, ws)
        for r in c.raises:
            for m in r.get("modifies", []):
                add_contract_write(m, amap, assigned, ws)
        if c.modifies_lists and amap is None:
            ws.coarse_lists = True
        if c.modifies_maps and amap is None:
            ws.coarse_maps = True
    # inlinable repo functions with that name
    for qual, (mi, ci, node) in eng.spec.inline_candidates(eng.repo, name):
        found = True
        if depth < 4:
            collect_writes(eng, node.body, fr, set(), ws, depth + 1, subst=True)
    if not found:
        # unknown callee: properties / externals that the engine will reject anyway or pure builtins
        pass


def call_arg_map(c, call):
    """callee parameter name -> call-site argument AST (None when the call shape is not a plain positional/keyword call)"""
    a = c.node.args
    params = [p.arg for p in a.posonlyargs + a.args]
    args = list(call.args)
    if any(isinstance(x, ast.Starred) for x in args) or any(k.arg is None for k in call.keywords):
        return None
    amap = {}
    f = call.func
    if params and params[0] == "self":
        if not isinstance(f, ast.Attribute):
            return None
        amap["self"] = f.value
        params = params[1:]
    elif isinstance(f, ast.Attribute) and c.kind == "repo" and "." in c.qual.split("::")[-1]:
        return None  # static / class method reached through an attribute: keep coarse
    for pn, x in zip(params, args):
        amap[pn] = x
    for k in call.keywords:
        amap[k.arg] = k.value
    return amap


class _Subst(ast.NodeTransformer):
    def __init__(self, amap):
        self.amap = amap
        self.ok = True

    def visit_Name(self, node):
        if node.id in self.amap:
            import copy as _copy

            return _copy.deepcopy(self.amap[node.id])
        self.ok = False  # a name that is not a parameter (spec function, constant): cannot be located at the call site
        return node


def add_contract_write(m, amap, assigned, ws):
    """one modifies entry of a callee contract, as a write of the loop body: precise when the modified object is
    reached from the call-site arguments by a loop-invariant attribute path, coarse (whole field / all lists) otherwise"""
    import copy as _copy

    kind = m[0]
    if kind == "all":
        ws.coarse_attrs.add(m[1].split(".")[-1])
        return
    expr = m[1] if kind in ("list", "map") else m[0]
    loc = None
    if amap is not None and isinstance(expr, ast.AST):
        sub = _Subst(amap)
        e2 = sub.visit(_copy.deepcopy(expr))
        if sub.ok and expr_invariant(e2, assigned):
            loc = ast.fix_missing_locations(e2)
    if kind in ("list", "map"):
        if loc is not None:
            ws.fine_lists.append(loc)
        elif kind == "list":
            ws.coarse_lists = True
        else:
            ws.coarse_maps = True
        return
    if loc is not None:
        ws.fine.append((loc, m[1]))
    else:
        ws.coarse_attrs.add(m[1])


def snapshot_heap(eng):
    return dict(eng.path.heap)


def havoc_writes(eng, ws, fr, ordinal):
    p = eng.path
    # fine-grained attribute stores
    done = set()
    for base_ast, attr in ws.fine:
        if attr in ws.coarse_attrs:
            continue
        try:
            saved = eng.spec_mode
            eng.spec_mode = True
            base = eng.eval(base_ast, fr)
        finally:
            eng.spec_mode = saved
        if isinstance(base, SV) and isinstance(base.sort, Opt):
            base = base.t[1]
        if not (isinstance(base, SV) and isinstance(base.sort, Ref)):
            ws.coarse_attrs.add(attr)
            continue
        fi = eng.field_info(base.sort.cls, attr)
        if fi is None:
            if eng.repo.lookup_setter(base.sort.cls, attr):
                ws.coarse_attrs.add("_" + attr)
                continue
            raise EngineLimit("loop writes unknown field %s.%s" % (base.sort.cls, attr))
        owner, fs = fi
        key = (owner, attr, base.t.get_id() if hasattr(base.t, "get_id") else base.t)
        if key in done:
            continue
        done.add(key)
        eng.havoc_field_at(base.t, owner, attr, fs, "L%d" % ordinal)
    for attr in ws.coarse_attrs:
        for owner, fs in eng.spec.fields_named(attr):
            eng.havoc_field_all(owner, attr, fs, "L%d" % ordinal)
    if ws.coarse_lists:
        for k in list(p.heap):
            if k[0] == "$List":
                arr = p.heap[k]
                p.heap[k] = z3.Const(fresh_name("L%d_%s" % (ordinal, "_".join(str(x) for x in k[1:]))), arr.sort())
                if k[-2] == "len":
                    eng.assume_lens_nonneg(p.heap[k])
        p.ghost["coarse_list_havoc"] = True
    else:
        for lst_ast in ws.fine_lists:
            saved = eng.spec_mode
            eng.spec_mode = True
            try:
                lv = eng.eval(lst_ast, fr)
            finally:
                eng.spec_mode = saved
            if isinstance(lv, SV) and isinstance(lv.sort, Opt):
                lv = lv.t[1]
            if isinstance(lv, PyVal):
                raise EngineLimit("loop mutates a python-level list %s: declare local(...) sort in the contract" % ast.dump(lst_ast)[:60])
            if isinstance(lv.sort, ListOf):
                elem = lv.sort.elem
                n = z3.Int(fresh_name("L%d_len" % ordinal))
                p.assume(n >= 0, check=False)
                arrs = [z3.Const(fresh_name("L%d_items" % ordinal), z3.ArraySort(z3.IntSort(), zs)) for zs in z3sorts(elem)]
                eng.list_set_all(lv.t, elem, n, arrs)
            elif isinstance(lv.sort, MapOf):
                from . import containers as ct

                ct.map_havoc(eng, lv, "L%d" % ordinal)
            elif isinstance(lv.sort, Ref):
                # record / struct subscript stores: havoc all fields of that object
                for fname, (owner, fs) in eng.spec.all_fields(eng.repo, lv.sort.cls).items():
                    eng.havoc_field_at(lv.t, owner, fname, fs, "L%d" % ordinal)
            else:
                raise EngineLimit("loop mutates %s" % lv.sort)
    if ws.coarse_maps:
        from . import containers as ct

        ct.maps_havoc_all(eng, "L%d" % ordinal)


def havoc_locals(eng, fr, names, ordinal, declared):
    for nm in sorted(names):
        if nm in declared:
            fr.locals[nm] = fresh_value(declared[nm], "L%d_%s" % (ordinal, nm))
            eng.wf_assume(fr.locals[nm])
            continue
        cur = fr.locals.get(nm)
        if cur is None:
            continue
        if isinstance(cur, PyVal):
            if cur.kind in ("list", "set", "dictlit", "tuple") or cur.kind == "repeat":
                raise EngineLimit("loop assigns python-level container %s: declare local(%s=...) in the contract" % (nm, nm))
            fr.locals.pop(nm)
            continue
        s = cur.sort
        if s == NONE:
            fr.locals.pop(nm)  # becomes unknown: must be declared to be used
            continue
        if s == INT and isinstance(cur.t, (int, bool)):
            s = INT
        fr.locals[nm] = fresh_value(s, "L%d_%s" % (ordinal, nm))
        eng.wf_assume(fr.locals[nm])


def check_invariants(eng, c, ordinal, fr, kind, line):
    invs = c.invariants.get(ordinal, []) if c else []
    from . import contracts as C

    for label, node in invs:
        g = C.eval_clause(eng, c, node, fr, fr.spec_frame_extra())
        eng.oblige("%s/loop%d:%s:%s" % (eng.cur_short, ordinal, kind, label), zb(g), "loop-" + kind, line)


def assume_invariants(eng, c, ordinal, fr):
    invs = c.invariants.get(ordinal, []) if c else []
    from . import contracts as C

    for label, node in invs:
        g = C.eval_clause(eng, c, node, fr, fr.spec_frame_extra())
        eng.path.assume(zb(g), check=False)
    # one feasibility check for the lot
    if eng.prune and eng.path.solver.check() == z3.unsat:
        raise E.Infeasible()


def symbolic_for(eng, st, fr, it, ordinal):
    c = fr.contract if eng.depth == 0 or fr.contract is not None else None
    c = fr.contract
    if c is None or ordinal not in c.invariants:
        raise EngineLimit("loop %d at line %d iterates a symbolic sequence and has no invariant" % (ordinal, st.lineno))
    p = eng.path
    src = make_iter_source(eng, it, st.lineno)
    assigned = bm.assigned_names(st.body) | bm.assigned_names([ast.Assign(targets=[st.target], value=ast.Constant(0), lineno=st.lineno)])
    ivar = "_i%d" % ordinal
    n = src.length()
    fr.locals["_n%d" % ordinal] = SV(INT, n)
    # establish
    fr.locals[ivar] = SV(INT, 0)
    fr.locals["_i"] = fr.locals[ivar]
    check_invariants(eng, c, ordinal, fr, "init", st.lineno)
    # havoc
    ws = WriteSet()
    collect_writes(eng, st.body, fr, assigned, ws)
    src.protect(ws)
    havoc_writes(eng, ws, fr, ordinal)
    havoc_locals(eng, fr, assigned - {ivar}, ordinal, c.local_sorts)
    i = z3.Int(fresh_name("L%d_i" % ordinal))
    fr.locals[ivar] = SV(INT, i)
    fr.locals["_i"] = fr.locals[ivar]
    p.assume(z3.And(i >= 0, i <= n), check=False)
    assume_invariants(eng, c, ordinal, fr)
    ch = p.choose(2, "loop%d" % ordinal)
    if ch == 0:
        # one arbitrary iteration
        p.assume(i < n)
        x = src.element(i)
        eng.assign(st.target, x, fr, st.lineno)
        try:
            eng.exec_block(st.body, fr)
        except E.ContinueEx:
            pass
        except E.BreakEx:
            # leave the loop from here: continue after it with the break-state
            fr.locals.pop("_i", None)
            return
        src.check_unchanged(n, st.lineno)
        fr.locals[ivar] = SV(INT, i + 1)
        fr.locals["_i"] = fr.locals[ivar]
        check_invariants(eng, c, ordinal, fr, "preserve", st.lineno)
        raise E.PathEnd()
    # exit: i == n
    p.assume(i == n)
    if st.orelse:
        eng.exec_block(st.orelse, fr)


def symbolic_while(eng, st, fr, ordinal):
    c = fr.contract
    if c is None or ordinal not in c.invariants:
        # try bounded concrete execution (conditions decided concretely, e.g. constant loops)
        for _ in range(2000):
            t = eng.truth(eng.eval(st.test, fr))
            if not isinstance(t, bool):
                raise EngineLimit("while loop %d at line %d needs an invariant" % (ordinal, st.lineno))
            if not t:
                return
            try:
                eng.exec_block(st.body, fr)
            except E.BreakEx:
                return
            except E.ContinueEx:
                continue
        raise EngineLimit("while loop did not terminate concretely")
    p = eng.path
    assigned = bm.assigned_names(st.body)
    check_invariants(eng, c, ordinal, fr, "init", st.lineno)
    ws = WriteSet()
    collect_writes(eng, st.body, fr, assigned, ws)
    havoc_writes(eng, ws, fr, ordinal)
    havoc_locals(eng, fr, assigned, ordinal, c.local_sorts)
    assume_invariants(eng, c, ordinal, fr)
    dec = c.decreases.get(ordinal)
    from . import contracts as C

    d0 = C.eval_clause(eng, c, dec, fr, fr.spec_frame_extra(), as_bool=False) if dec is not None else None
    t = eng.truth(eng.eval(st.test, fr))
    if eng.branch(t, "while%d" % ordinal):
        try:
            eng.exec_block(st.body, fr)
        except E.ContinueEx:
            pass
        except E.BreakEx:
            return
        check_invariants(eng, c, ordinal, fr, "preserve", st.lineno)
        if d0 is not None:
            d1 = C.eval_clause(eng, c, dec, fr, fr.spec_frame_extra(), as_bool=False)
            eng.oblige("%s/loop%d:decreases" % (eng.cur_short, ordinal), z3.And(zreal(d0.t) >= 0, zreal(d1.t) <= zreal(d0.t) - 1) if d0.sort == INT else z3.And(zreal(d0.t) >= 0, zreal(d1.t) < zreal(d0.t)), "loop-decreases", st.lineno)
        raise E.PathEnd()
    if st.orelse:
        eng.exec_block(st.orelse, fr)


# --------------------------------------------------------------------------- iteration sources
class ListSource:
    def __init__(self, eng, lv):
        self.eng = eng
        self.lv = lv
        self.elem = lv.sort.elem
        self.n0 = eng.list_len(lv.t, self.elem)
        self.items0 = eng.list_items(lv.t, self.elem)

    def length(self):
        return self.n0

    def element(self, i):
        # python iterates the live list; we require (and check) that it is not changed by the body
        v = unflatten(self.elem, [z3.Select(a, i) for a in self.items0])
        self.eng.wf_assume(v)
        return v

    def protect(self, ws):
        pass

    def check_unchanged(self, n, line):
        eng = self.eng
        cur = eng.list_len(self.lv.t, self.elem)
        eng.oblige("%s/iterated-list-not-resized@%d" % (eng.cur_short, line), cur == self.n0, "safety", line)


class RangeSource:
    def __init__(self, eng, args):
        self.eng = eng
        a = [zr(x.t) for x in args]
        if len(a) == 1:
            self.lo, self.hi, self.step = z3.IntVal(0), a[0], z3.IntVal(1)
        elif len(a) == 2:
            self.lo, self.hi, self.step = a[0], a[1], z3.IntVal(1)
        else:
            self.lo, self.hi, self.step = a
            if eng.path.feasible_with(self.step <= 0):
                raise EngineLimit("range with possibly non-positive step")

    def length(self):
        d = self.hi - self.lo
        return z3.If(d <= 0, 0, (d + self.step - 1) / self.step)

    def element(self, i):
        return SV(INT, self.lo + i * self.step)

    def protect(self, ws):
        pass

    def check_unchanged(self, n, line):
        pass


class ZipSource:
    def __init__(self, eng, parts):
        self.eng = eng
        self.parts = parts

    def length(self):
        n = self.parts[0].length()
        for p in self.parts[1:]:
            m = p.length()
            n = z3.If(m < n, m, n)
        return n

    def element(self, i):
        return bm.make_tuple([p.element(i) for p in self.parts])

    def protect(self, ws):
        pass

    def check_unchanged(self, n, line):
        for p in self.parts:
            p.check_unchanged(n, line)


class EnumSource:
    def __init__(self, eng, inner):
        self.inner = inner

    def length(self):
        return self.inner.length()

    def element(self, i):
        return bm.make_tuple([SV(INT, i), self.inner.element(i)])

    def protect(self, ws):
        pass

    def check_unchanged(self, n, line):
        self.inner.check_unchanged(n, line)


def make_iter_source(eng, it, line):
    if isinstance(it, PyVal) and it.kind == "iter":
        it = it.of
    if isinstance(it, SV) and isinstance(it.sort, Opt):
        it = eng.deref(it, "TypeError", line)
    if isinstance(it, SV) and isinstance(it.sort, ListOf):
        return ListSource(eng, it)
    if isinstance(it, PyVal) and it.kind in ("list", "tuple"):
        # concrete list inside a zip with symbolic partner
        elem = None
        raise EngineLimit("mixed concrete/symbolic iteration")
    if isinstance(it, PyVal) and it.kind == "range":
        return RangeSource(eng, it.args)
    if isinstance(it, PyVal) and it.kind == "zip":
        return ZipSource(eng, [make_iter_source(eng, p, line) for p in it.parts])
    if isinstance(it, PyVal) and it.kind == "enumerate":
        return EnumSource(eng, make_iter_source(eng, it.of, line))
    if isinstance(it, PyVal) and it.kind == "mapview":
        from . import containers as ct

        return ct.MapViewSource(eng, it)
    if isinstance(it, SV) and isinstance(it.sort, MapOf):
        from . import containers as ct

        return ct.MapViewSource(eng, PyVal("mapview", of=it, what="keys"))
    if isinstance(it, SV) and isinstance(it.sort, Ref):
        # object with __iter__ returning iter(list(...)): inline it
        mem = eng.repo.lookup_member(it.sort.cls, "__iter__")
        if mem:
            kind, ci, n = mem
            r = eng.call_function(ci.module, ci, n, [it], {}, line, "%s::%s.__iter__" % (ci.module.relpath, ci.name))
            return make_iter_source(eng, r, line)
    raise EngineLimit("iteration over %s (line %s)" % (it, line))
