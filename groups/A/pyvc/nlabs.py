"""Non-linear abstraction pre-pass (sound for proving, never used to report a violation).

Every product of two or more non-numeral factors and every quotient by a non-numeral divisor that occurs in a
verification condition (outside quantifier bodies) is replaced by an application of an uninterpreted function
NLMUL / NLDIV, and true facts of real (integer) multiplication are added for each application (zero, sign,
monotonicity in a shared factor, quotient * divisor == dividend).  Reading NLMUL as multiplication satisfies
every added fact, so  abstract VC unsat  ==>  exact VC unsat.  A 'sat' / 'unknown' of the abstraction proves nothing:
the exact VC is then discharged as before.

Why: z3 5.1 / 4.8 and cvc5 time out on small VCs that mix arrays, uninterpreted sums and two or three symbolic
products although only the sign of a product (or nothing at all about it) is needed - measured on
SimulatedOrder._update_matched (linear part 0.01 s, with the products > 30 s in all three solvers).
"""
import z3

_MULR = z3.Function("NLMUL", z3.RealSort(), z3.RealSort(), z3.RealSort())
_MULI = z3.Function("NLMULI", z3.IntSort(), z3.IntSort(), z3.IntSort())
_DIVR = z3.Function("NLDIV", z3.RealSort(), z3.RealSort(), z3.RealSort())


def _isnum(c):
    return z3.is_rational_value(c) or z3.is_int_value(c) or z3.is_algebraic_value(c)


class Abstraction:
    def __init__(self):
        self.cache = {}
        self.keep = []  # keep original terms alive (ids are only unique among live terms)
        self.muls = {}  # id of app -> (app, x, y)
        self.divs = {}

    def mul(self, x, y):
        if x.get_id() > y.get_id():
            x, y = y, x
        if z3.is_int(x) and z3.is_int(y):
            m = _MULI(x, y)
        else:
            if z3.is_int(x):
                x = z3.ToReal(x)
            if z3.is_int(y):
                y = z3.ToReal(y)
            m = _MULR(x, y)
        self.muls.setdefault(m.get_id(), (m, x, y))
        return m

    def term(self, t):
        """post-order rewrite with an explicit stack"""
        cache = self.cache
        stack = [(t, False)]
        while stack:
            u, done = stack.pop()
            k = u.get_id()
            if k in cache:
                continue
            if z3.is_quantifier(u) or z3.is_var(u) or not z3.is_app(u) or u.num_args() == 0:
                cache[k] = u
                self.keep.append(u)
                continue
            if not done:
                stack.append((u, True))
                for c in u.children():
                    if c.get_id() not in cache:
                        stack.append((c, False))
                continue
            ch = [cache[c.get_id()] for c in u.children()]
            kind = u.decl().kind()
            r = None
            if kind == z3.Z3_OP_MUL:
                nonconst = [c for c in ch if not _isnum(c)]
                if len(nonconst) >= 2:
                    acc = nonconst[0]
                    for c in nonconst[1:]:
                        acc = self.mul(acc, c)
                    consts = [c for c in ch if _isnum(c)]
                    if consts:
                        if z3.is_real(u) and z3.is_int(acc):
                            acc = z3.ToReal(acc)
                        r = z3.Product(*(consts + [acc]))
                    else:
                        r = acc
                    if z3.is_real(u) and z3.is_int(r):
                        r = z3.ToReal(r)
            elif kind == z3.Z3_OP_DIV and z3.is_real(u) and not _isnum(ch[1]):
                r = _DIVR(ch[0], ch[1])
                self.divs.setdefault(r.get_id(), (r, ch[0], ch[1]))
            if r is None:
                same = all(a.get_id() == b.get_id() for a, b in zip(ch, u.children()))
                r = u if same else u.decl()(*ch)
            cache[k] = r
            self.keep.append(u)
        return cache[t.get_id()]

    def lemmas(self):
        out = []
        # quotients first: they introduce products
        for q, x, y in list(self.divs.values()):
            out.append(z3.Implies(y != 0, self.mul(q, y) == x))
            out.append(z3.Implies(z3.And(x == 0, y != 0), q == 0))
            out.append(z3.Implies(z3.Or(z3.And(x > 0, y > 0), z3.And(x < 0, y < 0)), q > 0))
            out.append(z3.Implies(z3.Or(z3.And(x > 0, y < 0), z3.And(x < 0, y > 0)), q < 0))
        items = list(self.muls.values())
        for m, x, y in items:
            out.append(z3.Implies(z3.Or(x == 0, y == 0), m == 0))
            out.append(z3.Implies(z3.Or(z3.And(x > 0, y > 0), z3.And(x < 0, y < 0)), m > 0))
            out.append(z3.Implies(z3.Or(z3.And(x > 0, y < 0), z3.And(x < 0, y > 0)), m < 0))
            if x.get_id() == y.get_id():
                out.append(m >= 0)
        # monotonicity / congruence in a shared factor (bounded number of pairs)
        n = 0
        for i in range(len(items)):
            for j in range(i + 1, len(items)):
                m1, x1, y1 = items[i]
                m2, x2, y2 = items[j]
                if m1.sort() != m2.sort():
                    continue
                for (a1, b1), (a2, b2) in (((x1, y1), (x2, y2)), ((x1, y1), (y2, x2)), ((y1, x1), (x2, y2)), ((y1, x1), (y2, x2))):
                    if a1.get_id() == a2.get_id():
                        n += 1
                        if n > 200:
                            return out
                        out.append(z3.Implies(b1 == b2, m1 == m2))
                        out.append(z3.Implies(z3.And(a1 > 0, b1 < b2), m1 < m2))
                        out.append(z3.Implies(z3.And(a1 > 0, b1 > b2), m1 > m2))
                        out.append(z3.Implies(z3.And(a1 < 0, b1 < b2), m1 > m2))
                        out.append(z3.Implies(z3.And(a1 < 0, b1 > b2), m1 < m2))
                        break
        return out


def abstract(formulas):
    """-> (abstracted formulas, lemmas, number of abstracted operations)"""
    ab = Abstraction()
    out = [ab.term(f) for f in formulas]
    lem = ab.lemmas()
    return out, lem, len(ab.muls) + len(ab.divs)
