"""Discharge obligations: z3 (python API) on a process pool, cvc5 / z3-4.8 CLI for what it leaves unknown."""
import multiprocessing as mp
import os
import subprocess
import tempfile
import time

import z3


def _is_read_def(a):
    return z3.is_eq(a) and z3.is_const(a.arg(0)) and a.arg(0).decl().name().startswith("rd!")


def to_smt2_abstract(ob):
    """the VC with every non-linear product / quotient abstracted (see nlabs); None when there is nothing to abstract"""
    from . import nlabs

    facts = list(ob.pc) + list(ob.extra.get("axioms", []))
    fs, lemmas, n = nlabs.abstract(facts + [ob.goal])
    if n == 0:
        return None
    s = z3.Solver()
    defs = [a for a in fs[:-1] if _is_read_def(a)]
    rest = [a for a in fs[:-1] if not _is_read_def(a)]
    for a in rest + lemmas + [z3.Not(fs[-1])] + defs:
        s.add(a)
    return s.to_smt2()


def to_smt2(ob, order=0, alt=False):
    """order 0: purification definitions (rd!k == select ..) AFTER the arithmetic facts and the goal - z3 5.1 and
    cvc5 leave integrality goals undecided when the definitions come first (measured; see DESIGN section 9);
    order 1: as generated; order 2: reversed"""
    s = z3.Solver()
    facts = list(ob.pc) + list(ob.extra.get("axioms", []))
    goal = z3.Not(ob.extra["alt_goal"] if alt else ob.goal)
    if order == 0:
        defs = [a for a in facts if _is_read_def(a)]
        rest = [a for a in facts if not _is_read_def(a)]
        seq = rest + [goal] + defs
    elif order == 1:
        seq = facts + [goal]
    else:
        seq = [goal] + facts[::-1]
    for a in seq:
        s.add(a)
    return s.to_smt2()


def _work(job):
    name, smt, timeout_ms, want_model = job
    t0 = time.time()
    try:
        s = z3.Solver()
        s.set("timeout", timeout_ms)
        s.from_string(smt)
        r = s.check()
        verdict = str(r)
        model = None
        if r == z3.sat and want_model:
            m = s.model()
            model = {}
            for d in m.decls():
                if d.arity() == 0:
                    v = m[d]
                    if z3.is_array(v):
                        continue
                    model[d.name()] = str(v)
            # arrays of the initial heap, evaluated lazily by the replay builder through 'eval' requests
            model["__full__"] = str(m)[:20000]
        reason = s.reason_unknown() if r == z3.unknown else ""
        return dict(name=name, verdict=verdict, solver="z3-%s" % z3.get_version_string(), time=time.time() - t0, model=model, reason=reason)
    except Exception as e:  # noqa
        return dict(name=name, verdict="error", solver="z3", time=time.time() - t0, model=None, reason=repr(e))


def cli_fallback(smt, timeout_s):
    """try cvc5 then /usr/bin/z3 on the SMT-LIB text; returns (verdict, solver)"""
    with tempfile.NamedTemporaryFile("w", suffix=".smt2", delete=False, dir=os.environ.get("PYVC_TMP", None)) as f:
        f.write("(set-logic ALL)\n" + smt + "\n")
        path = f.name
    try:
        for cmd, nm in (
            (["/usr/bin/cvc5", "--tlimit=%d" % int(timeout_s * 1000), path], "cvc5-1.0.3"),
            (["/usr/bin/z3", "-T:%d" % int(timeout_s), path], "z3-4.8.12"),
        ):
            try:
                out = subprocess.run(cmd, capture_output=True, text=True, timeout=timeout_s + 5).stdout.strip().splitlines()
            except Exception:
                continue
            if out and out[0] in ("sat", "unsat"):
                return out[0], nm
        return "unknown", None
    finally:
        os.unlink(path)


_SHARED = {}  # obligations handed to the forked workers by inheritance (no SMT-LIB printing / parsing on the common path)


def _assertions(ob, order=0, alt=False, abstract=False):
    """the assertion sequence of one VC (see to_smt2 for the orders); abstract: non-linear abstraction (nlabs)"""
    facts = list(ob.pc) + list(ob.extra.get("axioms", []))
    goal = ob.extra["alt_goal"] if alt else ob.goal
    lemmas = []
    if abstract:
        from . import nlabs

        fs, lemmas, n = nlabs.abstract(facts + [goal])
        if n == 0:
            return None
        facts, goal = fs[:-1], fs[-1]
    neg = z3.Not(goal)
    if order == 0:
        defs = [a for a in facts if _is_read_def(a)]
        rest = [a for a in facts if not _is_read_def(a)]
        return rest + lemmas + [neg] + defs
    if order == 1:
        return facts + lemmas + [neg]
    return [neg] + (facts + lemmas)[::-1]


def _work_mem(job):
    idx, order, alt, abstract, timeout_ms, want_model = job
    ob = _SHARED["obls"][idx]
    t0 = time.time()
    try:
        seq = _assertions(ob, order, alt, abstract)
        if seq is None:
            return dict(name=str(idx), verdict="skip", solver="", time=0.0, model=None, reason="")
        s = z3.Solver()
        s.set("timeout", timeout_ms)
        for a in seq:
            s.add(a)
        r = s.check()
        model = None
        if r == z3.sat and want_model:
            m = s.model()
            model = {}
            for d in m.decls():
                if d.arity() == 0:
                    v = m[d]
                    if z3.is_array(v):
                        continue
                    model[d.name()] = str(v)
            model["__full__"] = str(m)[:20000]
        reason = s.reason_unknown() if r == z3.unknown else ""
        return dict(name=str(idx), verdict=str(r), solver="z3-%s" % z3.get_version_string(), time=time.time() - t0, model=model, reason=reason)
    except Exception as e:  # noqa
        return dict(name=str(idx), verdict="error", solver="z3", time=time.time() - t0, model=None, reason=repr(e))


def _work_mem_tagged(job):
    flags = _SHARED.get("decided")
    if flags is not None and flags[job[0]]:
        return job, dict(name=str(job[0]), verdict="skip", solver="", time=0.0, model=None, reason="already decided by another formulation")
    return job, _work_mem(job)


def _discharge_base(obls, timeout_ms=20000, jobs=None, fallback=True):
    """every obligation: (1) non-linear abstraction (sound for 'unsat' only), (2) the exact VC, (3) an equivalent goal
    formulation / other assertion orders, (4) cvc5 / z3-4.8 on the SMT-LIB text.  Steps 1-3 run in forked workers that
    inherit the obligations (z3 terms) from this process."""
    jobs = jobs or int(os.environ.get("PYVC_JOBS", min(16, os.cpu_count() or 4)))
    if not obls:
        return []
    ctx = mp.get_context("fork")
    _SHARED["obls"] = obls

    def run(js):
        if not js:
            return []
        with ctx.Pool(jobs) as pool:
            return pool.map(_work_mem, js, chunksize=1)

    n = len(obls)
    results = [None] * n
    quick = min(timeout_ms, int(os.environ.get("PYVC_QUICK_MS", "2500")))
    # (1) the exact VC with a short budget: most obligations are decided in a fraction of a second
    first = [(i, 0, False, False, min(timeout_ms, 3000) if ob.kind == "canary" else quick, ob.kind != "canary") for i, ob in enumerate(obls)]
    for job, r1 in zip(first, run(first)):
        results[job[0]] = r1
    open_ = [i for i, (ob, r) in enumerate(zip(obls, results)) if r["verdict"] in ("unknown", "error") and ob.kind != "canary"]
    # (2) what stayed open: all the alternatives side by side - the non-linear abstraction (sound for 'unsat' only), an equivalent
    #     formulation of the goal, the other assertion orders (solver heuristics are order sensitive), the full budget
    jobs2 = []
    if os.environ.get("PYVC_NLABS", "1") != "0":
        jobs2 += [(i, 0, False, True, timeout_ms, False) for i in open_]
    jobs2 += [(i, 0, True, False, timeout_ms, True) for i in open_ if obls[i].extra.get("alt_goal") is not None]
    for order in (1, 2):
        jobs2 += [(i, order, False, False, timeout_ms, True) for i in open_]
    # the cheap alternatives first, the full-budget repeat of the first attempt last; the pool is stopped as soon as every open
    # obligation has a definite answer (the alternatives of an obligation that is already decided are not waited for)
    if quick < timeout_ms:
        jobs2 += [(i, 0, False, False, timeout_ms, True) for i in open_]
    if jobs2:
        pending = set(open_)
        flags = _SHARED["decided"] = ctx.Array("b", len(obls), lock=False)  # read by the workers: skip what is decided
        with ctx.Pool(jobs) as pool:
            for job, r2 in pool.imap_unordered(_work_mem_tagged, jobs2, chunksize=1):
                i, order, alt, abstract = job[:4]
                cur = results[i]["verdict"]
                if r2["verdict"] == "unsat" and cur != "unsat":
                    r2["solver"] += " (nl-abstraction)" if abstract else (" (reformulated)" if (alt or order) else "")
                    results[i] = r2
                    pending.discard(i)
                    flags[i] = 1
                elif r2["verdict"] == "sat" and not abstract and cur in ("unknown", "error"):
                    r2["solver"] += " (reformulated)" if (alt or order) else ""
                    results[i] = r2
                    pending.discard(i)
                    flags[i] = 1
                if not pending:
                    pool.terminate()
                    break
    out = []
    for ob, r in zip(obls, results):
        if r["verdict"] in ("unknown", "error") and fallback and ob.kind != "canary":
            v, nm = cli_fallback(to_smt2(ob), timeout_ms / 1000.0)
            if v in ("sat", "unsat"):
                r = dict(r, verdict=v, solver=nm)
        r["obligation"] = ob
        out.append(r)
    _SHARED.pop("obls", None)
    _SHARED.pop("decided", None)
    return out


def discharge(obls, timeout_ms=20000, jobs=None, fallback=True):
    """all stages of _discharge_base, then the seed/order portfolio (pyvc/portfolio.py) on what is still unknown"""
    from . import portfolio

    out = _discharge_base(obls, timeout_ms, jobs, fallback)
    return portfolio.rescue(out, to_smt2, timeout_ms, jobs) if fallback else out
