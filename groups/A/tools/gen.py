"""developer tool: profile VC generation of one contract"""
import sys,time; ROOT=__import__('os').path.dirname(__import__('os').path.dirname(__import__('os').path.abspath(__file__))); sys.path.insert(0,ROOT)
from pyvc.repo import Repo; from pyvc.engine import Engine; from pyvc.contracts import Spec, verify_function; from pyvc import solve
import os, cProfile, pstats
repo=Repo(os.environ.get('REPO','/repo')); spec=Spec(); spec.load_dir(ROOT+'/contracts',{'PRICES':[1],'BETDAQ_PRICES':[1]})
eng=Engine(repo,spec)
c=spec.contracts[sys.argv[1]]
t=time.time()
pr=cProfile.Profile(); pr.enable()
r=verify_function(eng,c,max_paths=int(os.environ.get('MAXP','40')))
pr.disable()
print(r.status,r.limit,r.paths,len(r.obligations),round(time.time()-t,1))
pstats.Stats(pr).sort_stats('cumulative').print_stats(18)
