"""developer tool: print the counter-model (scalar part) of the first 'sat' obligation matching argv[2] of contract argv[1]"""
import sys,time,os,subprocess; ROOT=os.path.dirname(os.path.dirname(os.path.abspath(__file__))); sys.path.insert(0,ROOT)
import z3
from pyvc.repo import Repo; from pyvc.engine import Engine; from pyvc.contracts import Spec, verify_function; from pyvc import solve
repo=Repo(os.environ.get('REPO','/repo')); spec=Spec(); spec.load_dir(ROOT+'/contracts',{'PRICES':[1],'BETDAQ_PRICES':[1]})
eng=Engine(repo,spec)
c=spec.contracts[sys.argv[1]]
r=verify_function(eng,c)
print(r.status, r.limit, r.paths, len(r.obligations))
obs=[o for o in r.obligations if o.kind!='canary' and sys.argv[2] in o.name]
for ob in obs:
    s=z3.Solver(); s.set('timeout',int(os.environ.get('TO','20000')))
    s.from_string(solve.to_smt2(ob))
    t=time.time(); v=s.check()
    print(ob.name, ob.path, v, round(time.time()-t,1), ob.extra['labels'][-8:])
    if v==z3.sat:
        m=s.model()
        for d in sorted(m.decls(), key=lambda d:d.name()):
            if d.arity()==0 and not z3.is_array(m[d]): print('   ',d.name(),'=',m[d])
        if os.environ.get('FULL'): print(m)
        break
