"""developer tool: time every obligation (z3 only) of contract argv[1] whose name contains argv[2]"""
import sys,time,os; ROOT=os.path.dirname(os.path.dirname(os.path.abspath(__file__))); sys.path.insert(0,ROOT)
import z3
from pyvc.repo import Repo; from pyvc.engine import Engine; from pyvc.contracts import Spec, verify_function; from pyvc import solve
repo=Repo(os.environ.get('REPO','/repo')); spec=Spec(); spec.load_dir(ROOT+'/contracts',{'PRICES':[1],'BETDAQ_PRICES':[1]})
eng=Engine(repo,spec)
if os.environ.get('PATHPREFIX'):
    # explore only the paths that extend the given decision prefix (as printed in [..] by this tool)
    from pyvc import engine as _E
    _pre=[int(x) for x in os.environ['PATHPREFIX'].split('.')]
    def _explore(run, max_paths=4000, _pre=_pre):
        from pyvc.values import _fresh_counter
        stack=[list(_pre)]; results=[]
        while stack:
            prefix=stack.pop(); _fresh_counter[0]=0
            p=_E.Path(prefix, eng); eng.path=p; status='done'
            try: run(p)
            except _E.Infeasible: status='infeasible'
            except _E.PathEnd: status='end'
            for i in range(max(len(prefix),len(_pre)), len(p.taken)):
                c,n=p.taken[i]
                for alt in range(c+1,n): stack.append([t[0] for t in p.taken[:i]]+[alt])
            results.append((p,status))
        return results
    eng.explore=_explore
c=spec.contracts[sys.argv[1]]
t=time.time(); r=verify_function(eng,c)
print(r.status, r.limit, 'paths',r.paths, 'obls',len(r.obligations), 'gen %.1fs'%(time.time()-t))
pat=sys.argv[2] if len(sys.argv)>2 else ''
obs=[o for o in r.obligations if pat in o.name and (o.kind!='canary' or os.environ.get('CANARY'))]
res=solve.discharge(obs,int(os.environ.get('TO','10000')),fallback=bool(os.environ.get('FB')))
for x in res:
    ob=x['obligation']
    if x['verdict']!='unsat' or os.environ.get('ALL'):
        print('%-8s %5.1fs %s [%s] %s %s'%(x['verdict'],x['time'],ob.name,ob.path,ob.extra['labels'][-5:],x['solver'][9:]))
print('total',len(res),'not-unsat',sum(1 for x in res if x['verdict']!='unsat'),'max %.1fs'%max([x['time'] for x in res] or [0]))
