"""developer tool: count paths / obligations of a contract (no solving) and show the branch labels that multiply"""
import sys,time,os; ROOT=os.path.dirname(os.path.dirname(os.path.abspath(__file__))); sys.path.insert(0,ROOT)
from collections import Counter
from pyvc.repo import Repo; from pyvc.engine import Engine; from pyvc.contracts import Spec, verify_function
repo=Repo(os.environ.get('REPO','/repo')); spec=Spec(); spec.load_dir(ROOT+'/contracts',{'PRICES':[1],'BETDAQ_PRICES':[1]})
eng=Engine(repo,spec)
c=spec.contracts[sys.argv[1]]
if os.environ.get('NOENS'): c.ensures=[]
t=time.time(); r=verify_function(eng,c,max_paths=int(os.environ.get('MAXP','100000')))
print(r.status, r.limit, 'paths',r.paths,'obls',len(r.obligations),'%.1fs'%(time.time()-t))
cnt=Counter()
for o in r.obligations:
    if o.kind=='canary':
        for l in o.extra['labels']: cnt[l.split('=')[0]]+=1
for k,v in cnt.most_common(40): print(v,k)
