"""developer tool: print pc / axioms / goal of the first obligation matching argv[2]"""
import sys,time,os; ROOT=os.path.dirname(os.path.dirname(os.path.abspath(__file__))); sys.path.insert(0,ROOT)
import z3
from pyvc.repo import Repo; from pyvc.engine import Engine; from pyvc.contracts import Spec, verify_function; from pyvc import solve
repo=Repo(os.environ.get('REPO','/repo')); spec=Spec(); spec.load_dir(ROOT+'/contracts',{'PRICES':[1],'BETDAQ_PRICES':[1]})
eng=Engine(repo,spec)
c=spec.contracts[sys.argv[1]]
r=verify_function(eng,c)
z3.set_option(max_args=10000000, max_lines=1000000, max_depth=10000000, max_visited=1000000)
for ob in r.obligations:
    if sys.argv[2] in ob.name and (len(sys.argv)<4 or ob.path==sys.argv[3]):
        print(ob.name, ob.path, ob.extra['labels'])
        for a in ob.pc: print('PC ', a)
        for a in ob.extra.get('axioms',[]): print('AX ', a)
        print('GOAL', ob.goal)
        break
