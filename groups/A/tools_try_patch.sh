#!/bin/sh
# usage: tools_try_patch.sh Cxx patchfile [check-id...]   : apply a seeded patch in its scratch worktree /tmp/seed/Cxx and run checks against it
HERE="$(cd "$(dirname "$0")" && pwd)"
P=$1; PATCH=$2; shift 2
WT=/tmp/seed/$P
cd $WT && git checkout -q -- flumine && git apply $PATCH || exit 9
cd $HERE
for c in "$@"; do ./check $c --repo $WT --no-evidence -v 2>&1 | tail -12; done
cd $WT && git checkout -q -- flumine
