"""C02 (ii) - accepted requests are packaged exactly once: utils.chunks, BaseOrderPackage.__init__, Transaction._create_order_package.

Every package holds at most the per-call limit, only orders that were queued with ONE market version, in request order, and the
queue is empty afterwards (property statement).  The per-call limits are external data (betfairlightweight.metadata.order_limits).
"""


def ceil_div(a, n):
    return (a + n - 1) // n


@contract("flumine/utils.py::chunks", tags=["C02"], fresh_result=True)
def _(l: ListOf(Ref("BaseOrder")), n: INT) -> ListOf(ListOf(Ref("BaseOrder"))):
    """generator, verified as the list of its yields.  Stated without products under quantifiers (chunk c starts at c*n; the
    solvers do not manage that form): sizes, membership with position, and the running total."""
    requires("positive_chunk_size", n > 0)
    invariant(0, "one_chunk_per_step", len(_yield) == _i0)
    invariant(0, "chunks_exist", forall(lambda c: allocated(_yield[c]), 0, len(_yield)))
    invariant(0, "sizes_so_far", forall(lambda c: 1 <= len(_yield[c]) and len(_yield[c]) <= n, 0, len(_yield)))
    invariant(0, "members_so_far", forall_int(lambda c, t: implies(0 <= c and c < len(_yield) and 0 <= t and t < len(_yield[c]),
                                                                  exists(lambda u: _yield[c][t] == l[u], 0, len(l)))))
    invariant(0, "exact_sizes_so_far", forall(lambda c: len(_yield[c]) == (n if (c + 1) * n <= len(l) else len(l) - c * n), 0, len(_yield)))
    invariant(0, "contents_so_far", forall_int(lambda c, t: implies(0 <= c and c < len(_yield) and 0 <= t and t < len(_yield[c]), _yield[c][t] == l[c * n + t])))
    ensures("position_u_is_in_chunk_u_div_n", forall(lambda u: u // n < len(result) and u % n < len(result[u // n]) and result[u // n][u % n] == l[u], 0, len(l)))
    ensures("at_most_n_and_not_empty", forall(lambda c: 1 <= len(result[c]) and len(result[c]) <= n, 0, len(result)))
    ensures("only_elements_of_the_input", forall_int(lambda c, t: implies(0 <= c and c < len(result) and 0 <= t and t < len(result[c]),
                                                                         exists(lambda u: result[c][t] == l[u], 0, len(l)))))
    ensures("chunk_c_holds_the_elements_from_c_times_n", forall_int(lambda c, t: implies(0 <= c and c < len(result) and 0 <= t and t < len(result[c]), result[c][t] == l[c * n + t])))
    ensures("exact_sizes", forall(lambda c: len(result[c]) == (n if (c + 1) * n <= len(l) else len(l) - c * n), 0, len(result)))
    ensures("number_of_chunks", (len(result) - 1) * n < len(l) and len(l) <= len(result) * n or (len(l) == 0 and len(result) == 0))


# ----------------------------------------------------------------------------- packages
inline("flumine/order/orderpackage.py::BaseOrderPackage.calc_simulated_delay")
schema("Transaction", market=Ref("Market"), _client=Ref("BaseClient"), _id=INT, _async_place_orders=BOOL, _pending_orders=BOOL,
       _pending_place=ListOf(Tup(Ref("BaseOrder"), Opt(INT))), _pending_cancel=ListOf(Tup(Ref("BaseOrder"), Opt(INT))),
       _pending_update=ListOf(Tup(Ref("BaseOrder"), Opt(INT))), _pending_replace=ListOf(Tup(Ref("BaseOrder"), Opt(INT))))


@external("uuid.uuid4", tags=["C19"])
def _() -> ATOM:
    pass


@contract("flumine/order/orderpackage.py::BaseOrderPackage.__init__", tags=["C02"])
def _(self, client: Ref("BaseClient"), market_id: ATOM, orders: ListOf(Ref("BaseOrder")), package_type: ATOM, bet_delay: REAL,
      async_: BOOL = False, market_version: Opt(INT) = None):
    modifies(self, "*")
    ensures("holds_what_it_was_given", self._orders is orders and self.package_type == package_type and self.client == client
            and self.market_id == market_id and self._market_version == market_version and self.async_ == async_ and self.bet_delay == bet_delay)
    ensures("retry_state", self._retry and self._retry_count == 0 and self._max_retries == 3 and not self.processed)


# per-call instruction limits: betfairlightweight.metadata.order_limits is an external constant table (A7); its values
# {'placeOrders': 200, 'cancelOrders': 60, 'updateOrders': 60, 'replaceOrders': 60} were read natively (betfairlightweight as installed)
def betfair_limit(t):
    return 200 if t == OrderPackageType.PLACE else 60


def betdaq_limit(t):
    return 50 if t == OrderPackageType.UPDATE else 10


def exchange_limit(exchange, t):
    return betdaq_limit(t) if exchange == ExchangeType.BETDAQ else betfair_limit(t)


@contract("flumine/order/orderpackage.py::BetfairOrderPackage.order_limit", tags=["C02"])
def _(cls: ATOM, package_type: ATOM) -> Opt(INT):
    trusted("reads betfairlightweight.metadata.order_limits (external table): 200 / 60 / 60 / 60")
    ensures("the_exchange_limit", implies(known_package_type(package_type), result == betfair_limit(package_type)))


@contract("flumine/order/orderpackage.py::BetdaqOrderPackage.order_limit", tags=["C02"])
def _(cls: ATOM, package_type: ATOM) -> Opt(INT):
    ensures("the_exchange_limit", implies(package_type == OrderPackageType.PLACE or package_type == OrderPackageType.CANCEL or package_type == OrderPackageType.UPDATE,
                                          result == betdaq_limit(package_type)))
    ensures("no_replace_on_betdaq", implies(package_type == OrderPackageType.REPLACE, result is None))


def package_ok(p, queue, n_queue, client, market_id, package_type, limit):
    """p is a package of the kind for the client / market, holds between 1 and limit orders, each of which was queued (among the
    first n_queue requests) with exactly the package's market version"""
    return (p.package_type == package_type and p.client == client and p.market_id == market_id
            and 1 <= len(p._orders) and len(p._orders) <= limit
            and forall(lambda t: exists(lambda j: queue[j][0] == p._orders[t] and queue[j][1] == p._market_version, 0, n_queue), 0, len(p._orders)))


@contract("flumine/execution/transaction.py::Transaction._create_order_package", tags=["C02"], fresh_result=True)
def _(self, orders: ListOf(Tup(Ref("BaseOrder"), Opt(INT))), package_type: ATOM, async_: BOOL = False) -> ListOf(Ref("BaseOrderPackage")):
    requires("package_kind", known_package_type(package_type))
    requires("market_book_present", self.market.market_book is not None)
    requires("no_replace_on_betdaq", not (self._client.EXCHANGE == ExchangeType.BETDAQ and package_type == OrderPackageType.REPLACE))
    local(orders_grouped=MapOfDefault(Opt(INT), ListOf(Ref("BaseOrder"))), packages=ListOf(Ref("BaseOrderPackage")), limit=INT)
    # grouping: every grouped order was queued with the version it is filed under; groups are separate list objects
    invariant(0, "grouped_from_queue", forall_key(lambda v: forall(lambda t: exists(lambda j: orders[j][0] == orders_grouped[v][t] and orders[j][1] == v, 0, _i0),
                                                                   0, len(orders_grouped[v])), orders_grouped))
    invariant(0, "groups_separate", forall_key(lambda a: allocated(orders_grouped[a]) and is_fresh(orders_grouped[a])
                                               and forall_key(lambda b: implies(a != b, orders_grouped[a] is not orders_grouped[b]), orders_grouped), orders_grouped))
    invariant(0, "only_new_lists_grow", entry_lists_unchanged(Ref("BaseOrder")))
    # completeness: nothing queued is lost on the way into the packages
    invariant(0, "every_request_is_grouped", forall(lambda j: orders[j][1] in orders_grouped
                                                    and exists(lambda t: orders_grouped[orders[j][1]][t] == orders[j][0], 0, len(orders_grouped[orders[j][1]])), 0, _i0))
    invariant(1, "packages_so_far", forall(lambda p: allocated(packages[p]) and is_fresh(packages[p])
                                           and package_ok(packages[p], orders, len(orders), self._client, self.market.market_id, package_type, limit), 0, len(packages)))
    invariant(2, "packages_so_far", forall(lambda p: allocated(packages[p]) and is_fresh(packages[p])
                                           and package_ok(packages[p], orders, len(orders), self._client, self.market.market_id, package_type, limit), 0, len(packages)))
    invariant(1, "finished_groups_are_packaged", forall(lambda g: forall(lambda t: exists_int(lambda p, u: 0 <= p and p < len(packages) and 0 <= u and u < len(packages[p]._orders)
                                                                                                  and packages[p]._orders[u] == orders_grouped[_seq1[g]][t]
                                                                                                  and packages[p]._market_version == _seq1[g]),
                                                                         0, len(orders_grouped[_seq1[g]])), 0, _i1))
    # the chunks of the current group done so far are the last _i2 packages, in order
    invariant(2, "finished_chunks_are_the_last_packages", len(packages) >= _i2 and forall(lambda c: packages[len(packages) - _i2 + c]._orders is _seq2[c]
                                                                                          and packages[len(packages) - _i2 + c]._market_version == market_version, 0, _i2))
    raises(OrderError, when=not (self._client.EXCHANGE == ExchangeType.BETFAIR or self._client.EXCHANGE == ExchangeType.SIMULATED or self._client.EXCHANGE == ExchangeType.BETDAQ),
           iff=True, label="unknown_exchange")
    modifies_list(orders)
    ensures("queue_is_empty", len(orders) == 0)
    ensures("kind_client_market", forall(lambda p: result[p].package_type == package_type and result[p].client == self._client and result[p].market_id == self.market.market_id, 0, len(result)), export=False)
    ensures("within_the_exchange_limit", forall(lambda p: 1 <= len(result[p]._orders) and len(result[p]._orders) <= exchange_limit(self._client.EXCHANGE, package_type), 0, len(result)), export=False)
    ensures("one_market_version_per_package", forall(lambda p: forall(lambda t: exists(lambda j: old(orders[j][0]) == result[p]._orders[t] and old(orders[j][1]) == result[p]._market_version,
                                                                                      0, old(len(orders))), 0, len(result[p]._orders)), 0, len(result)), export=False)
    ensures("every_queued_request_is_in_a_package", forall(lambda j: exists_int(lambda p, u: 0 <= p and p < len(result) and 0 <= u and u < len(result[p]._orders)
                                                                                 and result[p]._orders[u] == old(orders[j][0]) and result[p]._market_version == old(orders[j][1])),
                                                           0, old(len(orders))), export=False)
