"""C02 / C03 - Transaction.place_order and what it calls (blotter insertion, runner context)."""

inline(
    "flumine/markets/blotter.py::Blotter.has_trade",
    "flumine/markets/blotter.py::Blotter.has_order",
)
schema("Trade", market_notes=Opt(ATOM))


@contract("flumine/utils.py::get_runner_book", tags=["C02"])
def _(market_book: Opt(Ref("MarketBook")), selection_id: INT, handicap: REAL = 0) -> Opt(Ref("RunnerBook")):
    requires("market_book_present", market_book is not None)
    invariant(0, "pure", True)


@contract("flumine/utils.py::get_market_notes", tags=["C02"])
def _(market: Ref("Market"), selection_id: INT) -> Opt(ATOM):
    requires("market_book_present", market.market_book is not None)


@contract("flumine/strategy/runnercontext.py::RunnerContext.place", tags=["C02"])
def _(self, trade_id: ATOM):
    modifies(self, "invested")
    modifies(self, "datetime_last_placed")
    modifies_list(self.trades)
    modifies_list(self.live_trades)
    ensures("invested", self.invested)


@contract("flumine/markets/blotter.py::Blotter.__setitem__", tags=["C15", "C02-slow"])
def _(self, customer_order_ref: ATOM, order: Ref("BaseOrder")):
    modifies(self, "active")
    modifies_map(self._orders)
    modifies_map(self._bet_id_lookup)
    modifies_map(self._trade_lookup)
    modifies_list(self._live_orders)
    modifies_map(self._trades, when=not (order.trade in self._trades))
    modifies_list(self._trades[order.trade], when=order.trade in self._trades)
    modifies_map(self._strategy_orders, when=not (order.trade.strategy in self._strategy_orders))
    modifies_list(self._strategy_orders[order.trade.strategy], when=order.trade.strategy in self._strategy_orders)
    modifies_map(self._strategy_selection_orders, when=not ((order.trade.strategy, order.selection_id, order.handicap) in self._strategy_selection_orders))
    modifies_list(self._strategy_selection_orders[(order.trade.strategy, order.selection_id, order.handicap)],
                  when=(order.trade.strategy, order.selection_id, order.handicap) in self._strategy_selection_orders)
    modifies_map(self._client_orders, when=not (order.client in self._client_orders))
    modifies_list(self._client_orders[order.client], when=order.client in self._client_orders)
    modifies_map(self._client_strategy_orders, when=not ((order.client, order.trade.strategy) in self._client_strategy_orders))
    modifies_list(self._client_strategy_orders[(order.client, order.trade.strategy)], when=(order.client, order.trade.strategy) in self._client_strategy_orders)
    ensures("registered", customer_order_ref in self._orders and self._orders[customer_order_ref] == order and self.active)


@contract("flumine/execution/transaction.py::Transaction.place_order", tags=["C02", "C03"])
def _(self, order: Ref("BaseOrder"), market_version: Opt(INT) = None, execute: BOOL = True, force: BOOL = False) -> BOOL:
    requires("market_book_present", self.market.market_book is not None)
    raises(OrderError, when=order.id in self.market.blotter._orders, label="already_placed",
           modifies=["MaxTransactionCount.*", (order, "client"), (order, "_simulated"), (order, "status"), (order, "complete"), (order, "date_time_status_update"),
                     (order, "publish_time"), (order, "market_version"), (order, "async_"), (order.status_log, "[]")])
    modifies_all("MaxTransactionCount.*")
    modifies(order, "client")
    modifies(order, "_simulated")
    modifies(order, "status")
    modifies(order, "complete")
    modifies(order, "violation_msg")
    modifies(order, "date_time_status_update")
    modifies(order, "publish_time")
    modifies(order, "market_version")
    modifies(order, "async_")
    modifies(order, "market_notes")
    modifies(order.trade, "market_notes")
    modifies(order.update_data, "*")
    modifies_list(order.status_log)
    # the blotter and its views, the runner context of the strategy (accepted, executed request)
    modifies(self.market.blotter, "active")
    modifies_all_maps(MapOf(ATOM, Ref("BaseOrder")))
    modifies_all_maps(MapOf(Opt(ATOM), Ref("BaseOrder")))
    modifies_all_maps(MapOf(ATOM, Ref("Trade")))
    modifies_all_maps(MapOfDefault(Ref("Trade"), ListOf(Ref("BaseOrder"))))
    modifies_all_maps(MapOfDefault(Ref("BaseStrategy"), ListOf(Ref("BaseOrder"))))
    modifies_all_maps(MapOfDefault(Tup(Ref("BaseStrategy"), INT, REAL), ListOf(Ref("BaseOrder"))))
    modifies_all_maps(MapOfDefault(Opt(Ref("BaseClient")), ListOf(Ref("BaseOrder"))))
    modifies_all_maps(MapOfDefault(Tup(Opt(Ref("BaseClient")), Ref("BaseStrategy")), ListOf(Ref("BaseOrder"))))
    modifies_all_lists(Ref("BaseOrder"))
    modifies_all_maps(MapOf(Tup(ATOM, INT, REAL), Ref("RunnerContext")))
    modifies_all("RunnerContext.invested")
    modifies_all("RunnerContext.datetime_last_placed")
    modifies_all_lists(ATOM)
    modifies(self, "_pending_orders")
    modifies_list(self._pending_place)
    ensures("refused_request_is_not_queued", implies(not result, unchanged_list(self._pending_place) and unchanged(self, "_pending_orders")))
    ensures("refused_new_order_is_a_violation_outside_the_blotter", implies(not result, order.status == OrderStatus.VIOLATION
                                                                            and iff(order.id in self.market.blotter._orders, old(order.id in self.market.blotter._orders))))
    ensures("accepted_order_is_pending_and_in_the_blotter", implies(result, order.status == OrderStatus.PENDING and order.id in self.market.blotter._orders))
    ensures("accepted_request_is_queued_once", implies(result and execute, self._pending_orders and len(self._pending_place) == old(len(self._pending_place)) + 1
                                                       and self._pending_place[len(self._pending_place) - 1] == (order, market_version)
                                                       and forall(lambda j: self._pending_place[j] == old(self._pending_place[j]), 0, old(len(self._pending_place)))))
    ensures("not_executed_request_is_not_queued", implies(result and not execute, unchanged_list(self._pending_place) and unchanged(self, "_pending_orders")))
    # "a forced request skips the controls but nothing else": every accepted request that is sent is also counted in the
    # strategy's runner accounting (forced or not) - the limits of later orders are checked against that accounting
    ensures("accepted_executed_request_is_counted_by_the_runner_accounting", implies(result and execute,
            order.lookup in order.trade.strategy._invested and order.trade.strategy._invested[order.lookup].invested))
