"""C02 (i) - a refused request changes nothing; an accepted request is queued exactly once (flumine/execution/transaction.py).

A request is refused by a trading / client control (result False), by the order's own state (OrderUpdateError) or because the
order belongs to another client (OrderError).  The statement allows one effect of a refusal: a NEW order (status None) is
marked VIOLATION.  On this tree a control marks whatever order it is given (finding P1: BaseControl._on_error), so the clauses
`refused_request_leaves_the_order_alone` carry a known-finding region (the order is live).
"""

inline(
    "flumine/execution/transaction.py::Transaction.__enter__",
    "flumine/order/order.py::BaseOrder.update_client",
)


def order_untouched_or_new_violation(o, s0, c0, r0, p0):
    return False


# a control (any subclass of BaseControl, including user supplied ones): dynamic dispatch (A4) - ASSUMED contract:
# it either returns, having written only control-private state, or refuses through _on_error (whose frame this is)
@contract("flumine/controls/__init__.py::BaseControl.__call__", tags=["C02"])
def _(self, order: Ref("BaseOrder"), package_type: ATOM):
    trusted("dynamic dispatch over the control classes (A4): a control returns (writing only its own counters) or refuses through BaseControl._on_error")
    modifies_all("MaxTransactionCount.*")
    raises(ControlError, label="refused", ensures=order.status == OrderStatus.VIOLATION and order.complete,
           modifies=[(order, "status"), (order, "complete"), (order, "violation_msg"), (order, "date_time_status_update"),
                     (order.update_data, "*"), (order.status_log, "[]"), "MaxTransactionCount.*"])


@contract("flumine/execution/transaction.py::Transaction._validate_controls", tags=["C02"])
def _(self, order: Ref("BaseOrder"), package_type: ATOM) -> BOOL:
    invariant(0, "no_refusal_so_far", True)
    invariant(1, "no_refusal_so_far", True)
    modifies_all("MaxTransactionCount.*")
    modifies(order, "status")
    modifies(order, "complete")
    modifies(order, "violation_msg")
    modifies(order, "date_time_status_update")
    modifies(order.update_data, "*")
    modifies_list(order.status_log)
    ensures("a_refusal_marks_the_order", implies(not result, order.status == OrderStatus.VIOLATION and order.complete))
    ensures("acceptance_leaves_the_order_alone", implies(result, unchanged(order, "status") and unchanged(order, "complete") and unchanged(order, "violation_msg")
                                                         and unchanged(order, "date_time_status_update") and unchanged(order.update_data, "*")
                                                         and unchanged_list(order.status_log)))


REQUEST_FRAME = "the frame of a request: control counters, the order's lifecycle fields (refusal by a control / acceptance), the queue"


@contract("flumine/execution/transaction.py::Transaction.cancel_order", tags=["C02"])
def _(self, order: Ref("BaseOrder"), size_reduction: Opt(REAL) = None, force: BOOL = False) -> BOOL:
    raises(OrderError, when=order.client != self._client, iff=True, label="order_of_another_client")
    raises(OrderUpdateError, when=not cancel_accepted(order, size_reduction), label="refused_by_the_order_state", modifies=["MaxTransactionCount.*"])
    modifies_all("MaxTransactionCount.*")
    modifies(order, "status")
    modifies(order, "complete")
    modifies(order, "violation_msg")
    modifies(order, "date_time_status_update")
    modifies(order.update_data, "*")
    modifies_list(order.status_log)
    modifies(self, "_pending_orders")
    modifies_list(self._pending_cancel)
    ensures("refused_request_is_not_queued", implies(not result, unchanged_list(self._pending_cancel) and unchanged(self, "_pending_orders")))
    ensures("refused_request_leaves_the_order_alone", implies(not result, (unchanged(order, "status") and unchanged(order, "complete") and unchanged(order.update_data, "*")
                                                                           and unchanged_list(order.status_log))
                                                              or (old(order.status) is None and order.status == OrderStatus.VIOLATION)))
    ensures("accepted_request_is_queued_once", implies(result, order.status == OrderStatus.CANCELLING and self._pending_orders
                                                       and len(self._pending_cancel) == old(len(self._pending_cancel)) + 1
                                                       and self._pending_cancel[len(self._pending_cancel) - 1] == (order, None)
                                                       and forall(lambda j: self._pending_cancel[j] == old(self._pending_cancel[j]), 0, old(len(self._pending_cancel)))))
    ensures("accepted_only_when_the_order_permits", implies(result, old(cancel_accepted(order, size_reduction))))
    ensures("request_recorded", implies(result, order.update_data["size_reduction"] == size_reduction))
    ensures("force_skips_only_the_controls", implies(force, result))


@contract("flumine/execution/transaction.py::Transaction.update_order", tags=["C02"])
def _(self, order: Ref("BaseOrder"), new_persistence_type: Opt(ATOM) = None, size_delta: REAL = 0.0, new_price: Opt(REAL) = None,
      expected_selection_reset_count: Opt(INT) = None, expected_withdrawal_sequence_number: Opt(INT) = None, cancel_on_in_running: Opt(BOOL) = None,
      cancel_if_selection_reset: Opt(BOOL) = None, set_to_be_sp_if_unmatched: Opt(BOOL) = None, force: BOOL = False) -> BOOL:
    raises(OrderError, when=order.client != self._client, iff=True, label="order_of_another_client")
    raises(OrderUpdateError, when=not update_accepted(order, new_persistence_type), label="refused_by_the_order_state", modifies=["MaxTransactionCount.*"])
    modifies_all("MaxTransactionCount.*")
    modifies(order, "status")
    modifies(order, "complete")
    modifies(order, "violation_msg")
    modifies(order, "date_time_status_update")
    modifies(order.update_data, "*")
    modifies(order.order_type, "persistence_type")
    modifies_list(order.status_log)
    modifies(self, "_pending_orders")
    modifies_list(self._pending_update)
    ensures("refused_request_is_not_queued", implies(not result, unchanged_list(self._pending_update) and unchanged(self, "_pending_orders")))
    ensures("refused_request_leaves_the_order_alone", implies(not result, (unchanged(order, "status") and unchanged(order, "complete") and unchanged(order.update_data, "*")
                                                                           and unchanged(order.order_type, "persistence_type") and unchanged_list(order.status_log))
                                                              or (old(order.status) is None and order.status == OrderStatus.VIOLATION)))
    ensures("accepted_request_is_queued_once", implies(result, order.status == OrderStatus.UPDATING and self._pending_orders
                                                       and len(self._pending_update) == old(len(self._pending_update)) + 1
                                                       and self._pending_update[len(self._pending_update) - 1] == (order, None)
                                                       and forall(lambda j: self._pending_update[j] == old(self._pending_update[j]), 0, old(len(self._pending_update)))))
    ensures("accepted_only_when_the_order_permits", implies(result, old(update_accepted(order, new_persistence_type))))
    ensures("force_skips_only_the_controls", implies(force, result))


@contract("flumine/execution/transaction.py::Transaction.replace_order", tags=["C02"])
def _(self, order: Ref("BaseOrder"), new_price: Opt(REAL), market_version: Opt(INT) = None, force: BOOL = False) -> BOOL:
    raises(OrderError, when=order.client != self._client, iff=True, label="order_of_another_client")
    raises(OrderUpdateError, when=not replace_accepted(order, new_price), label="refused_by_the_order_state", modifies=["MaxTransactionCount.*"])
    modifies_all("MaxTransactionCount.*")
    modifies(order, "status")
    modifies(order, "complete")
    modifies(order, "violation_msg")
    modifies(order, "date_time_status_update")
    modifies(order.update_data, "*")
    modifies_list(order.status_log)
    modifies(self, "_pending_orders")
    modifies_list(self._pending_replace)
    ensures("refused_request_is_not_queued", implies(not result, unchanged_list(self._pending_replace) and unchanged(self, "_pending_orders")))
    ensures("refused_request_leaves_the_order_alone", implies(not result, (unchanged(order, "status") and unchanged(order, "complete") and unchanged(order.update_data, "*")
                                                                           and unchanged_list(order.status_log))
                                                              or (old(order.status) is None and order.status == OrderStatus.VIOLATION)))
    ensures("accepted_request_is_queued_once", implies(result, order.status == OrderStatus.REPLACING and self._pending_orders
                                                       and len(self._pending_replace) == old(len(self._pending_replace)) + 1
                                                       and self._pending_replace[len(self._pending_replace) - 1] == (order, market_version)
                                                       and forall(lambda j: self._pending_replace[j] == old(self._pending_replace[j]), 0, old(len(self._pending_replace)))))
    ensures("accepted_only_when_the_order_permits", implies(result, old(replace_accepted(order, new_price))))
    ensures("request_recorded", implies(result, order.update_data["new_price"] == new_price))
    ensures("force_skips_only_the_controls", implies(force, result))


# ----------------------------------------------------------------------------- delivery
# ghost: BaseFlumine._sent is the sequence of packages handed to the execution layer (live: client.execution.handler -> thread pool;
# simulation: handler_queue.append).  process_order_package is the delivery point observed by the property.
schema("BaseFlumine", _sent=ListOf(Ref("BaseOrderPackage")))


@contract("flumine/baseflumine.py::BaseFlumine.process_order_package", tags=["C02"])
def _(self, order_package: Ref("BaseOrderPackage")):
    trusted("delivery point (dynamic dispatch: BaseFlumine -> client.execution.handler, FlumineSimulation -> handler_queue.append); "
            "modelled as appending the package to the ghost sequence _sent; the execution itself is a later step (A6)")
    modifies_list(self._sent)
    ensures("delivered", len(self._sent) == old(len(self._sent)) + 1 and self._sent[len(self._sent) - 1] == order_package
            and forall(lambda j: self._sent[j] == old(self._sent[j]), 0, old(len(self._sent))))


def nothing_pending(t):
    return len(t._pending_place) == 0 and len(t._pending_cancel) == 0 and len(t._pending_update) == 0 and len(t._pending_replace) == 0


@contract("flumine/execution/transaction.py::Transaction.execute", tags=["C02", "C13"])
def _(self) -> INT:
    requires("market_book_present", self.market.market_book is not None)
    requires("known_exchange", self._client.EXCHANGE == ExchangeType.BETFAIR or self._client.EXCHANGE == ExchangeType.SIMULATED or self._client.EXCHANGE == ExchangeType.BETDAQ)
    requires("no_replace_on_betdaq", implies(self._client.EXCHANGE == ExchangeType.BETDAQ, len(self._pending_replace) == 0))
    requires("queues_are_separate_lists", self._pending_place is not self._pending_cancel and self._pending_place is not self._pending_update
             and self._pending_place is not self._pending_replace and self._pending_cancel is not self._pending_update
             and self._pending_cancel is not self._pending_replace and self._pending_update is not self._pending_replace)
    local(packages=ListOf(Ref("BaseOrderPackage")))
    invariant(0, "delivered_count", len(self.market.flumine._sent) == old(len(self.market.flumine._sent)) + _i0)
    invariant(0, "earlier_deliveries_untouched", forall(lambda j: self.market.flumine._sent[j] == old(self.market.flumine._sent[j]), 0, old(len(self.market.flumine._sent))))
    invariant(0, "queues_stay_empty", nothing_pending(self))
    invariant(0, "packages_untouched", len(packages) == len(_seq0) and is_fresh(packages))
    invariant(0, "other_package_lists_untouched", entry_lists_unchanged(Ref("BaseOrderPackage"), self.market.flumine._sent))
    modifies(self, "_pending_orders")
    modifies_list(self._pending_place)
    modifies_list(self._pending_cancel)
    modifies_list(self._pending_update)
    modifies_list(self._pending_replace)
    modifies_list(self.market.flumine._sent)
    ensures("nothing_is_left_queued", nothing_pending(self))
    ensures("each_package_is_delivered_once", len(self.market.flumine._sent) == old(len(self.market.flumine._sent)) + result)
    ensures("earlier_deliveries_untouched", forall(lambda j: self.market.flumine._sent[j] == old(self.market.flumine._sent[j]), 0, old(len(self.market.flumine._sent))))
    ensures("flag_reset_when_something_was_sent", implies(result > 0, not self._pending_orders))
    ensures("nothing_sent_when_nothing_was_queued", implies(old(nothing_pending(self)), result == 0))


@contract("flumine/execution/transaction.py::Transaction.__exit__", tags=["C02", "C13"])  # C13: a callback that raises inside a transaction block still leaves nothing queued
def _(self, exc_type: Opt(ATOM), exc_val: Opt(ATOM), exc_tb: Opt(ATOM)):
    requires("market_book_present", self.market.market_book is not None)
    requires("known_exchange", self._client.EXCHANGE == ExchangeType.BETFAIR or self._client.EXCHANGE == ExchangeType.SIMULATED or self._client.EXCHANGE == ExchangeType.BETDAQ)
    requires("no_replace_on_betdaq", implies(self._client.EXCHANGE == ExchangeType.BETDAQ, len(self._pending_replace) == 0))
    requires("queues_are_separate_lists", self._pending_place is not self._pending_cancel and self._pending_place is not self._pending_update
             and self._pending_place is not self._pending_replace and self._pending_cancel is not self._pending_update
             and self._pending_cancel is not self._pending_replace and self._pending_update is not self._pending_replace)
    modifies(self, "_pending_orders")
    modifies_list(self._pending_place)
    modifies_list(self._pending_cancel)
    modifies_list(self._pending_update)
    modifies_list(self._pending_replace)
    modifies_list(self.market.flumine._sent)
    ensures("executes_iff_something_is_pending", implies(not old(self._pending_orders), len(self.market.flumine._sent) == old(len(self.market.flumine._sent))))
    ensures("nothing_is_left_queued", implies(old(self._pending_orders), nothing_pending(self)))
