"""C03 - BetfairExecution.execute_* / _execution_helper (flumine/execution/betfairexecution.py): the order status at every setter.

Live execution: while a request is outstanding the order keeps its in-flight status (guarantee of process_current_order in
c03_stream.py; a refused second request would mark it VIOLATION - finding P1 - and `orders` filters those), so
Expected(handler) = {the in-flight status of the package kind}.  The exchange's replies are external data (A7).
"""

inline(
    "flumine/events/events.py::BaseEvent.elapsed_seconds",
    "flumine/order/orderpackage.py::BaseOrderPackage.retry_count",
    "flumine/order/orderpackage.py::BaseOrderPackage.date_time_created",
)
schema("ExecutionResponse", place_instruction_reports=ListOf(Ref("InstructionReport")), cancel_instruction_reports=ListOf(Ref("InstructionReport")),
       update_instruction_reports=ListOf(Ref("InstructionReport")), replace_instruction_reports=ListOf(Ref("InstructionReport")))


# ghost (C12/C11): the answer of the exchange to the call made for a package.  No flumine code reads or writes `_response`; the
# assumed contract of the exchange call (trading_function below) records its result there so that the postconditions of the
# handlers can speak about "the call was answered" and about the reports of that answer (same device as BaseFlumine._sent, C02).
schema("BaseOrderPackage", _response=Opt(Ref("ExecutionResponse")))

BET_TAKEN_OR_LAPSED = "BET_TAKEN_OR_LAPSED"


def answered(pkg):
    """the exchange call of this activation returned a response (it is a new object; an earlier answer is not)"""
    return pkg._response is not None and is_fresh(pkg._response)


def report_status_known(r):
    return r.status == "SUCCESS" or r.status == "FAILURE" or r.status == "TIMEOUT"


def statuses_known(reports):
    return forall(lambda j: report_status_known(reports[j]), 0, len(reports))


def bet_ids_distinct(l):
    """exchange bet ids identify orders: two different orders of a package that await the response never share one"""
    return forall_int(lambda a, b: implies(0 <= a and a < b and b < len(l) and l[a].status != OrderStatus.VIOLATION and l[b].status != OrderStatus.VIOLATION,
                                           l[a].bet_id != l[b].bet_id))


def cancel_outcome(o, r, remaining_before):
    """C11 (agreement with the exchange on completeness) for one cancel report r applied to order o that held `remaining_before`:
    SUCCESS: nothing is left at the exchange exactly when the cancelled size is the whole remainder, or the remainder was
    already 0 (the order stream overtook the response); FAILURE: the bet is gone only for BET_TAKEN_OR_LAPSED; TIMEOUT: live."""
    return ((o.status == OrderStatus.EXECUTION_COMPLETE or o.status == OrderStatus.EXECUTABLE)
            and o.update_data["size_reduction"] is None and o.update_data["new_price"] is None  # the request is over: its data is reset
            and implies(r.status == "SUCCESS", iff(o.status == OrderStatus.EXECUTION_COMPLETE, r.size_cancelled == remaining_before or remaining_before == 0))
            and implies(r.status == "FAILURE", iff(o.status == OrderStatus.EXECUTION_COMPLETE, r.error_code == BET_TAKEN_OR_LAPSED))
            and implies(r.status == "TIMEOUT", o.status == OrderStatus.EXECUTABLE))


def awaiting(o, package_type):
    return o.status == in_flight_status_of(package_type)


def orders_existed(pkg):
    """closure of the entry heap (Python has no dangling references): the elements of the package's list are objects that exist"""
    return forall(lambda k: not is_fresh(pkg._orders[k]), 0, len(pkg._orders))


def package_awaits_response(pkg):
    return forall(lambda k: awaiting(pkg._orders[k], pkg.package_type) or pkg._orders[k].status == OrderStatus.VIOLATION, 0, len(pkg._orders))


# the exchange call (betfairlightweight, through BetfairExecution.place/cancel/update/replace): assumed (A7)
@virtual("BetfairExecution", "trading_function", tags=["C12"])
def _(self, order_package: Ref("BaseOrderPackage"), http_session: Opt(ATOM)) -> Ref("ExecutionResponse"):
    raises(BetfairError, label="api_error")
    raises(Exception, label="unknown_error")
    modifies(order_package, "_response")  # ghost
    ensures("the_answer_is_recorded", order_package._response == result)  # ghost bookkeeping, see above
    # assumed contract of the API (DESIGN C12, A7): every instruction report carries one of the three documented statuses
    ensures("documented_report_statuses", statuses_known(result.cancel_instruction_reports) and statuses_known(result.update_instruction_reports))
    ensures("a_new_response_object", is_fresh(result) and is_fresh(result.place_instruction_reports) and is_fresh(result.cancel_instruction_reports)
            and is_fresh(result.update_instruction_reports) and is_fresh(result.replace_instruction_reports))


@contract("flumine/order/orderpackage.py::BaseOrderPackage.retry", tags=["C03"])
def _(self) -> BOOL:
    modifies(self, "_retry_count")
    ensures("count_moves_exactly_when_a_retry_is_granted", self._retry_count == old(self._retry_count) + (1 if result else 0))


@contract("flumine/execution/baseexecution.py::BaseExecution.handler", tags=["C12"])
def _(self, order_package: Ref("BaseOrderPackage")):
    trusted("submits execute_<kind>(order_package, session) to the thread pool: the execution is a later step of its own (A6); "
            "nothing of the orders is written here")
    raises(NotImplementedError, when=not known_package_type(order_package.package_type), iff=True, label="unknown_package_type")


@contract("flumine/execution/baseexecution.py::BaseExecution._return_http_session", tags=["C12"])
def _(self, http_session: Opt(ATOM), err: BOOL = False):
    trusted("session pool bookkeeping (requests.Session objects): no order state")


@contract("flumine/execution/betfairexecution.py::BetfairExecution._execution_helper", tags=["C03", "C12"])
def _(self, trading_function: virtual_callable("BetfairExecution", "trading_function"), order_package: Ref("BaseOrderPackage"), http_session: Opt(ATOM)) -> Opt(Ref("ExecutionResponse")):
    requires("package_kind", known_package_type(order_package.package_type))
    requires("orders_distinct", distinct_orders(order_package._orders))
    requires("orders_await_this_response", package_awaits_response(order_package))
    modifies(order_package, "_retry_count")
    modifies(order_package, "_response")  # ghost (C12): written by the assumed contract of the exchange call only
    modifies_all("BaseOrder.status")
    modifies_all("BaseOrder.complete")
    modifies_all("BaseOrder.date_time_status_update")
    modifies_all("BaseOrder.date_time_execution_complete")
    modifies_all("UpdateData.*")
    modifies_all("Trade.status")
    modifies_all("Trade.date_time_complete")
    modifies_all("RunnerContext.datetime_last_reset")
    modifies_all_lists(ATOM)
    modifies_all_maps(MapOf(Tup(ATOM, INT, REAL), Ref("RunnerContext")))
    # C12: a response is handed to the caller exactly when the exchange answered this call, and it is that answer
    ensures("a_response_is_the_recorded_answer", implies(result is not None, order_package._response == result))
    ensures("answered_iff_a_response_is_returned", iff(result is not None, answered(order_package)))
    ensures("documented_report_statuses", implies(result is not None, statuses_known(result.cancel_instruction_reports) and statuses_known(result.update_instruction_reports)))
    ensures("with_a_response_nothing_was_touched", implies(result is not None, forall(lambda k: order_package._orders[k].status == old(order_package._orders[k].status), 0, len(order_package._orders))))
    # C03 (one operation in flight): a package that was handed back for a retry is still outstanding - its orders keep their
    # in-flight status, so that further requests on them are refused until the retried call is answered
    ensures("resubmitted_package_keeps_its_orders_in_flight", implies(order_package._retry_count > old(order_package._retry_count),
            forall(lambda k: order_package._orders[k].status == old(order_package._orders[k].status), 0, len(order_package._orders))))
    ensures("the_response_is_new", implies(result is not None, is_fresh(result) and is_fresh(result.place_instruction_reports) and is_fresh(result.cancel_instruction_reports)
                                           and is_fresh(result.update_instruction_reports) and is_fresh(result.replace_instruction_reports)))


LIVE_FRAME_NOTE = "frames of the handlers are whole-field (loop havoc)"


@contract("flumine/execution/betfairexecution.py::BetfairExecution.execute_place", tags=["C03"])
def _(self, order_package: Ref("BetfairOrderPackage"), http_session: Opt(ATOM)):
    requires("package_kind", order_package.package_type == OrderPackageType.PLACE)
    requires("orders_distinct", distinct_orders(order_package._orders))
    requires("orders_await_this_response", package_awaits_response(order_package))
    requires("live_orders", forall(lambda k: not order_package._orders[k]._simulated, 0, len(order_package._orders)))
    requires("heap_closure", orders_existed(order_package))
    # synchronous placement: the bet id is unknown until this response, so the stream cannot have moved the order
    # (process_current_order/unacknowledged_sync_placement_is_left_alone); asynchronous placement: the exchange answers
    # order_status PENDING and the handler does nothing
    invariant(0, "ahead", forall(lambda j: implies(_i0 <= j, _seq0_0[j].status == OrderStatus.PENDING), 0, len(_seq0_0)))
    invariant(0, "reports_untouched", len(response.place_instruction_reports) == len(_seq0_1))
    raises(AttributeError, label="failed_order_without_any_current_order", modifies="same")
    modifies(order_package, "_retry_count")
    modifies(order_package, "_response")  # ghost (C12): written by the assumed contract of the exchange call only
    modifies_all("BaseOrder.status")
    modifies_all("BaseOrder.complete")
    modifies_all("BaseOrder.date_time_status_update")
    modifies_all("BaseOrder.date_time_execution_complete")
    modifies_all("BaseOrder.bet_id")
    modifies_all("UpdateData.*")
    modifies_all("Responses.place_response")
    modifies_all("Responses._date_time_placed")
    modifies_all("CurrentOrder.size_remaining")
    modifies_all("InstructionReport.size_remaining")
    modifies_all("BaseOrder.size_remaining")  # loop frame by attribute NAME: `order.current_order.size_remaining = 0.0`
    modifies_all("Trade.status")
    modifies_all("Trade.date_time_complete")
    modifies_all("RunnerContext.datetime_last_reset")
    modifies_all("MaxTransactionCount.*")
    modifies_all_lists(ATOM)
    modifies_all_lists(Ref("InstructionReport"))
    modifies_all_maps(MapOf(Tup(ATOM, INT, REAL), Ref("RunnerContext")))


@contract("flumine/execution/betfairexecution.py::BetfairExecution.execute_update", tags=["C03", "C12"])
def _(self, order_package: Ref("BetfairOrderPackage"), http_session: Opt(ATOM)):
    requires("package_kind", order_package.package_type == OrderPackageType.UPDATE)
    requires("orders_distinct", distinct_orders(order_package._orders))
    requires("orders_await_this_response", package_awaits_response(order_package))
    requires("heap_closure", orders_existed(order_package))
    invariant(0, "ahead", forall(lambda j: implies(_i0 <= j, _seq0_0[j].status == OrderStatus.UPDATING), 0, len(_seq0_0)))
    invariant(0, "reports_untouched", len(response.update_instruction_reports) == len(_seq0_1))
    # C12 (positional pairing: report j belongs to the j-th awaiting order): the orders already paired with a report are EXECUTABLE again
    invariant(0, "behind", forall(lambda j: implies(j < _i0, _seq0_0[j].status == OrderStatus.EXECUTABLE and _seq0_0[j].update_data["size_reduction"] is None
                                                    and _seq0_0[j].update_data["new_price"] is None), 0, len(_seq0_0)))
    invariant(0, "refused_orders_are_not_touched", forall(lambda k: implies(old(order_package._orders[k].status) == OrderStatus.VIOLATION,
                                                                            order_package._orders[k].status == OrderStatus.VIOLATION), 0, len(order_package._orders)))
    # C12 "leave none in flight": when the answer carries a report for every order of the package (assumed API contract: one report per
    # instruction sent, in order) no order is left UPDATING: each awaiting order is EXECUTABLE with its request data reset
    ensures("no_order_left_in_flight", implies(answered(order_package) and len(order_package._response.update_instruction_reports) >= len(order_package._orders),
            forall(lambda k: implies(old(order_package._orders[k].status) == OrderStatus.UPDATING,
                                     order_package._orders[k].status == OrderStatus.EXECUTABLE and order_package._orders[k].update_data["size_reduction"] is None
                                     and order_package._orders[k].update_data["new_price"] is None), 0, len(order_package._orders))))
    modifies(order_package, "_retry_count")
    modifies(order_package, "_response")  # ghost
    modifies_all("BaseOrder.status")
    modifies_all("BaseOrder.complete")
    modifies_all("BaseOrder.date_time_status_update")
    modifies_all("BaseOrder.date_time_execution_complete")
    modifies_all("BaseOrder.bet_id")
    modifies_all("UpdateData.*")
    modifies_all("Responses.place_response")
    modifies_all("Responses._date_time_placed")
    modifies_all("Trade.status")
    modifies_all("Trade.date_time_complete")
    modifies_all("RunnerContext.datetime_last_reset")
    modifies_all("MaxTransactionCount.*")
    modifies_all_lists(ATOM)
    modifies_all_lists(Ref("InstructionReport"))
    modifies_all_maps(MapOf(Tup(ATOM, INT, REAL), Ref("RunnerContext")))


@contract("flumine/execution/betfairexecution.py::BetfairExecution.execute_cancel", tags=["C03", "C12", "C11"])
def _(self, order_package: Ref("BetfairOrderPackage"), http_session: Opt(ATOM)):
    requires("package_kind", order_package.package_type == OrderPackageType.CANCEL)
    requires("orders_distinct", distinct_orders(order_package._orders))
    requires("orders_await_this_response", package_awaits_response(order_package))
    requires("heap_closure", orders_existed(order_package))
    # C12/C11 (pairing by bet id): the exchange's bet ids identify the orders that await this response
    requires("bet_ids_identify_the_orders", bet_ids_distinct(order_package._orders))
    local(order_lookup=MapOf(Opt(ATOM), Ref("BaseOrder")))
    # the orders still waiting for their report: each is found under its own bet id and is still CANCELLING
    invariant(0, "waiting", forall_key(lambda b: order_lookup[b].status == OrderStatus.CANCELLING and order_lookup[b].bet_id == b
                                       and not is_fresh(order_lookup[b]), order_lookup))
    invariant(0, "reports_untouched", len(response.cancel_instruction_reports) == len(_seq0))
    # C12: an order of the package is found under its own bet id as long as it waits, and it waits as long as it is CANCELLING
    invariant(0, "lookup_by_own_bet_id", forall(lambda k: implies(old(order_package._orders[k].status) == OrderStatus.CANCELLING and order_package._orders[k].bet_id in order_lookup,
                                                                  order_lookup[order_package._orders[k].bet_id] == order_package._orders[k]), 0, len(order_package._orders)))
    invariant(0, "in_flight_only_while_waiting", forall(lambda k: implies(order_package._orders[k].status == OrderStatus.CANCELLING,
                                                                          order_package._orders[k].bet_id in order_lookup), 0, len(order_package._orders)))
    # C11: the reports processed so far were applied to the order with their bet id, and that order now agrees with the exchange
    invariant(0, "answered_bet_ids_are_gone", forall(lambda j: implies(j < _i0, not (_seq0[j].instruction.bet_id in order_lookup)), 0, len(_seq0)))
    invariant(0, "reports_so_far_applied", forall(lambda k: forall(lambda j: implies(
        j < _i0 and old(order_package._orders[k].status) == OrderStatus.CANCELLING and _seq0[j].instruction.bet_id == order_package._orders[k].bet_id,
        cancel_outcome(order_package._orders[k], _seq0[j], old(order_package._orders[k].size_remaining))), 0, len(_seq0)), 0, len(order_package._orders)))
    invariant(0, "reports_list_intact", forall(lambda j: response.cancel_instruction_reports[j] == _seq0[j], 0, len(_seq0)))
    invariant(1, "answered_bet_ids_are_gone", forall(lambda j: not (response.cancel_instruction_reports[j].instruction.bet_id in order_lookup), 0, len(response.cancel_instruction_reports)))
    invariant(1, "every_report_applied", forall(lambda k: forall(lambda j: implies(
        old(order_package._orders[k].status) == OrderStatus.CANCELLING and response.cancel_instruction_reports[j].instruction.bet_id == order_package._orders[k].bet_id,
        cancel_outcome(order_package._orders[k], response.cancel_instruction_reports[j], old(order_package._orders[k].size_remaining))),
        0, len(response.cancel_instruction_reports)), 0, len(order_package._orders)))
    # C12: an order for which no report has been seen is still waiting, and the waiting ones are made EXECUTABLE by the second loop
    invariant(0, "orders_without_report_still_wait", forall(lambda k: implies(old(order_package._orders[k].status) == OrderStatus.CANCELLING,
        order_package._orders[k].bet_id in order_lookup or exists(lambda j: j < _i0 and _seq0[j].instruction.bet_id == order_package._orders[k].bet_id, 0, len(_seq0))),
        0, len(order_package._orders)))
    invariant(1, "orders_without_report_are_in_the_lookup", forall(lambda k: implies(old(order_package._orders[k].status) == OrderStatus.CANCELLING,
        order_package._orders[k].bet_id in order_lookup
        or exists(lambda j: response.cancel_instruction_reports[j].instruction.bet_id == order_package._orders[k].bet_id, 0, len(response.cancel_instruction_reports))),
        0, len(order_package._orders)))
    invariant(1, "behind", forall(lambda j: implies(j < _i1, order_lookup[_seq1[j]].status == OrderStatus.EXECUTABLE), 0, len(_seq1)))
    invariant(0, "refused_orders_are_not_touched", forall(lambda k: implies(old(order_package._orders[k].status) == OrderStatus.VIOLATION,
                                                                            order_package._orders[k].status == OrderStatus.VIOLATION), 0, len(order_package._orders)))
    invariant(1, "refused_orders_are_not_touched", forall(lambda k: implies(old(order_package._orders[k].status) == OrderStatus.VIOLATION,
                                                                            order_package._orders[k].status == OrderStatus.VIOLATION), 0, len(order_package._orders)))
    invariant(1, "lookup_by_own_bet_id", forall(lambda k: implies(old(order_package._orders[k].status) == OrderStatus.CANCELLING and order_package._orders[k].bet_id in order_lookup,
                                                                  order_lookup[order_package._orders[k].bet_id] == order_package._orders[k]), 0, len(order_package._orders)))
    invariant(1, "in_flight_only_while_ahead", forall(lambda k: implies(order_package._orders[k].status == OrderStatus.CANCELLING,
                                                                        exists(lambda j: _i1 <= j and _seq1[j] == order_package._orders[k].bet_id, 0, len(_seq1))), 0, len(order_package._orders)))
    invariant(1, "ahead", forall(lambda j: implies(_i1 <= j, order_lookup[_seq1[j]].status == OrderStatus.CANCELLING
                                                   and order_lookup[_seq1[j]].bet_id == _seq1[j] and not is_fresh(order_lookup[_seq1[j]])), 0, len(_seq1)))
    raises(KeyError, label="report_for_a_bet_id_that_is_not_in_the_package", modifies="same")  # pairing of reports and orders: C12
    # C12 "leave none in flight": after an answered call no order of the package is left CANCELLING
    ensures("no_order_left_in_flight", implies(answered(order_package), forall(lambda k: order_package._orders[k].status != OrderStatus.CANCELLING, 0, len(order_package._orders))))
    ensures("an_order_without_report_is_executable_again", implies(answered(order_package), forall(lambda k: implies(
        old(order_package._orders[k].status) == OrderStatus.CANCELLING
        and not exists(lambda j: order_package._response.cancel_instruction_reports[j].instruction.bet_id == order_package._orders[k].bet_id, 0, len(order_package._response.cancel_instruction_reports)),
        order_package._orders[k].status == OrderStatus.EXECUTABLE), 0, len(order_package._orders))))
    # C11 "each local order agrees with the exchange on whether it is complete": every report of the answer was applied to the
    # order with its bet id; that order is complete exactly when nothing remains at the exchange (cancel_outcome), else EXECUTABLE
    ensures("each_report_is_applied_to_its_order", implies(answered(order_package), forall(lambda k: forall(lambda j: implies(
        old(order_package._orders[k].status) == OrderStatus.CANCELLING and order_package._response.cancel_instruction_reports[j].instruction.bet_id == order_package._orders[k].bet_id,
        cancel_outcome(order_package._orders[k], order_package._response.cancel_instruction_reports[j], old(order_package._orders[k].size_remaining))),
        0, len(order_package._response.cancel_instruction_reports)), 0, len(order_package._orders))))
    modifies(order_package, "_retry_count")
    modifies(order_package, "_response")  # ghost
    modifies_all("BaseOrder.status")
    modifies_all("BaseOrder.complete")
    modifies_all("BaseOrder.date_time_status_update")
    modifies_all("BaseOrder.date_time_execution_complete")
    modifies_all("BaseOrder.bet_id")
    modifies_all("UpdateData.*")
    modifies_all("Responses.place_response")
    modifies_all("Responses._date_time_placed")
    modifies_all("Trade.status")
    modifies_all("Trade.date_time_complete")
    modifies_all("RunnerContext.datetime_last_reset")
    modifies_all("MaxTransactionCount.*")
    modifies_all_lists(ATOM)
    modifies_all_lists(Ref("InstructionReport"))
    modifies_all_maps(MapOf(Tup(ATOM, INT, REAL), Ref("RunnerContext")))
