"""C03 - BetfairExecution.execute_* / _execution_helper (flumine/execution/betfairexecution.py): the order status at every setter.

Live execution: while a request is outstanding the order keeps its in-flight status (guarantee of process_current_order in
c03_stream.py; a refused second request would mark it VIOLATION - finding P1 - and `orders` filters those), so
Expected(handler) = {the in-flight status of the package kind}.  The exchange's replies are external data (A7).
"""

inline(
    "flumine/events/events.py::BaseEvent.elapsed_seconds",
    "flumine/order/orderpackage.py::BaseOrderPackage.retry_count",
    "flumine/order/orderpackage.py::BaseOrderPackage.date_time_created",
)
schema("ExecutionResponse", place_instruction_reports=ListOf(Ref("InstructionReport")), cancel_instruction_reports=ListOf(Ref("InstructionReport")),
       update_instruction_reports=ListOf(Ref("InstructionReport")), replace_instruction_reports=ListOf(Ref("InstructionReport")))


def awaiting(o, package_type):
    return o.status == in_flight_status_of(package_type)


def orders_existed(pkg):
    """closure of the entry heap (Python has no dangling references): the elements of the package's list are objects that exist"""
    return forall(lambda k: not is_fresh(pkg._orders[k]), 0, len(pkg._orders))


def package_awaits_response(pkg):
    return forall(lambda k: awaiting(pkg._orders[k], pkg.package_type) or pkg._orders[k].status == OrderStatus.VIOLATION, 0, len(pkg._orders))


# the exchange call (betfairlightweight, through BetfairExecution.place/cancel/update/replace): assumed (A7)
@virtual("BetfairExecution", "trading_function", tags=["C12"])
def _(self, order_package: Ref("BaseOrderPackage"), http_session: Opt(ATOM)) -> Ref("ExecutionResponse"):
    raises(BetfairError, label="api_error")
    raises(Exception, label="unknown_error")
    ensures("a_new_response_object", is_fresh(result) and is_fresh(result.place_instruction_reports) and is_fresh(result.cancel_instruction_reports)
            and is_fresh(result.update_instruction_reports) and is_fresh(result.replace_instruction_reports))


@contract("flumine/order/orderpackage.py::BaseOrderPackage.retry", tags=["C03"])
def _(self) -> BOOL:
    modifies(self, "_retry_count")


@contract("flumine/execution/baseexecution.py::BaseExecution.handler", tags=["C12"])
def _(self, order_package: Ref("BaseOrderPackage")):
    trusted("submits execute_<kind>(order_package, session) to the thread pool: the execution is a later step of its own (A6); "
            "nothing of the orders is written here")
    raises(NotImplementedError, when=not known_package_type(order_package.package_type), iff=True, label="unknown_package_type")


@contract("flumine/execution/baseexecution.py::BaseExecution._return_http_session", tags=["C12"])
def _(self, http_session: Opt(ATOM), err: BOOL = False):
    trusted("session pool bookkeeping (requests.Session objects): no order state")


@contract("flumine/execution/betfairexecution.py::BetfairExecution._execution_helper", tags=["C03"])
def _(self, trading_function: virtual_callable("BetfairExecution", "trading_function"), order_package: Ref("BaseOrderPackage"), http_session: Opt(ATOM)) -> Opt(Ref("ExecutionResponse")):
    requires("package_kind", known_package_type(order_package.package_type))
    requires("orders_distinct", distinct_orders(order_package._orders))
    requires("orders_await_this_response", package_awaits_response(order_package))
    modifies(order_package, "_retry_count")
    modifies_all("BaseOrder.status")
    modifies_all("BaseOrder.complete")
    modifies_all("BaseOrder.date_time_status_update")
    modifies_all("BaseOrder.date_time_execution_complete")
    modifies_all("UpdateData.*")
    modifies_all("Trade.status")
    modifies_all("Trade.date_time_complete")
    modifies_all("RunnerContext.datetime_last_reset")
    modifies_all_lists(ATOM)
    modifies_all_maps(MapOf(Tup(ATOM, INT, REAL), Ref("RunnerContext")))
    ensures("with_a_response_nothing_was_touched", implies(result is not None, forall(lambda k: order_package._orders[k].status == old(order_package._orders[k].status), 0, len(order_package._orders))))
    ensures("the_response_is_new", implies(result is not None, is_fresh(result) and is_fresh(result.place_instruction_reports) and is_fresh(result.cancel_instruction_reports)
                                           and is_fresh(result.update_instruction_reports) and is_fresh(result.replace_instruction_reports)))


LIVE_FRAME_NOTE = "frames of the handlers are whole-field (loop havoc)"


@contract("flumine/execution/betfairexecution.py::BetfairExecution.execute_place", tags=["C03"])
def _(self, order_package: Ref("BetfairOrderPackage"), http_session: Opt(ATOM)):
    requires("package_kind", order_package.package_type == OrderPackageType.PLACE)
    requires("orders_distinct", distinct_orders(order_package._orders))
    requires("orders_await_this_response", package_awaits_response(order_package))
    requires("live_orders", forall(lambda k: not order_package._orders[k]._simulated, 0, len(order_package._orders)))
    requires("heap_closure", orders_existed(order_package))
    # synchronous placement: the bet id is unknown until this response, so the stream cannot have moved the order
    # (process_current_order/unacknowledged_sync_placement_is_left_alone); asynchronous placement: the exchange answers
    # order_status PENDING and the handler does nothing
    invariant(0, "ahead", forall(lambda j: implies(_i0 <= j, _seq0_0[j].status == OrderStatus.PENDING), 0, len(_seq0_0)))
    invariant(0, "reports_untouched", len(response.place_instruction_reports) == len(_seq0_1))
    raises(AttributeError, label="failed_order_without_any_current_order", modifies="same")
    modifies(order_package, "_retry_count")
    modifies_all("BaseOrder.status")
    modifies_all("BaseOrder.complete")
    modifies_all("BaseOrder.date_time_status_update")
    modifies_all("BaseOrder.date_time_execution_complete")
    modifies_all("BaseOrder.bet_id")
    modifies_all("UpdateData.*")
    modifies_all("Responses.place_response")
    modifies_all("Responses._date_time_placed")
    modifies_all("CurrentOrder.size_remaining")
    modifies_all("InstructionReport.size_remaining")
    modifies_all("BaseOrder.size_remaining")  # loop frame by attribute NAME: `order.current_order.size_remaining = 0.0`
    modifies_all("Trade.status")
    modifies_all("Trade.date_time_complete")
    modifies_all("RunnerContext.datetime_last_reset")
    modifies_all("MaxTransactionCount.*")
    modifies_all_lists(ATOM)
    modifies_all_lists(Ref("InstructionReport"))
    modifies_all_maps(MapOf(Tup(ATOM, INT, REAL), Ref("RunnerContext")))


@contract("flumine/execution/betfairexecution.py::BetfairExecution.execute_update", tags=["C03"])
def _(self, order_package: Ref("BetfairOrderPackage"), http_session: Opt(ATOM)):
    requires("package_kind", order_package.package_type == OrderPackageType.UPDATE)
    requires("orders_distinct", distinct_orders(order_package._orders))
    requires("orders_await_this_response", package_awaits_response(order_package))
    requires("heap_closure", orders_existed(order_package))
    invariant(0, "ahead", forall(lambda j: implies(_i0 <= j, _seq0_0[j].status == OrderStatus.UPDATING), 0, len(_seq0_0)))
    invariant(0, "reports_untouched", len(response.update_instruction_reports) == len(_seq0_1))
    modifies(order_package, "_retry_count")
    modifies_all("BaseOrder.status")
    modifies_all("BaseOrder.complete")
    modifies_all("BaseOrder.date_time_status_update")
    modifies_all("BaseOrder.date_time_execution_complete")
    modifies_all("BaseOrder.bet_id")
    modifies_all("UpdateData.*")
    modifies_all("Responses.place_response")
    modifies_all("Responses._date_time_placed")
    modifies_all("Trade.status")
    modifies_all("Trade.date_time_complete")
    modifies_all("RunnerContext.datetime_last_reset")
    modifies_all("MaxTransactionCount.*")
    modifies_all_lists(ATOM)
    modifies_all_lists(Ref("InstructionReport"))
    modifies_all_maps(MapOf(Tup(ATOM, INT, REAL), Ref("RunnerContext")))


@contract("flumine/execution/betfairexecution.py::BetfairExecution.execute_cancel", tags=["C03"])
def _(self, order_package: Ref("BetfairOrderPackage"), http_session: Opt(ATOM)):
    requires("package_kind", order_package.package_type == OrderPackageType.CANCEL)
    requires("orders_distinct", distinct_orders(order_package._orders))
    requires("orders_await_this_response", package_awaits_response(order_package))
    requires("heap_closure", orders_existed(order_package))
    local(order_lookup=MapOf(Opt(ATOM), Ref("BaseOrder")))
    # the orders still waiting for their report: each is found under its own bet id and is still CANCELLING
    invariant(0, "waiting", forall_key(lambda b: order_lookup[b].status == OrderStatus.CANCELLING and order_lookup[b].bet_id == b
                                       and not is_fresh(order_lookup[b]), order_lookup))
    invariant(0, "reports_untouched", len(response.cancel_instruction_reports) == len(_seq0))
    invariant(1, "ahead", forall(lambda j: implies(_i1 <= j, order_lookup[_seq1[j]].status == OrderStatus.CANCELLING
                                                   and order_lookup[_seq1[j]].bet_id == _seq1[j] and not is_fresh(order_lookup[_seq1[j]])), 0, len(_seq1)))
    raises(KeyError, label="report_for_a_bet_id_that_is_not_in_the_package", modifies="same")  # pairing of reports and orders: C12
    modifies(order_package, "_retry_count")
    modifies_all("BaseOrder.status")
    modifies_all("BaseOrder.complete")
    modifies_all("BaseOrder.date_time_status_update")
    modifies_all("BaseOrder.date_time_execution_complete")
    modifies_all("BaseOrder.bet_id")
    modifies_all("UpdateData.*")
    modifies_all("Responses.place_response")
    modifies_all("Responses._date_time_placed")
    modifies_all("Trade.status")
    modifies_all("Trade.date_time_complete")
    modifies_all("RunnerContext.datetime_last_reset")
    modifies_all("MaxTransactionCount.*")
    modifies_all_lists(ATOM)
    modifies_all_lists(Ref("InstructionReport"))
    modifies_all_maps(MapOf(Tup(ATOM, INT, REAL), Ref("RunnerContext")))
