"""C03 - status-setter call sites in the response / stream handlers (typestate call-pre obligations).

Every handler gets the precondition  status in Expected(handler)  for the orders it is handed (DESIGN C03); the status of an
order not yet processed is carried through the loop by the invariant `ahead`, which needs the orders of a package to be
pairwise distinct (an order is accepted into at most one request at a time: C02 / the EXECUTABLE guard).
Counting / pairing of responses (C12) is NOT claimed here.
"""

inline(
    "flumine/order/orderpackage.py::BaseOrderPackage.__iter__",
    "flumine/order/orderpackage.py::BaseOrderPackage.__len__",
)
schema("BaseEvent", _time_created=REAL, event=Opt(Ref("BaseOrder")), exchange=ATOM)
schema("BaseOrderPackage", id=ATOM, client=Ref("BaseClient"), market_id=ATOM, _orders=ListOf(Ref("BaseOrder")), package_type=ATOM, async_=BOOL,
       _market_version=Opt(INT), customer_strategy_ref=ATOM, _retry=BOOL, _max_retries=INT, _retry_count=INT, processed=BOOL,
       bet_delay=REAL, simulated_delay=Opt(REAL))


def distinct_orders(l):
    return forall_int(lambda a, b: implies(0 <= a and a < b and b < len(l), l[a] != l[b]))


def in_flight_status_of(package_type):
    return (OrderStatus.PENDING if package_type == OrderPackageType.PLACE else (
        OrderStatus.CANCELLING if package_type == OrderPackageType.CANCEL else (
            OrderStatus.UPDATING if package_type == OrderPackageType.UPDATE else OrderStatus.REPLACING)))


def known_package_type(t):
    return (t == OrderPackageType.PLACE or t == OrderPackageType.CANCEL or t == OrderPackageType.UPDATE or t == OrderPackageType.REPLACE)


@contract("flumine/order/orderpackage.py::BaseOrderPackage.orders", tags=["C03", "C02"], fresh_result=True)
def _(self) -> ListOf(Ref("BaseOrder")):
    ensures("members_of_the_package", forall(lambda j: exists(lambda k: result[j] == self._orders[k], 0, len(self._orders)), 0, len(result)))
    ensures("violations_filtered", forall(lambda j: result[j].status != OrderStatus.VIOLATION, 0, len(result)))
    ensures("distinct_when_the_package_is", implies(distinct_orders(self._orders), distinct_orders(result)))
    ensures("no_longer_than_the_package", len(result) <= len(self._orders))
    ensures("every_other_order_kept", forall(lambda k: implies(self._orders[k].status != OrderStatus.VIOLATION,
                                                                exists(lambda j: result[j] == self._orders[k], 0, len(result))), 0, len(self._orders)))


# ----------------------------------------------------------------------------- reset_orders (live execution: retries exhausted)
@contract("flumine/order/orderpackage.py::BaseOrderPackage.reset_orders", tags=["C03"])
def _(self, complete: BOOL = False):
    requires("package_kind", known_package_type(self.package_type))
    requires("orders_distinct", distinct_orders(self._orders))
    # live execution: while the request is outstanding nothing else moves the order (stability: see process_current_order),
    # except a refused second request that marks it VIOLATION (finding P1) - those are filtered out by `orders`
    requires("orders_await_this_response", forall(lambda k: self._orders[k].status == in_flight_status_of(self.package_type)
                                                  or self._orders[k].status == OrderStatus.VIOLATION, 0, len(self._orders)))
    requires("complete_only_for_place", implies(complete, self.package_type == OrderPackageType.PLACE))
    invariant(0, "ahead", forall(lambda j: implies(_i0 <= j, _seq0[j].status == in_flight_status_of(self.package_type)), 0, _n0))
    modifies_all("BaseOrder.status")
    modifies_all("BaseOrder.complete")
    modifies_all("BaseOrder.date_time_status_update")
    modifies_all("BaseOrder.date_time_execution_complete")
    modifies_all("Trade.status")
    modifies_all("Trade.date_time_complete")
    modifies_all("RunnerContext.datetime_last_reset")
    modifies_all("UpdateData.*")
    modifies_all_lists(ATOM)  # status logs, live_trades of runner contexts
    modifies_all_maps(MapOf(Tup(ATOM, INT, REAL), Ref("RunnerContext")))


# ----------------------------------------------------------------------------- shared helpers of the execution handlers
schema("BaseExecution", flumine=Ref("BaseFlumine"), _bet_id=INT, EXCHANGE=ATOM)
schema("BaseFlumine", markets=Ref("Markets"), trading_controls=ListOf(Ref("BaseControl")), simulated=BOOL)
schema("Markets", _markets=MapOf(ATOM, Ref("Market")))
schema("Responses", date_time_created=REAL, current_order=Opt(Ref("CurrentOrder")), place_response=Opt(Ref("InstructionReport")),
       cancel_responses=ListOf(Ref("InstructionReport")), replace_responses=ListOf(Ref("InstructionReport")),
       update_responses=ListOf(Ref("InstructionReport")), _date_time_placed=Opt(REAL))
# what the handlers read from an instruction report (betfairlightweight resources, simulated responses): external data (A7)
schema("InstructionReport", status=ATOM, order_status=Opt(ATOM), bet_id=Opt(ATOM), error_code=Opt(ATOM), size_cancelled=Opt(REAL),
       instruction=Ref("ReportInstruction"), cancel_instruction_reports=Ref("InstructionReport"), place_instruction_reports=Ref("InstructionReport"))
schema("ReportInstruction", bet_id=Opt(ATOM), limit_order=Ref("ReportLimitOrder"))
schema("ReportLimitOrder", price=REAL, size=MONEY)
abstract_bool("SimulatedOrder", "_truthy")  # SimulatedOrder.__bool__: config.simulated or client.paper_trade (read as an abstract flag)
inline(
    "flumine/markets/markets.py::Markets.markets",
    "flumine/order/responses.py::Responses.placed",
    "flumine/order/responses.py::Responses.cancelled",
    "flumine/order/responses.py::Responses.updated",
)


def market_known(execution, order_package):
    return order_package.market_id in execution.flumine.markets._markets


@contract("flumine/events/events.py::BaseEvent.__init__", tags=["C03", "C02"])
def _(self, event: Opt(Ref("BaseOrder")), exchange: ATOM = "BETFAIR"):
    modifies(self, "_time_created")
    modifies(self, "event")
    modifies(self, "exchange")


@contract("flumine/baseflumine.py::BaseFlumine.log_control", tags=["C12"])
def _(self, event: Ref("BaseEvent")):
    trusted("hands the event to the logging controls' queues (queue.Queue.put, external): no order / trade / blotter state is written (A5/A7)")


@contract("flumine/clients/baseclient.py::BaseClient.add_transaction", tags=["C18"])
def _(self, count: INT, failed: BOOL = False):
    trusted("transaction counting is C18's: the dynamic dispatch over the client's controls (hasattr) only reaches MaxTransactionCount.add_transaction, which writes its own counters")
    modifies_all("MaxTransactionCount.transaction_count")
    modifies_all("MaxTransactionCount.current_transaction_count")
    modifies_all("MaxTransactionCount.failed_transaction_count")
    modifies_all("MaxTransactionCount.current_failed_transaction_count")


schema("MaxTransactionCount", transaction_count=INT, current_transaction_count=INT, failed_transaction_count=INT, current_failed_transaction_count=INT)


@contract("flumine/execution/baseexecution.py::BaseExecution._order_logger", tags=["C03", "C12"])
def _(self, order: Ref("BaseOrder"), instruction_report: Ref("InstructionReport"), package_type: ATOM):
    requires("package_kind", known_package_type(package_type))
    modifies(order, "bet_id")
    modifies(order.responses, "place_response")
    modifies(order.responses, "_date_time_placed")
    modifies_list(order.responses.cancel_responses)
    modifies_list(order.responses.update_responses)
    ensures("status_untouched", order.status == old(order.status))
    # C12 (pairing by bet id): a bet id is assigned only from a placement report (PLACE, or the place leg of a REPLACE)
    ensures("cancel_and_update_reports_leave_the_bet_id", implies(package_type == OrderPackageType.CANCEL or package_type == OrderPackageType.UPDATE,
                                                                  order.bet_id == old(order.bet_id)))


# instruction lists of a package: content and pairing with the orders are C12's; here only "a new list, nothing written"
@contract("flumine/order/orderpackage.py::BetfairOrderPackage.place_instructions", tags=["C12"], fresh_result=True)
def _(self) -> ListOf(Ref("Instruction")):
    trusted("pure: builds a new list of instruction dicts from the orders (content / pairing: C12)")


@contract("flumine/order/orderpackage.py::BetfairOrderPackage.update_instructions", tags=["C12"], fresh_result=True)
def _(self) -> ListOf(Ref("Instruction")):
    trusted("pure: builds a new list of instruction dicts from the orders (content / pairing: C12)")


@contract("flumine/order/orderpackage.py::BetfairOrderPackage.replace_instructions", tags=["C12"], fresh_result=True)
def _(self) -> ListOf(Ref("Instruction")):
    trusted("pure: builds a new list of instruction dicts from the orders that are not EXECUTION_COMPLETE (content / pairing, KeyError on a cleared update_data: C12)")


struct("Instruction", newPrice=Opt(REAL), newPersistenceType=Opt(ATOM), absent_keyerror=False)
