"""C03 - order lifecycle (typestate): flumine/order/order.py.

Legal(s, s') is the lifecycle relation of the property statement (DESIGN section 4):
  None -> PENDING | VIOLATION;  PENDING -> EXECUTABLE | EXECUTION_COMPLETE;
  EXECUTABLE -> CANCELLING | UPDATING | REPLACING | EXECUTION_COMPLETE | EXECUTABLE (stutter);
  CANCELLING | UPDATING | REPLACING -> EXECUTABLE | EXECUTION_COMPLETE;  EXECUTION_COMPLETE -> EXECUTION_COMPLETE (stutter).
BaseOrder._update_status requires Legal(self.status, status); each of the seven setters requires the instance of it, so
every call of a setter anywhere in the tree is a call-pre obligation of its caller.
"""

inline("flumine/order/order.py::BaseOrder._is_complete")

# Betdaq update requests keep their payload in the same dict (BetdaqOrder.update)
struct("UpdateData", BetId=Opt(ATOM), DeltaStake=Opt(REAL), Price=Opt(REAL), ExpectedSelectionResetCount=Opt(INT),
       ExpectedWithdrawalSequenceNumber=Opt(INT), CancelOnInRunning=Opt(BOOL), CancelIfSelectionReset=Opt(BOOL),
       SetToBeSPIfUnmatched=Opt(BOOL), absent_keyerror=False)
schema("BaseStrategy", _invested=MapOf(Tup(ATOM, INT, REAL), Ref("RunnerContext")))
schema("RunnerContext", selection_id=INT, invested=BOOL, datetime_last_placed=Opt(REAL), datetime_last_reset=Opt(REAL),
       trades=ListOf(ATOM), live_trades=ListOf(ATOM))


def in_flight(s):
    return s == OrderStatus.CANCELLING or s == OrderStatus.UPDATING or s == OrderStatus.REPLACING


def live(s):
    return s == OrderStatus.PENDING or s == OrderStatus.EXECUTABLE or in_flight(s)


def complete_status(s):
    return s == OrderStatus.EXECUTION_COMPLETE or s == OrderStatus.EXPIRED or s == OrderStatus.VIOLATION


def legal(s, t):
    return ((s is None and (t == OrderStatus.PENDING or t == OrderStatus.VIOLATION))
            or (s == OrderStatus.PENDING and (t == OrderStatus.EXECUTABLE or t == OrderStatus.EXECUTION_COMPLETE))
            or (s == OrderStatus.EXECUTABLE and (in_flight(t) or t == OrderStatus.EXECUTION_COMPLETE or t == OrderStatus.EXECUTABLE))
            or (in_flight(s) and (t == OrderStatus.EXECUTABLE or t == OrderStatus.EXECUTION_COMPLETE))
            or (s == OrderStatus.EXECUTION_COMPLETE and t == OrderStatus.EXECUTION_COMPLETE))


def rkey(trade):
    return (trade.market_id, trade.selection_id, trade.handicap)


def rctx(trade):
    return trade.strategy._invested[rkey(trade)]


def has_rctx(trade):
    return rkey(trade) in trade.strategy._invested


# ----------------------------------------------------------------------------- trade side of a completion (frames only; C10 owns the content)
@contract("flumine/order/trade.py::Trade.complete", tags=["C03"])
def _(self) -> BOOL:
    invariant(0, "no_state", True)
    ensures("only_a_live_trade_completes", implies(result, self.status == TradeStatus.LIVE and not self.pending_orders))


@contract("flumine/strategy/runnercontext.py::RunnerContext.reset", tags=["C03"])
def _(self, trade_id: ATOM):
    modifies(self, "datetime_last_reset")
    modifies_list(self.live_trades)


inline("flumine/strategy/runnercontext.py::RunnerContext.__init__")


@contract("flumine/strategy/strategy.py::BaseStrategy.get_runner_context", tags=["C03"])
def _(self, market_id: ATOM, selection_id: INT, handicap: REAL) -> Ref("RunnerContext"):
    modifies_map(self._invested, when=not ((market_id, selection_id, handicap) in self._invested))
    ensures("existing_context_is_returned", implies(old((market_id, selection_id, handicap) in self._invested),
                                                    result == old(self._invested[(market_id, selection_id, handicap)])))
    ensures("new_context_is_fresh", implies(not old((market_id, selection_id, handicap) in self._invested),
                                            is_fresh(result) and is_fresh(result.live_trades) and is_fresh(result.trades)))
    ensures("registered_under_its_key", (market_id, selection_id, handicap) in self._invested and self._invested[(market_id, selection_id, handicap)] == result)


@contract("flumine/order/trade.py::Trade.complete_trade", tags=["C03"])
def _(self):
    modifies(self, "status")
    modifies(self, "date_time_complete")
    modifies_list(self.status_log)
    modifies_map(self.strategy._invested, when=not has_rctx(self))
    modifies(rctx(self), "datetime_last_reset", when=has_rctx(self))
    modifies_list(rctx(self).live_trades, when=has_rctx(self))
    ensures("complete", self.status == TradeStatus.COMPLETE)


@contract("flumine/order/trade.py::Trade._update_status", tags=["C03"])
def _(self, status: ATOM):
    modifies(self, "status")
    modifies_list(self.status_log)
    modifies(self, "date_time_complete", when=status == TradeStatus.LIVE)
    modifies_map(self.strategy._invested, when=status == TradeStatus.LIVE and not has_rctx(self))
    modifies(rctx(self), "datetime_last_reset", when=status == TradeStatus.LIVE and has_rctx(self))
    modifies_list(rctx(self).live_trades, when=status == TradeStatus.LIVE and has_rctx(self))
    ensures("status_or_complete", self.status == status or (status == TradeStatus.LIVE and self.status == TradeStatus.COMPLETE))


@contract("flumine/order/trade.py::Trade.__enter__", tags=["C03"])
def _(self):
    modifies(self, "status")
    modifies_list(self.status_log)
    ensures("pending", self.status == TradeStatus.PENDING)


@contract("flumine/order/trade.py::Trade.__exit__", tags=["C03"])
def _(self, exc_type: Opt(ATOM), exc_val: Opt(ATOM), exc_tb: Opt(ATOM)):
    modifies(self, "status", when=exc_tb is None)
    modifies_list(self.status_log, when=exc_tb is None)
    modifies(self, "date_time_complete", when=exc_tb is None)
    modifies_map(self.strategy._invested, when=exc_tb is None and not has_rctx(self))
    modifies(rctx(self), "datetime_last_reset", when=exc_tb is None and has_rctx(self))
    modifies_list(rctx(self).live_trades, when=exc_tb is None and has_rctx(self))


# ----------------------------------------------------------------------------- the status setters
@contract("flumine/order/order.py::BaseOrder._update_status", tags=["C03", "C02", "C16"])  # C02: a refusal (VIOLATION) never touches the trade
def _(self, status: ATOM):
    requires("legal_transition", legal(self.status, status))
    modifies(self, "status")
    modifies(self, "complete")
    modifies(self, "date_time_status_update")
    modifies_list(self.status_log)
    # an order that completes may complete its trade (never for a VIOLATION)
    modifies(self.trade, "status", when=status == OrderStatus.EXECUTION_COMPLETE)
    modifies(self.trade, "date_time_complete", when=status == OrderStatus.EXECUTION_COMPLETE)
    modifies_list(self.trade.status_log, when=status == OrderStatus.EXECUTION_COMPLETE)
    modifies_map(self.trade.strategy._invested, when=status == OrderStatus.EXECUTION_COMPLETE and not has_rctx(self.trade))
    modifies(rctx(self.trade), "datetime_last_reset", when=status == OrderStatus.EXECUTION_COMPLETE and has_rctx(self.trade))
    modifies_list(rctx(self.trade).live_trades, when=status == OrderStatus.EXECUTION_COMPLETE and has_rctx(self.trade))
    ensures("status_set", self.status == status)
    ensures("complete_flag", self.complete == complete_status(status))
    # (nothing is claimed about the content of status_log: the completion of the trade appends to trade.status_log and
    #  list objects of different owners are not known to be distinct without an ownership invariant)


@contract("flumine/order/order.py::BaseOrder.placing", tags=["C03"])
def _(self):
    requires("legal_transition", legal(self.status, OrderStatus.PENDING))
    modifies(self, "status")
    modifies(self, "complete")
    modifies(self, "date_time_status_update")
    modifies_list(self.status_log)
    ensures("pending", self.status == OrderStatus.PENDING and not self.complete)


@contract("flumine/order/order.py::BaseOrder.cancelling", tags=["C03"])
def _(self):
    requires("legal_transition", legal(self.status, OrderStatus.CANCELLING))
    modifies(self, "status")
    modifies(self, "complete")
    modifies(self, "date_time_status_update")
    modifies_list(self.status_log)
    ensures("cancelling", self.status == OrderStatus.CANCELLING and not self.complete)


@contract("flumine/order/order.py::BaseOrder.updating", tags=["C03"])
def _(self):
    requires("legal_transition", legal(self.status, OrderStatus.UPDATING))
    modifies(self, "status")
    modifies(self, "complete")
    modifies(self, "date_time_status_update")
    modifies_list(self.status_log)
    ensures("updating", self.status == OrderStatus.UPDATING and not self.complete)


@contract("flumine/order/order.py::BaseOrder.replacing", tags=["C03"])
def _(self):
    requires("legal_transition", legal(self.status, OrderStatus.REPLACING))
    modifies(self, "status")
    modifies(self, "complete")
    modifies(self, "date_time_status_update")
    modifies_list(self.status_log)
    ensures("replacing", self.status == OrderStatus.REPLACING and not self.complete)


@contract("flumine/order/order.py::BaseOrder.executable", tags=["C03"])
def _(self):
    requires("legal_transition", legal(self.status, OrderStatus.EXECUTABLE))
    modifies(self, "status")
    modifies(self, "complete")
    modifies(self, "date_time_status_update")
    modifies_list(self.status_log)
    modifies(self.update_data, "*")
    ensures("executable", self.status == OrderStatus.EXECUTABLE and not self.complete)
    ensures("request_data_cleared", self.update_data["size_reduction"] is None and self.update_data["new_price"] is None)


@contract("flumine/order/order.py::BaseOrder.execution_complete", tags=["C03"])
def _(self):
    requires("legal_transition", legal(self.status, OrderStatus.EXECUTION_COMPLETE))
    modifies(self, "status")
    modifies(self, "complete")
    modifies(self, "date_time_status_update")
    modifies(self, "date_time_execution_complete")
    modifies_list(self.status_log)
    modifies(self.update_data, "*")
    modifies(self.trade, "status")
    modifies(self.trade, "date_time_complete")
    modifies_list(self.trade.status_log)
    modifies_map(self.trade.strategy._invested, when=not has_rctx(self.trade))
    modifies(rctx(self.trade), "datetime_last_reset", when=has_rctx(self.trade))
    modifies_list(rctx(self.trade).live_trades, when=has_rctx(self.trade))
    ensures("complete", self.status == OrderStatus.EXECUTION_COMPLETE and self.complete)
    ensures("request_data_cleared", self.update_data["size_reduction"] is None and self.update_data["new_price"] is None)


@contract("flumine/order/order.py::BaseOrder.violation", tags=["C03", "C02"])
def _(self, violation_msg: ATOM):
    requires("legal_transition", legal(self.status, OrderStatus.VIOLATION))
    modifies(self, "status")
    modifies(self, "complete")
    modifies(self, "date_time_status_update")
    modifies(self, "violation_msg")
    modifies_list(self.status_log)
    modifies(self.update_data, "*")
    ensures("violation", self.status == OrderStatus.VIOLATION and self.complete)
