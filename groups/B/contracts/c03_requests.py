"""C03 / C02 - the request methods of an order (flumine/order/order.py): a cancel / update / replace is accepted only while the
order rests EXECUTABLE with a bet id and a compatible order type; otherwise it raises OrderUpdateError and changes nothing."""


def is_limit_order(o):
    return o.order_type.ORDER_TYPE == OrderTypes.LIMIT


def cancel_accepted(o, size_reduction):
    return (o.bet_id is not None and is_limit_order(o) and o.status == OrderStatus.EXECUTABLE
            and not (size_reduction is not None and size_reduction != 0 and o.size_remaining - size_reduction < 0))


def update_accepted(o, new_persistence_type):
    return (o.bet_id is not None and is_limit_order(o) and o.status == OrderStatus.EXECUTABLE
            and not (o.order_type.persistence_type == new_persistence_type))


def replace_accepted(o, new_price):
    return (o.bet_id is not None and (is_limit_order(o) or o.order_type.ORDER_TYPE == OrderTypes.LIMIT_ON_CLOSE)
            and o.status == OrderStatus.EXECUTABLE and not (o.order_type.price == new_price))


# ----------------------------------------------------------------------------- Betfair
@contract("flumine/order/order.py::BetfairOrder.place", tags=["C03", "C02"])
def _(self, publish_time: Opt(REAL), market_version: Opt(INT), async_: Opt(BOOL)):
    requires("a_new_order_is_placed_once", self.status is None)
    modifies(self, "publish_time")
    modifies(self, "market_version")
    modifies(self, "async_")
    modifies(self, "status")
    modifies(self, "complete")
    modifies(self, "date_time_status_update")
    modifies_list(self.status_log)
    ensures("pending", self.status == OrderStatus.PENDING and not self.complete)
    ensures("request_recorded", self.publish_time == publish_time and self.market_version == market_version and self.async_ == async_)


@contract("flumine/order/order.py::BetfairOrder.cancel", tags=["C03", "C02"])
def _(self, size_reduction: Opt(REAL)):
    raises(OrderUpdateError, when=not cancel_accepted(self, size_reduction), iff=True, label="refused_without_side_effects")
    modifies(self, "status")
    modifies(self, "complete")
    modifies(self, "date_time_status_update")
    modifies_list(self.status_log)
    modifies(self.update_data, "size_reduction")
    ensures("in_flight", self.status == OrderStatus.CANCELLING and not self.complete)
    ensures("request_recorded", self.update_data["size_reduction"] == size_reduction)


@contract("flumine/order/order.py::BetfairOrder.update", tags=["C03", "C02"])
def _(self, new_persistence_type: Opt(ATOM)):
    raises(OrderUpdateError, when=not update_accepted(self, new_persistence_type), iff=True, label="refused_without_side_effects")
    modifies(self, "status")
    modifies(self, "complete")
    modifies(self, "date_time_status_update")
    modifies_list(self.status_log)
    modifies(self.order_type, "persistence_type")
    ensures("in_flight", self.status == OrderStatus.UPDATING and not self.complete)
    ensures("request_recorded", self.order_type.persistence_type == new_persistence_type)


@contract("flumine/order/order.py::BetfairOrder.replace", tags=["C03", "C02"])
def _(self, new_price: Opt(REAL)):
    raises(OrderUpdateError, when=not replace_accepted(self, new_price), iff=True, label="refused_without_side_effects")
    modifies(self, "status")
    modifies(self, "complete")
    modifies(self, "date_time_status_update")
    modifies_list(self.status_log)
    modifies(self.update_data, "new_price")
    ensures("in_flight", self.status == OrderStatus.REPLACING and not self.complete)
    ensures("request_recorded", self.update_data["new_price"] == new_price)


# ----------------------------------------------------------------------------- Betdaq
def betdaq_cancel_accepted(o, size_reduction):
    return ((size_reduction is None or size_reduction == 0) and o.bet_id is not None and is_limit_order(o)
            and o.status == OrderStatus.EXECUTABLE)


def betdaq_update_accepted(o):
    return o.bet_id is not None and is_limit_order(o) and o.status == OrderStatus.EXECUTABLE


@contract("flumine/order/order.py::BetdaqOrder.place", tags=["C03", "C02"])
def _(self, publish_time: Opt(REAL), market_version: Opt(INT), async_: Opt(BOOL)):
    requires("a_new_order_is_placed_once", self.status is None)
    modifies(self, "publish_time")
    modifies(self, "market_version")
    modifies(self, "async_")
    modifies(self, "status")
    modifies(self, "complete")
    modifies(self, "date_time_status_update")
    modifies_list(self.status_log)
    ensures("pending", self.status == OrderStatus.PENDING and not self.complete)


@contract("flumine/order/order.py::BetdaqOrder.cancel", tags=["C03", "C02"])
def _(self, size_reduction: Opt(REAL)):
    raises(OrderUpdateError, when=not betdaq_cancel_accepted(self, size_reduction), iff=True, label="refused_without_side_effects")
    modifies(self, "status")
    modifies(self, "complete")
    modifies(self, "date_time_status_update")
    modifies_list(self.status_log)
    ensures("in_flight", self.status == OrderStatus.CANCELLING and not self.complete)


@contract("flumine/order/order.py::BetdaqOrder.update", tags=["C03", "C02"])
def _(self, size_delta: REAL, new_price: Opt(REAL), expected_selection_reset_count: Opt(INT), expected_withdrawal_sequence_number: Opt(INT),
      cancel_on_in_running: Opt(BOOL), cancel_if_selection_reset: Opt(BOOL), set_to_be_sp_if_unmatched: Opt(BOOL)):
    requires("limit_price_known", implies(is_limit_order(self), self.order_type.price is not None))  # BetdaqLimitOrder always has a price
    raises(OrderUpdateError, when=not betdaq_update_accepted(self), iff=True, label="refused_without_side_effects")
    modifies(self, "status")
    modifies(self, "complete")
    modifies(self, "date_time_status_update")
    modifies_list(self.status_log)
    modifies(self.update_data, "*")
    ensures("in_flight", self.status == OrderStatus.UPDATING and not self.complete)
    ensures("request_recorded", self.update_data["BetId"] == self.bet_id and self.update_data["DeltaStake"] == size_delta)
