"""C03 - SimulatedExecution.execute_* (flumine/execution/simulatedexecution.py): the order status at every setter call.

In simulation an order with a request in flight can be completed meanwhile for another reason (fully matched or lapsed and then
completed by FlumineSimulation._process_simulated_orders, BSP reconciliation in SimulatedOrder._process_sp): Expected(handler) is
{the in-flight status of the package kind, EXECUTION_COMPLETE}.  A response that calls executable() on such a completed order
re-opens it: findings P6 (known_findings.json, region = the order is already EXECUTION_COMPLETE).
"""


def awaiting_or_completed(o, in_flight_status):
    return o.status == in_flight_status or o.status == OrderStatus.EXECUTION_COMPLETE


# the simulator's own request processing: functional content is C04/C05's; the handlers only need "status is not written"
@contract("flumine/simulation/simulatedorder.py::SimulatedOrder.place", tags=["C04"])
def _(self, order_package: Ref("BaseOrderPackage"), market_book: Ref("MarketBook"), instruction: Ref("Instruction"), bet_id: INT) -> Ref("SimulatedPlaceResponse"):
    trusted("frame only (matching is C04/C05's): writes the simulated order's own buckets, never an order status - see the setter scan in NOTES_B.md")
    modifies(self, "size_matched")
    modifies(self, "average_price_matched")
    modifies(self, "size_cancelled")
    modifies(self, "size_lapsed")
    modifies(self, "size_voided")
    modifies(self, "market_version")
    modifies(self, "_piq")
    modifies(self, "matched")
    modifies_all_lists(Ref("Fragment"))
    modifies_all("BaseOrder.size_remaining")
    modifies_all("BaseOrder.size_matched")
    modifies_all("BaseOrder.average_price_matched")
    raises(NotImplementedError, label="bet_target_size_not_simulated", modifies="same")


@contract("flumine/simulation/simulatedorder.py::SimulatedOrder.update", tags=["C03"])
def _(self, market_book: Ref("MarketBook"), instruction: Ref("Instruction")) -> Opt(Ref("SimulatedUpdateResponse")):
    requires("inv4", implies(is_limit_so(self), Inv4(self)))
    modifies(self.order.order_type, "persistence_type")
    # the body falls off its end (returns None) for a non-LIMIT order or a LIMIT order with nothing remaining
    ensures("success_only_with_something_remaining", implies(result is not None and result.status == "SUCCESS", is_limit_so(self) and R(self) > 0))
    ensures("no_response_only_when_nothing_remains", implies(result is None, not is_limit_so(self) or R(self) <= 0))


@contract("flumine/execution/simulatedexecution.py::SimulatedExecution.execute_place", tags=["C03"])
def _(self, order_package: Ref("BetfairOrderPackage"), http_session: Opt(ATOM)):
    requires("market_known", market_known(self, order_package))
    requires("package_kind", order_package.package_type == OrderPackageType.PLACE)
    requires("orders_distinct", distinct_orders(order_package._orders))
    # a placed order stays PENDING until this response: only LIVE orders are matched, and nothing completes a PENDING order
    # except BSP reconciliation (_process_sp), which is the completed-meanwhile case
    requires("orders_await_this_response", forall(lambda k: awaiting_or_completed(order_package._orders[k], OrderStatus.PENDING)
                                                  or order_package._orders[k].status == OrderStatus.VIOLATION, 0, len(order_package._orders)))
    invariant(0, "ahead", forall(lambda j: implies(_i0 <= j, awaiting_or_completed(_seq0_0[j], OrderStatus.PENDING)), 0, len(_seq0_0)))
    raises(NotImplementedError, label="bet_target_size_not_simulated", modifies="same")
    modifies(self, "_bet_id")
    modifies_all("BaseOrder.status")
    modifies_all("BaseOrder.complete")
    modifies_all("BaseOrder.date_time_status_update")
    modifies_all("BaseOrder.date_time_execution_complete")
    modifies_all("BaseOrder.bet_id")
    modifies_all("RunnerContext.invested")  # loop frame resolved by method NAME: RunnerContext.place / BetfairOrder.place are also a `place`
    modifies_all("RunnerContext.datetime_last_placed")
    modifies_all("BaseOrder.publish_time")
    modifies_all("BaseOrder.market_version")
    modifies_all("BaseOrder.async_")
    modifies_all("BaseOrder.size_remaining")
    modifies_all("BaseOrder.size_matched")
    modifies_all("BaseOrder.average_price_matched")
    modifies_all("UpdateData.*")
    modifies_all("Responses.place_response")
    modifies_all("Responses._date_time_placed")
    modifies_all("SimulatedOrder.*")
    modifies_all("Trade.status")
    modifies_all("Trade.date_time_complete")
    modifies_all("RunnerContext.datetime_last_reset")
    modifies_all("MaxTransactionCount.*")
    modifies_all_lists(ATOM)
    modifies_all_lists(Ref("Fragment"))
    modifies_all_lists(Ref("InstructionReport"))
    modifies_all_maps(MapOf(Tup(ATOM, INT, REAL), Ref("RunnerContext")))


def cancel_ready(o):
    """what SimulatedOrder.cancel needs of the order it is applied to (C04's representation invariant; relied upon here)"""
    return (o.simulated.order == o and implies(is_limit_so(o.simulated), Inv4(o.simulated))
            and implies(o.update_data["size_reduction"] is not None, on_grid(o.update_data["size_reduction"]) and o.update_data["size_reduction"] >= 0))


SIM_HANDLER_NOTE = "frames of the simulated handlers are whole-field (loop havoc): only the status obligations are claimed"


@contract("flumine/execution/simulatedexecution.py::SimulatedExecution.execute_cancel", tags=["C03"])
def _(self, order_package: Ref("BetfairOrderPackage"), http_session: Opt(ATOM)):
    requires("market_known", market_known(self, order_package))
    requires("market_book_present", self.flumine.markets._markets[order_package.market_id].market_book is not None)
    requires("package_kind", order_package.package_type == OrderPackageType.CANCEL)
    requires("orders_distinct", distinct_orders(order_package._orders))
    requires("orders_await_this_response", forall(lambda k: awaiting_or_completed(order_package._orders[k], OrderStatus.CANCELLING)
                                                  or order_package._orders[k].status == OrderStatus.VIOLATION, 0, len(order_package._orders)))
    requires("simulated_orders_well_formed", forall(lambda k: cancel_ready(order_package._orders[k]), 0, len(order_package._orders)))
    # an order that completed meanwhile has nothing left (it was fully matched / lapsed / voided): C04's invariant, relied upon
    requires("completed_orders_have_nothing_remaining", forall(lambda k: implies(order_package._orders[k].status == OrderStatus.EXECUTION_COMPLETE,
                                                                                   order_package._orders[k].size_remaining == 0), 0, len(order_package._orders)))
    invariant(0, "ahead", forall(lambda j: implies(_i0 <= j, awaiting_or_completed(_seq0[j], OrderStatus.CANCELLING) and cancel_ready(_seq0[j])
                                                   and implies(_seq0[j].status == OrderStatus.EXECUTION_COMPLETE, _seq0[j].size_remaining == 0)), 0, len(_seq0)))
    modifies_all("BaseOrder.status")
    modifies_all("BaseOrder.complete")
    modifies_all("BaseOrder.date_time_status_update")
    modifies_all("BaseOrder.date_time_execution_complete")
    modifies_all("BaseOrder.bet_id")
    modifies_all("UpdateData.*")
    modifies_all("Responses.place_response")
    modifies_all("Responses._date_time_placed")
    modifies_all("SimulatedOrder.size_cancelled")
    modifies_all("Trade.status")
    modifies_all("Trade.date_time_complete")
    modifies_all("RunnerContext.datetime_last_reset")
    modifies_all("MaxTransactionCount.*")
    modifies_all_lists(ATOM)
    modifies_all_lists(Ref("InstructionReport"))
    modifies_all_maps(MapOf(Tup(ATOM, INT, REAL), Ref("RunnerContext")))


@contract("flumine/execution/simulatedexecution.py::SimulatedExecution.execute_update", tags=["C03"])
def _(self, order_package: Ref("BetfairOrderPackage"), http_session: Opt(ATOM)):
    requires("market_known", market_known(self, order_package))
    requires("market_book_present", self.flumine.markets._markets[order_package.market_id].market_book is not None)
    requires("package_kind", order_package.package_type == OrderPackageType.UPDATE)
    requires("orders_distinct", distinct_orders(order_package._orders))
    requires("orders_await_this_response", forall(lambda k: awaiting_or_completed(order_package._orders[k], OrderStatus.UPDATING)
                                                  or order_package._orders[k].status == OrderStatus.VIOLATION, 0, len(order_package._orders)))
    requires("simulated_orders_well_formed", forall(lambda k: cancel_ready(order_package._orders[k]), 0, len(order_package._orders)))
    # an order that completed meanwhile has nothing left (fully matched / lapsed / voided): C04's invariant, relied upon
    requires("completed_orders_have_nothing_remaining", forall(lambda k: implies(order_package._orders[k].status == OrderStatus.EXECUTION_COMPLETE and is_limit_so(order_package._orders[k].simulated),
                                                                                   R(order_package._orders[k].simulated) <= 0), 0, len(order_package._orders)))
    invariant(0, "ahead", forall(lambda j: implies(_i0 <= j, awaiting_or_completed(_seq0_0[j], OrderStatus.UPDATING) and cancel_ready(_seq0_0[j])
                                                   and implies(_seq0_0[j].status == OrderStatus.EXECUTION_COMPLETE and is_limit_so(_seq0_0[j].simulated), R(_seq0_0[j].simulated) <= 0)), 0, len(_seq0_0)))
    # SimulatedOrder.update returns None for an order with nothing remaining (e.g. completed meanwhile): the handler then
    # fails on `None.status` inside the trade context - a C12 matter (fault strands the order), declared here so that the status
    # obligations of the other paths are decided
    raises(AttributeError, label="no_response_for_an_order_with_nothing_remaining", modifies="same")
    modifies_all("BaseOrder.status")
    modifies_all("BaseOrder.complete")
    modifies_all("BaseOrder.date_time_status_update")
    modifies_all("BaseOrder.bet_id")
    modifies_all("BaseOrderType.persistence_type")
    modifies_all("UpdateData.*")
    modifies_all("Responses.place_response")
    modifies_all("Responses._date_time_placed")
    modifies_all("Trade.status")
    modifies_all("Trade.date_time_complete")
    modifies_all("RunnerContext.datetime_last_reset")
    modifies_all("MaxTransactionCount.*")
    modifies_all_lists(ATOM)
    modifies_all_lists(Ref("InstructionReport"))
    modifies_all_maps(MapOf(Tup(ATOM, INT, REAL), Ref("RunnerContext")))
