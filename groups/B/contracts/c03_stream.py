"""C03 - the order-stream handlers (flumine/order/process.py): legal transitions at the setter calls, and the GUARANTEE the live
response handlers rely on (rely/guarantee at step granularity, A6): the stream never moves an order that has a request in
flight, an unacknowledged synchronous placement, or that is complete."""

inline(
    "flumine/order/order.py::BaseOrder.update_current_order",
    "flumine/order/order.py::BetdaqOrder.current_order",
)
# a current-order record of the exchange (betfairlightweight CurrentOrder / the betdaq dict): external data (A7)
struct("CurrentOrder", status=Opt(ATOM), bet_id=Opt(ATOM), sequence_number=Opt(INT), price=Opt(REAL), size_remaining=Opt(REAL), absent_keyerror=False)
struct("InstructionReport", size_remaining=Opt(REAL), sequence_number=Opt(INT), return_code=Opt(INT), order_id=Opt(ATOM), customer_reference=Opt(INT), absent_keyerror=False)


def truthy_flag(b):
    return b is not None and b


@contract("flumine/order/process.py::process_current_order", tags=["C03", "C12", "C11"])  # C12/C11: the response handlers rely on the stream leaving an order with a request in flight alone
def _(order: Ref("BaseOrder"), current_order: Ref("CurrentOrder"), log_control: CALLBACK):
    requires("live_order_stream", not order._simulated)
    modifies(order.responses, "current_order")
    modifies(order.responses, "_date_time_placed")
    modifies(order, "bet_id")
    modifies(order, "status")
    modifies(order, "complete")
    modifies(order, "date_time_status_update")
    modifies(order, "date_time_execution_complete")
    modifies_list(order.status_log)
    modifies(order.update_data, "*")
    modifies(order.trade, "status")
    modifies(order.trade, "date_time_complete")
    modifies_list(order.trade.status_log)
    modifies_map(order.trade.strategy._invested, when=not has_rctx(order.trade))
    modifies(rctx(order.trade), "datetime_last_reset", when=has_rctx(order.trade))
    modifies_list(rctx(order.trade).live_trades, when=has_rctx(order.trade))
    # the guarantee towards the response handlers
    ensures("request_in_flight_is_left_alone", implies(in_flight(old(order.status)), order.status == old(order.status)))
    ensures("complete_is_final", implies(complete_status(old(order.status)), order.status == old(order.status)))
    ensures("unacknowledged_sync_placement_is_left_alone", implies(old(order.status) == OrderStatus.PENDING and old(order.bet_id) is None and not truthy_flag(old(order.async_)),
                                                                   order.status == OrderStatus.PENDING))
    ensures("only_lifecycle_steps", order.status == old(order.status) or legal(old(order.status), order.status))
    ensures("a_new_order_is_not_started_here", implies(old(order.status) is None, order.status is None))


@contract("flumine/order/process.py::process_betdaq_current_order", tags=["C03"])
def _(order: Ref("BetdaqOrder"), current_order: Ref("CurrentOrder")):
    requires("price_reported", current_order["price"] is not None)  # a betdaq order record always carries its price
    modifies(order.responses, "current_order")
    modifies(order.order_type, "price")
    modifies(order, "status")
    modifies(order, "complete")
    modifies(order, "date_time_status_update")
    modifies(order, "date_time_execution_complete")
    modifies_list(order.status_log)
    modifies(order.update_data, "*")
    modifies(order.trade, "status")
    modifies(order.trade, "date_time_complete")
    modifies_list(order.trade.status_log)
    modifies_map(order.trade.strategy._invested, when=not has_rctx(order.trade))
    modifies(rctx(order.trade), "datetime_last_reset", when=has_rctx(order.trade))
    modifies_list(rctx(order.trade).live_trades, when=has_rctx(order.trade))
    ensures("cancel_in_flight_is_left_alone", implies(old(order.status) == OrderStatus.CANCELLING, order.status == old(order.status)))
    ensures("complete_is_final", implies(complete_status(old(order.status)), order.status == old(order.status)))
    ensures("unacknowledged_placement_is_left_alone", implies(old(order.status) == OrderStatus.PENDING and old(order.bet_id) is None, order.status == OrderStatus.PENDING))
    ensures("only_lifecycle_steps", order.status == old(order.status) or legal(old(order.status), order.status))
