"""C04 / C05 / C06 - the simulated order (flumine/simulation/simulatedorder.py).

Buckets of a simulated LIMIT order: M matched, C cancelled, L lapsed, V voided, S requested size, R = S - M - C - L - V.
Inv4 (DESIGN C04): all on the penny grid, M, C, L, V >= 0, R >= 0.
"""

inline(
    "flumine/simulation/simulatedorder.py::SimulatedOrder.size_remaining",
    "flumine/simulation/simulatedorder.py::SimulatedOrder.take_sp",
    "flumine/simulation/utils.py::SimulatedCancelResponse.__init__",
    "flumine/simulation/utils.py::SimulatedPlaceResponse.__init__",
    "flumine/simulation/utils.py::SimulatedUpdateResponse.__init__",
    "flumine/utils.py::get_price",
    "flumine/utils.py::get_size",
)
clock("flumine.config", "current_time")
schema("SimulatedCancelResponse", status=ATOM, size_cancelled=Opt(REAL), cancelled_date=Opt(REAL), error_code=Opt(ATOM))
schema("SimulatedPlaceResponse", status=ATOM, order_status=Opt(ATOM), bet_id=Opt(ATOM), average_price_matched=Opt(REAL), size_matched=Opt(REAL),
       placed_date=Opt(REAL), error_code=Opt(ATOM))
schema("SimulatedUpdateResponse", status=Opt(ATOM), error_code=Opt(ATOM))


def on_grid(x):
    return is_int(x * 100)


def is_limit_so(so):
    return so.order.order_type.ORDER_TYPE == OrderTypes.LIMIT


def S(so):
    return so.order.order_type.size


def R(so):
    return S(so) - so.size_matched - so.size_cancelled - so.size_lapsed - so.size_voided


def Inv4(so):
    """the penny grid is the MONEY sort of these fields (schema): every store into them carries a grid obligation"""
    return (S(so) is not None and S(so) > 0
            and so.size_matched >= 0 and so.size_cancelled >= 0 and so.size_lapsed >= 0 and so.size_voided >= 0
            and R(so) >= 0)


def frag_ok(f):
    return f[1] > 0 and f[2] > 0 and on_grid(f[2])


def sum_sizes(m):
    return sum_(lambda j: m[j][2], 0, len(m))


def sum_ps(m):
    return sum_(lambda j: m[j][1] * m[j][2], 0, len(m))


# ----------------------------------------------------------------------------- wap
@contract("flumine/utils.py::wap", tags=["C05", "C04", "C06"])
def _(matched: ListOf(Ref("Fragment"))) -> Tup(REAL, REAL):
    invariant(0, "running_sums", a == sum_(lambda j: matched[j][1] * matched[j][2], 0, _i0) and b == sum_(lambda j: matched[j][2], 0, _i0))
    ensures("empty_or_zero", implies(len(matched) == 0 or sum_sizes(matched) == 0 or sum_ps(matched) == 0, result[0] == 0 and result[1] == 0))
    ensures("size_and_average", implies(not (len(matched) == 0 or sum_sizes(matched) == 0 or sum_ps(matched) == 0),
                                        result[0] == round(sum_sizes(matched), 2) and result[1] == round(sum_ps(matched) / sum_sizes(matched), 2)))


# ----------------------------------------------------------------------------- cancel
@contract("flumine/simulation/simulatedorder.py::SimulatedOrder.cancel", tags=["C04", "C02", "C03"])  # C03: the simulated handlers rely on SUCCESS for a LIMIT order on an open market (a completed order is not re-opened by a late cancel)
def _(self, market_book: Ref("MarketBook")) -> Ref("SimulatedCancelResponse"):
    requires("inv4", implies(is_limit_so(self), Inv4(self)))
    requires("reduction_on_grid", implies(self.order.update_data["size_reduction"] is not None,
                                         on_grid(self.order.update_data["size_reduction"]) and self.order.update_data["size_reduction"] >= 0))
    modifies(self, "size_cancelled")
    ensures("closed_market_refuses", implies(market_book.status != "OPEN", result.status == "FAILURE" and self.size_cancelled == old(self.size_cancelled)))
    ensures("not_limit_refuses", implies(market_book.status == "OPEN" and not is_limit_so(self), result.status == "FAILURE" and self.size_cancelled == old(self.size_cancelled)))
    ensures("amount_is_clamped_to_remaining", implies(market_book.status == "OPEN" and is_limit_so(self),
            result.status == "SUCCESS"
            and result.size_cancelled == (old(R(self)) if (old(self.order.update_data["size_reduction"]) is None or old(self.order.update_data["size_reduction"]) == 0
                                                           or old(self.order.update_data["size_reduction"]) > old(R(self)))
                                          else old(self.order.update_data["size_reduction"]))
            and self.size_cancelled == old(self.size_cancelled) + result.size_cancelled))
    ensures("inv4_preserved", implies(is_limit_so(self), Inv4(self)))
