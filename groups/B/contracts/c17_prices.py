"""C17 - price helpers (flumine/utils.py).  The ladder is written from the exchange's increment
table, independently of utils.CUTOFFS."""

inline("flumine/utils.py::as_dec")


def band(t, lo, hi, st):
    return lo <= t and t < hi and exists_int(lambda k: k >= 0 and t == lo + k * st)


def on_classic(t):
    return (
        band(t, 1.01, 2, 0.01) or band(t, 2, 3, 0.02) or band(t, 3, 4, 0.05) or band(t, 4, 6, 0.1)
        or band(t, 6, 10, 0.2) or band(t, 10, 20, 0.5) or band(t, 20, 30, 1) or band(t, 30, 50, 2)
        or band(t, 50, 100, 5) or band(t, 100, 1000, 10) or t == 1000
    )


def dist(a, b):
    return a - b if a >= b else b - a


def closest_in_band(r, x, lo, hi, st):
    return forall_int(lambda k: implies(k >= 0 and lo + k * st < hi, dist(r, x) <= dist(lo + k * st, x)))


def closest_classic(r, x):
    return (
        closest_in_band(r, x, 1.01, 2, 0.01) and closest_in_band(r, x, 2, 3, 0.02) and closest_in_band(r, x, 3, 4, 0.05)
        and closest_in_band(r, x, 4, 6, 0.1) and closest_in_band(r, x, 6, 10, 0.2) and closest_in_band(r, x, 10, 20, 0.5)
        and closest_in_band(r, x, 20, 30, 1) and closest_in_band(r, x, 30, 50, 2) and closest_in_band(r, x, 50, 100, 5)
        and closest_in_band(r, x, 100, 1000, 10) and dist(r, x) <= dist(1000, x)
    )


@contract("flumine/utils.py::get_nearest_price", tags=["C17"])
def _(price: REAL) -> REAL:
    ensures("clamp_low", implies(price <= 1.01, result == 1.01))
    ensures("clamp_high", implies(price > 1000, result == 1000))
    ensures("on_ladder", on_classic(result))
    ensures("closest_tick", closest_classic(result, price))
    ensures("fixpoint_on_ticks", implies(on_classic(price), result == price))


# ----------------------------------------------------------------------------- price_ticks_away
const("flumine.utils", "PRICES", ground_numbers("PRICES"))
const("flumine.utils", "BETDAQ_PRICES", ground_numbers("BETDAQ_PRICES"))
const("flumine.utils", "FINEST_PRICES", grid(1.01, 0.01, 99899))  # ground-checked every run (extra_c17.py)


def strictly_increasing(l):
    return forall_int(lambda a, b: implies(0 <= a and a < b and b < len(l), l[a] < l[b]))


def clamp(i, lo, hi):
    return lo if i < lo else (hi if i > hi else i)


@contract("flumine/utils.py::price_ticks_away", tags=["C17"])
def _(price: REAL, n_ticks: INT, prices: ListOf(REAL)) -> REAL:
    requires("ladder", len(prices) > 0 and strictly_increasing(prices) and prices[0] == 1.01 and prices[len(prices) - 1] == 1000)
    raises(ValueError, when=not exists(lambda a: prices[a] == price, 0, len(prices)), label="off_ladder")
    ensures("n_ticks_away_clamped", forall(lambda a: implies(prices[a] == price, result == prices[clamp(a + n_ticks, 0, len(prices) - 1)]), 0, len(prices)))
