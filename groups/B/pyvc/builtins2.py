"""containers, builtin calls, loops, with-blocks, spec forms (second half of builtins_model)"""
import ast
from fractions import Fraction

import z3

from .values import *  # noqa


def _bm():
    from . import builtins_model as bm

    return bm


def _E():
    from . import engine as E

    return E


# --------------------------------------------------------------------------- coercion
def coerce(eng, v, sort):
    """convert v for storing into a location of the given sort"""
    bm = _bm()
    if isinstance(v, PyVal):
        if v.kind in ("list", "tuple", "set") and isinstance(sort, ListOf):
            return eng.list_new(sort.elem, [coerce(eng, x, sort.elem) for x in v.items])
        if v.kind in ("list", "tuple") and isinstance(sort, Tup):
            if len(v.items) != len(sort.items):
                raise EngineLimit("tuple arity")
            return SV(sort, tuple(coerce(eng, x, s) for x, s in zip(v.items, sort.items)))
        if v.kind in ("list", "tuple") and isinstance(sort, Ref):
            # fixed-shape record stored as an object with fields "0","1",..
            r = SV(sort, eng.new_ref())
            for i, x in enumerate(v.items):
                owner, fs = eng.field_info(sort.cls, str(i))
                eng.write_field(r.t, owner, str(i), fs, coerce(eng, x, fs))
            return r
        if v.kind == "dictlit" and isinstance(sort, MapOf):
            from . import containers as ct

            return ct.map_new(eng, sort, v.items)
        if v.kind == "dictlit" and isinstance(sort, Ref):
            r = SV(sort, eng.new_ref())
            ct_fields = eng.spec.struct_fields(sort.cls)
            given = {}
            for k, x in v.items:
                ks = bm.atom_str(k)
                if ks is None:
                    raise EngineLimit("dict literal key")
                given[ks] = x
            for fname in ct_fields:
                owner, fs = eng.field_info(sort.cls, fname)
                if fname in given:
                    eng.write_field(r.t, owner, fname, fs, coerce(eng, given.pop(fname), fs))
                else:
                    eng.write_field(r.t, owner, fname, fs, absent_value(fs))
            if given:
                raise EngineLimit("dict literal keys %s not in struct %s" % (list(given), sort.cls))
            return r
        if isinstance(sort, Opt):
            return coerce(eng, v, sort.inner)
        raise EngineLimit("cannot coerce %s to %s" % (v, sort))
    if sort == MONEY and v.sort in (REAL, INT) and eng.path is not None and not eng.spec_mode:
        money_oblige(eng, v, True)
        return v
    if isinstance(sort, Opt):
        if v.sort == NONE:
            return v
        if isinstance(v.sort, Opt):
            if sort.inner == MONEY and not eng.spec_mode and eng.path is not None:
                isn, inner = v.t
                money_oblige(eng, inner, _bm().not_(isn))
            return v
        return coerce(eng, v, sort.inner)
    if isinstance(sort, Tup) and isinstance(v.sort, Tup):
        return SV(sort, tuple(coerce(eng, x, s) for x, s in zip(v.t, sort.items)))
    if isinstance(v.sort, Opt) and not isinstance(sort, Opt):
        isn, inner = v.t
        if not eng.spec_mode and eng.path is not None and eng.path.feasible_with(zb(isn)):
            raise EngineLimit("a possibly-None value flows into a location declared %s" % sort)
        return coerce(eng, inner, sort)
    return v


def money_oblige(eng, v, guard):
    """a value stored into a MONEY location must be on the penny grid"""
    if is_conc_num(v.t) or guard is False:
        return
    y = z3.simplify(zreal(v.t) * 100)
    if z3.is_app(y) and y.decl().kind() == z3.Z3_OP_TO_REAL:
        return
    g = y == z3.ToReal(z3.ToInt(y))
    if guard is not True:
        g = z3.Implies(zb(guard), g)
    eng.oblige("%s/safety:money-on-penny-grid" % eng.cur_short, g, "safety")


def absent_value(sort):
    if isinstance(sort, Opt):
        return NONE_V
    raise EngineLimit("struct field of sort %s cannot be absent" % sort)


# --------------------------------------------------------------------------- subscripts
def conc_index(idx):
    if isinstance(idx, SV) and idx.sort in (INT, BOOL) and isinstance(idx.t, (int, bool)):
        return int(idx.t)
    return None


def subscript(eng, base, idx, line):
    bm = _bm()
    E = _E()
    if isinstance(base, PyVal):
        if base.kind in ("list", "tuple"):
            i = conc_index(idx)
            if i is None:
                # symbolic index into a concrete list: case split
                return index_concrete_list(eng, base.items, idx, line)
            n = len(base.items)
            if not -n <= i < n:
                raise E.PyRaise("IndexError", None, line)
            return base.items[i]
        if base.kind == "dictlit":
            for k, v in base.items:
                e = eng.eq(k, idx)
                if e is True:
                    return v
                if e is not False:
                    if eng.branch(e, "dictkey"):
                        return v
            raise E.PyRaise("KeyError", None, line)
        raise EngineLimit("subscript of %s" % base)
    base = eng.deref(base, "TypeError", line)
    s = base.sort
    if isinstance(s, Tup):
        i = conc_index(idx)
        if i is None:
            raise EngineLimit("symbolic tuple index")
        if not -len(base.t) <= i < len(base.t):
            raise E.PyRaise("IndexError", None, line)
        return base.t[i]
    if isinstance(s, ListOf):
        n = eng.list_len(base.t, s.elem)
        if idx.sort not in (INT, BOOL):
            raise EngineLimit("list index of sort %s" % idx.sort)
        i = zr(idx.t)
        if eng.spec_mode:
            return eng.list_get(base.t, s.elem, i)
        # python semantics: negative indices count from the end
        ci = conc_index(idx)
        if ci is not None and ci < 0:
            if eng.branch(n + ci >= 0, "idx"):
                return eng.list_get(base.t, s.elem, n + ci)
            raise E.PyRaise("IndexError", None, line)
        if ci is None and eng.branch(i < 0, "negidx"):
            if eng.branch(n + i >= 0, "idx"):
                return eng.list_get(base.t, s.elem, n + i)
            raise E.PyRaise("IndexError", None, line)
        if eng.branch(i < n, "idx"):
            return eng.list_get(base.t, s.elem, i)
        raise E.PyRaise("IndexError", None, line)
    if isinstance(s, MapOf):
        from . import containers as ct

        return ct.map_getitem(eng, base, idx, line)
    if isinstance(s, Ref) and not eng.spec.is_struct(s.cls) and not eng.spec.is_record(s.cls):
        mem = eng.repo.lookup_member(eng.spec.dispatch.get(s.cls, s.cls), "__getitem__")
        if mem and mem[0] == "method":
            # obj[k] is type(obj).__getitem__(obj, k)
            kind, ci, n = mem
            return eng.call_function(ci.module, ci, n, [base, idx], {}, line, "%s::%s.__getitem__" % (ci.module.relpath, ci.name))
    if isinstance(s, Ref):
        # struct-like dict / record: constant key -> field
        key = bm.atom_str(idx)
        if key is None:
            ci = conc_index(idx)
            key = str(ci) if ci is not None else None
        if key is None:
            raise EngineLimit("symbolic key on record %s" % s.cls)
        fi = eng.field_info(s.cls, key)
        if fi is None:
            raise EngineLimit("record %s has no key %r" % (s.cls, key))
        owner, fs = fi
        v = eng.read_field(base.t, owner, key, fs)
        if eng.spec.is_struct(s.cls) and isinstance(fs, Opt) and eng.spec.struct_absent_is_keyerror(s.cls):
            if eng.spec_mode:
                return v.t[1]
            if eng.branch(v.t[0], "keyabsent"):
                raise E.PyRaise("KeyError", None, line)
            return v.t[1]
        return v
    if s == CHARS:
        return chars_index(eng, base, idx, line)
    raise EngineLimit("subscript on %s (line %s)" % (s, line))


def index_concrete_list(eng, items, idx, line):
    E = _E()
    i = zr(idx.t)
    n = len(items)
    for k in range(n):
        if eng.branch(z3.Or(i == k, i == k - n), "cidx"):
            return items[k]
    raise E.PyRaise("IndexError", None, line)


def set_item(eng, base, idx, v, line):
    bm = _bm()
    E = _E()
    if isinstance(base, PyVal):
        if base.kind == "list":
            i = conc_index(idx)
            if i is None:
                raise EngineLimit("symbolic store into concrete list")
            base.items[i] = v
            return
        if base.kind == "dictlit":
            for j, (k, _) in enumerate(base.items):
                e = eng.eq(k, idx)
                if e is True:
                    base.items[j] = (k, v)
                    return
                if e is not False:
                    raise EngineLimit("symbolic key store in dict literal")
            base.items.append((idx, v))
            return
        raise EngineLimit("item store on %s" % base)
    base = eng.deref(base, "TypeError", line)
    s = base.sort
    if isinstance(s, ListOf):
        n = eng.list_len(base.t, s.elem)
        i = zr(idx.t)
        if not eng.branch(z3.And(i >= 0, i < n), "idxstore"):
            if eng.branch(z3.And(i < 0, i >= -n), "negidxstore"):
                i = n + i
            else:
                raise E.PyRaise("IndexError", None, line)
        arrs = eng.list_items(base.t, s.elem)
        comps = flatten(coerce(eng, v, s.elem), s.elem)
        eng.list_set_all(base.t, s.elem, n, [z3.Store(a, i, c) for a, c in zip(arrs, comps)])
        return
    if isinstance(s, MapOf):
        from . import containers as ct

        return ct.map_setitem(eng, base, idx, v, line)
    if isinstance(s, Ref) and not eng.spec.is_struct(s.cls) and not eng.spec.is_record(s.cls):
        mem = eng.repo.lookup_member(eng.spec.dispatch.get(s.cls, s.cls), "__setitem__")
        if mem and mem[0] == "method":
            # obj[k] = v is type(obj).__setitem__(obj, k, v)
            kind, ci, n = mem
            eng.call_function(ci.module, ci, n, [base, idx, v], {}, line, "%s::%s.__setitem__" % (ci.module.relpath, ci.name))
            return
    if isinstance(s, Ref):
        key = bm.atom_str(idx)
        if key is None:
            ci = conc_index(idx)
            key = str(ci) if ci is not None else None
        if key is None:
            raise EngineLimit("symbolic key store on record")
        fi = eng.field_info(s.cls, key)
        if fi is None:
            raise EngineLimit("record %s has no key %r (line %s)" % (s.cls, key, line))
        owner, fs = fi
        eng.spec.note_write(eng, owner, key, line)
        eng.write_field(base.t, owner, key, fs, coerce(eng, v, fs))
        return
    raise EngineLimit("item store on %s" % s)


def del_item(eng, base, idx, line):
    base = eng.deref(base, "TypeError", line)
    if isinstance(base, SV) and isinstance(base.sort, MapOf):
        from . import containers as ct

        return ct.map_delitem(eng, base, idx, line)
    raise EngineLimit("del item on %s" % base)


def slice_(eng, base, lo, hi, line):
    if isinstance(base, PyVal) and base.kind in ("list", "tuple"):
        l = conc_index(lo) if lo is not None else None
        h = conc_index(hi) if hi is not None else None
        if (lo is not None and l is None) or (hi is not None and h is None):
            raise EngineLimit("symbolic slice of concrete list")
        return PyVal(base.kind, items=base.items[l:h])
    base = eng.deref(base, "TypeError", line)
    if base.sort == CHARS:
        return chars_slice(eng, base, lo, hi)
    if isinstance(base.sort, ListOf):
        return list_slice(eng, base, lo, hi)
    if isinstance(base.sort, Tup):
        l = conc_index(lo) if lo is not None else None
        h = conc_index(hi) if hi is not None else None
        return _bm().make_tuple(list(base.t[l:h]))
    raise EngineLimit("slice of %s" % base.sort)


def list_slice(eng, lv, lo, hi):
    """l[lo:hi] for symbolic bounds (python clamping; negative bounds unsupported)"""
    elem = lv.sort.elem
    n = eng.list_len(lv.t, elem)
    lo_t = zr(lo.t) if lo is not None else z3.IntVal(0)
    hi_t = zr(hi.t) if hi is not None else n
    for b in (lo_t, hi_t):
        if not eng.spec_mode and eng.path.feasible_with(b < 0):
            raise EngineLimit("possibly negative slice bound")
    lo_c = z3.If(lo_t > n, n, lo_t)
    hi_c = z3.If(hi_t > n, n, hi_t)
    length = z3.If(hi_c > lo_c, hi_c - lo_c, 0)
    j = bvar("sl")
    # the slice's cells are named by fresh arrays defined pointwise (lambda terms make z3 5.x give up: "incomplete theory array")
    arrs = []
    for a in eng.list_items(lv.t, elem):
        b = z3.Const(fresh_name("slice"), a.sort())
        eng.path.assume(z3.ForAll([j], z3.Select(b, j) == z3.Select(a, j + lo_c), patterns=[z3.Select(b, j)]), check=False)
        # the same fact triggered from the source side (gives the solver the cell of the slice that holds a[j])
        eng.path.assume(z3.ForAll([j], z3.Select(b, j - lo_c) == z3.Select(a, j), patterns=[z3.Select(a, j)]), check=False)
        arrs.append(b)
    r = eng.new_ref()
    eng.list_set_all(r, elem, length, arrs)
    return SV(ListOf(elem), r)


def unpack(eng, v, n, line):
    E = _E()
    if isinstance(v, PyVal):
        if v.kind in ("list", "tuple"):
            if len(v.items) != n:
                raise E.PyRaise("ValueError", None, line)
            return list(v.items)
        raise EngineLimit("unpack of %s" % v)
    v = eng.deref(v, "TypeError", line)
    if isinstance(v.sort, Tup):
        if len(v.t) != n:
            raise E.PyRaise("ValueError", None, line)
        return list(v.t)
    if isinstance(v.sort, Ref) and eng.spec.is_record(v.sort.cls):
        k = eng.spec.record_len(v.sort.cls)
        if k != n:
            raise E.PyRaise("ValueError", None, line)
        out = []
        for i in range(n):
            owner, fs = eng.field_info(v.sort.cls, str(i))
            out.append(eng.read_field(v.t, owner, str(i), fs))
        return out
    if isinstance(v.sort, ListOf):
        ln = eng.list_len(v.t, v.sort.elem)
        if not eng.branch(ln == n, "unpacklen"):
            raise E.PyRaise("ValueError", None, line)
        return [eng.list_get(v.t, v.sort.elem, z3.IntVal(i)) for i in range(n)]
    raise EngineLimit("unpack of %s" % v.sort)


def iter_concrete(eng, v):
    """python-level list of the elements of a concretely sized iterable"""
    if isinstance(v, PyVal) and v.kind in ("list", "tuple", "set"):
        return list(v.items)
    if isinstance(v, SV) and isinstance(v.sort, Tup):
        return list(v.t)
    raise EngineLimit("iteration over non-concrete %s where a concrete sequence is needed" % (v,))


# --------------------------------------------------------------------------- membership
def contains(eng, container, x, line):
    bm = _bm()
    if isinstance(container, PyVal):
        if container.kind in ("list", "tuple", "set"):
            return bm.or_(*[eng.eq(x, y) for y in container.items])
        if container.kind == "dictlit":
            return bm.or_(*[eng.eq(x, k) for k, _ in container.items])
        if container.kind == "grid":
            return grid_member(eng, container, x)
        if container.kind == "charset":
            return charset_member(eng, container, x)
        raise EngineLimit("membership in %s" % container)
    container = eng.deref(container, "TypeError", line)
    s = container.sort
    if isinstance(s, Tup):
        return bm.or_(*[eng.eq(x, y) for y in container.t])
    if isinstance(s, ListOf):
        n = eng.list_len(container.t, s.elem)
        i = bvar("mi")
        e = eng.eq(eng.list_get(container.t, s.elem, i), coerce(eng, x, s.elem))
        return z3.Exists([i], z3.And(0 <= i, i < n, zb(e)))
    if isinstance(s, MapOf):
        from . import containers as ct

        return ct.map_contains(eng, container, x)
    if isinstance(s, Ref):
        # struct-like dict: "key" in d
        key = bm.atom_str(x)
        if key is not None and eng.spec.is_struct(s.cls):
            fi = eng.field_info(s.cls, key)
            if fi is None:
                return False
            owner, fs = fi
            v = eng.read_field(container.t, owner, key, fs)
            if isinstance(fs, Opt) and eng.spec.struct_absent_is_keyerror(s.cls):
                return bm.not_(v.t[0])
            return True
        mem = eng.repo.lookup_member(s.cls, "__contains__")
        if mem:
            kind, ci, n = mem
            if kind == "attr":  # alias  __contains__ = has_order
                n2 = eng.repo.lookup_member(s.cls, n.id)
                kind, ci, n = n2
            qual = "%s::%s.%s" % (ci.module.relpath, ci.name, n.name)
            r = eng.call_function(ci.module, ci, n, [container, x], {}, line, qual)
            return eng.truth(r)
    raise EngineLimit("membership in %s" % s)


def grid_member(eng, g, x):
    """x in {lo + k*step | 0 <= k <= n} for a ground-checked constant ladder"""
    x = eng.deref(x, "TypeError")
    k = bvar("gk")
    xt = zreal(x.t)
    body = z3.And(k >= 0, k <= g.n, xt == zreal(g.lo) + z3.ToReal(k) * zreal(g.step))
    return z3.Exists([k], body)


def charset_member(eng, cs, x):
    bm = _bm()
    if x.sort == CHARS:
        l, a = x.t
        c = z3.Select(a, 0)
        return z3.And(zr(l) == 1, z3.Or(*[c == code for code in cs.codes]))
    raise EngineLimit("charset membership of %s" % x.sort)


# --------------------------------------------------------------------------- chars (C19)
def chars_const(s):
    a = z3.K(z3.IntSort(), z3.IntVal(0))
    for i, ch in enumerate(s):
        a = z3.Store(a, i, ord(ch))
    return SV(CHARS, (len(s), a))


def chars_binop(eng, opn, a, b):
    if opn == "Add":
        return chars_concat(eng, [a, b])
    raise EngineLimit("chars operator %s" % opn)


def to_chars(v):
    bm = _bm()
    s = bm.atom_str(v)
    if s is not None:
        return chars_const(s)
    if isinstance(v, SV) and v.sort == CHARS:
        return v
    raise EngineLimit("not a character sequence: %s" % (v,))


def chars_concat(eng, parts):
    parts = [to_chars(p) for p in parts]
    j = bvar("cc")
    total = 0
    expr = None
    offs = []
    for p in parts:
        offs.append(total)
        total = total + zr(p.t[0]) if not isinstance(total, int) or not isinstance(p.t[0], int) else total + p.t[0]
    body = z3.IntVal(0)
    for p, off in reversed(list(zip(parts, offs))):
        body = z3.If(j >= zr(off), z3.Select(p.t[1], j - zr(off)), body) if p is not parts[0] else z3.If(j >= 0, body, body)
    # build explicitly: first part for j < len0, etc.
    body = z3.IntVal(0)
    for p, off in zip(reversed(parts), reversed(offs)):
        body = z3.If(j >= zr(off), z3.Select(p.t[1], j - zr(off)), body)
    # the loop above picks the LAST part whose offset <= j, which is the right one
    body = None
    for p, off in zip(parts, offs):
        sel = z3.Select(p.t[1], j - zr(off))
        body = sel if body is None else z3.If(j >= zr(off), sel, body)
    return SV(CHARS, (total, z3.Lambda([j], body)))


def chars_slice(eng, base, lo, hi):
    l, a = base.t
    lz = zr(l)
    lo_t = zr(lo.t) if lo is not None else z3.IntVal(0)
    hi_t = zr(hi.t) if hi is not None else lz
    lo_c = z3.If(lo_t > lz, lz, lo_t)
    hi_c = z3.If(hi_t > lz, lz, hi_t)
    length = z3.If(hi_c > lo_c, hi_c - lo_c, 0)
    j = bvar("cs")
    return SV(CHARS, (z3.simplify(length), z3.Lambda([j], z3.Select(a, j + lo_c))))


def chars_index(eng, base, idx, line):
    E = _E()
    l, a = base.t
    i = zr(idx.t)
    if not eng.spec_mode:
        if not eng.branch(z3.And(i >= 0, i < zr(l)), "chidx"):
            raise E.PyRaise("IndexError", None, line)
    return SV(CHARS, (1, z3.Store(z3.K(z3.IntSort(), z3.IntVal(0)), 0, z3.Select(a, i))))


# --------------------------------------------------------------------------- list ops
def list_extend(eng, lv, other):
    if isinstance(other, PyVal) and other.kind in ("list", "tuple"):
        for x in other.items:
            eng.list_append(lv, coerce(eng, x, lv.sort.elem))
        return
    if isinstance(other, SV) and isinstance(other.sort, ListOf):
        cat = list_concat(eng, lv, other)
        elem = lv.sort.elem
        eng.list_set_all(lv.t, elem, eng.list_len(cat.t, elem), eng.list_items(cat.t, elem))
        return
    if isinstance(other, PyVal) and other.kind == "genfunc_call":
        raise EngineLimit("extend from generator")
    raise EngineLimit("extend with %s" % (other,))


def list_concat(eng, a, b):
    elem = a.sort.elem
    if isinstance(b, PyVal):
        b = coerce(eng, b, ListOf(elem))
    if isinstance(a, PyVal):
        a = coerce(eng, a, ListOf(elem))
    na = eng.list_len(a.t, elem)
    nb = eng.list_len(b.t, elem)
    j = bvar("lc")
    # cells of the concatenation: fresh arrays defined pointwise (no lambda terms: z3 5.x gives up on them)
    arrs = []
    for x, y in zip(eng.list_items(a.t, elem), eng.list_items(b.t, elem)):
        c = z3.Const(fresh_name("concat"), x.sort())
        eng.path.assume(z3.ForAll([j], z3.Select(c, j) == z3.If(j < na, z3.Select(x, j), z3.Select(y, j - na)), patterns=[z3.Select(c, j)]), check=False)
        arrs.append(c)
    r = eng.new_ref()
    eng.list_set_all(r, elem, na + nb, arrs)
    return SV(ListOf(elem), r)


def container_binop(eng, opn, a, b, line):
    bm = _bm()
    if opn == "Add":
        if isinstance(a, PyVal) and isinstance(b, PyVal) and a.kind in ("list", "tuple") and b.kind == a.kind:
            return PyVal(a.kind, items=a.items + b.items)
        if isinstance(a, SV) and isinstance(a.sort, Tup) and isinstance(b, SV) and isinstance(b.sort, Tup):
            return bm.make_tuple(list(a.t) + list(b.t))
        if (isinstance(a, SV) and isinstance(a.sort, ListOf)) or (isinstance(b, SV) and isinstance(b.sort, ListOf)):
            if isinstance(a, PyVal):
                a = coerce(eng, a, b.sort)
            return list_concat(eng, a, b)
        sa, sb = bm.atom_str(a), bm.atom_str(b)
        if sa is not None and sb is not None:
            return bm.const_value(sa + sb)
    if opn == "Mult":
        # [0] * n  : only as an operand of  list + [0]*n  handled through a 'repeat' value
        lst, n = (a, b) if isinstance(a, PyVal) else (b, a)
        if isinstance(lst, PyVal) and lst.kind == "list" and len(lst.items) == 1 and isinstance(n, SV):
            cn = conc_index(n)
            if cn is not None:
                return PyVal("list", items=lst.items * max(cn, 0))
            return PyVal("repeat", item=lst.items[0], n=n)
    raise EngineLimit("operator %s on containers (line %s)" % (opn, line))


# --------------------------------------------------------------------------- attribute access on values
LIST_METHODS = {"append", "copy", "remove", "index", "extend", "clear", "pop", "sort", "insert", "count"}
MAP_METHODS = {"get", "items", "keys", "values", "pop", "clear", "copy", "setdefault", "update"}


def value_getattr(eng, base, attr, line):
    s = base.sort
    if isinstance(s, ListOf) and attr in LIST_METHODS:
        return PyVal("valmethod", self_=base, name=attr)
    if isinstance(s, MapOf) and attr in MAP_METHODS:
        return PyVal("valmethod", self_=base, name=attr)
    if isinstance(s, Ref) and eng.spec.is_struct(s.cls) and attr in ("get", "clear", "update"):
        return PyVal("valmethod", self_=base, name=attr)
    if s == REAL and attr in ("quantize", "total_seconds", "date", "hour", "replace", "utcnow"):
        return PyVal("valmethod", self_=base, name=attr) if attr != "hour" else dt_hour(base)
    if s == ATOM and attr in ("value", "name"):
        return _bm().opaque_string(eng, "enumvalue")
    if s == ATOM and attr in ("format", "join", "lower", "upper", "strip"):
        return PyVal("valmethod", self_=base, name=attr)
    if s == CHARS and attr in ("encode", "split", "join"):
        return PyVal("valmethod", self_=base, name=attr)
    raise EngineLimit("attribute %s on value of sort %s (line %s)" % (attr, s, line))


def dt_hour(v):
    """datetime (real seconds) -> hour of day"""
    t = zreal(v.t)
    day = z3.ToInt(t / 86400)
    return SV(INT, z3.ToInt((t - z3.ToReal(day) * 86400) / 3600))


def pyval_getattr(eng, base, attr, line):
    bm = _bm()
    k = base.kind
    if k == "module":
        m = base.module
        mv = eng.spec.module_var_sort(m.modname, attr)
        if mv is not None:
            return eng.read_field(z3.IntVal(0), "$mod:" + m.modname, attr, mv)
        r = eng.repo.lookup_module_name(m, attr)
        if r is None:
            raise EngineLimit("module %s has no %s" % (m.modname, attr))
        return eng.import_value(r, attr)
    if k == "class":
        ci = base.ci
        mem = eng.repo.lookup_member(ci.name, attr)
        if mem:
            kind, owner, n = mem
            if kind == "attr":
                return eng.eval(n, _E().Frame(owner.module, owner, None, {}))
            if kind == "method":
                if attr in owner.classmethods:
                    # Class.method(...) on a classmethod: the class is passed as the first argument
                    return PyVal("bound", self_=base, module=owner.module, cls=owner, node=n, name=attr)
                return PyVal("func", module=owner.module, cls=owner, node=n, name=attr)
        # enum member?
        if "Enum" in ci.bases and attr in ci.attrs:
            return SV(ATOM, Atom("%s.%s" % (ci.name, attr)))
        raise EngineLimit("class attribute %s.%s" % (ci.name, attr))
    if k in ("list", "tuple", "set") and attr in ("append", "add", "copy", "index", "extend", "union", "clear", "remove"):
        return PyVal("valmethod", self_=base, name=attr)
    if k == "dictlit" and attr in ("get", "items", "keys", "values", "copy", "clear", "pop"):
        return PyVal("valmethod", self_=base, name=attr)
    if k == "super":
        # super().attr / super(C, self).attr: the member found after C in the class hierarchy, bound to self
        for cname in eng.repo.mro(base.cls.name)[1:]:
            ci = eng.repo.classes.get(cname)
            if ci is not None and attr in ci.methods:
                return PyVal("bound", self_=base.self_, module=ci.module, cls=ci, node=ci.methods[attr], name=attr)
        raise EngineLimit("super().%s not found (line %s)" % (attr, line))
    if k == "extmodule":
        return PyVal("ext", module=base.name, name=attr)
    if k == "ext":
        return PyVal("ext", module=base.module + "." + base.name, name=attr)
    if k == "excinst":
        return bm.opaque_string(eng, "excattr")
    raise EngineLimit("attribute %s of %s (line %s)" % (attr, base, line))


# --------------------------------------------------------------------------- comprehension
def comprehension(eng, node, fr, kind):
    bm = _bm()
    E = _E()
    if len(node.generators) != 1:
        raise EngineLimit("nested comprehension")
    g = node.generators[0]
    it = eng.eval(g.iter, fr)
    if isinstance(it, SV) and isinstance(it.sort, Opt):
        it = eng.deref(it, "TypeError", node.lineno)
    conc = None
    if isinstance(it, PyVal) and it.kind in ("list", "tuple", "set"):
        conc = it.items
    elif isinstance(it, SV) and isinstance(it.sort, Tup):
        conc = list(it.t)
    if conc is not None:
        out = []
        for x in conc:
            fr2 = E.Frame(fr.module, fr.cls, fr.func, dict(fr.locals))
            eng.assign(g.target, x, fr2, node.lineno)
            keep = True
            for c in g.ifs:
                if not eng.branch(eng.truth(eng.eval(c, fr2)), "compif"):
                    keep = False
                    break
            if keep:
                out.append(eng.eval(node.elt, fr2))
        return PyVal("list" if kind == "list" else "set", items=out)
    if isinstance(it, SV) and isinstance(it.sort, ListOf):
        return symbolic_comprehension(eng, node, g, it, fr, kind)
    if isinstance(it, PyVal) and it.kind == "mapview":
        from . import containers as ct

        return ct.map_comprehension(eng, node, g, it, fr, kind)
    raise EngineLimit("comprehension over %s (line %s)" % (it, node.lineno))


def symbolic_comprehension(eng, node, g, lv, fr, kind):
    """[elt for x in L if c]  over a heap list of symbolic length.

    Result: a fresh list R with the defining facts of a filter-map:
      - there is a strictly increasing index map  f: [0,len R) -> [0,len L)
      - R[j] == elt(L[f(j)]) and cond(L[f(j)])
      - every i with cond(L[i]) is in the image  (g(i) with f(g(i)) == i)
    (for the unfiltered case f is the identity and len R == len L).
    The element sort of R is inferred from a probe evaluation of elt.
    """
    E = _E()
    bm = _bm()
    elem = lv.sort.elem
    n = eng.list_len(lv.t, elem)
    i = bvar("ci")
    fr2 = E.Frame(fr.module, fr.cls, fr.func, dict(fr.locals))
    saved_mode = eng.spec_mode
    eng.spec_mode = True  # element expressions must be pure (no forking)
    try:
        x = eng.list_get(lv.t, elem, i)
        eng.assign(g.target, x, fr2, node.lineno)
        conds = [eng.truth(eng.eval(c, fr2)) for c in g.ifs]
        cond = bm.and_(*conds)
        ev = eng.eval(node.elt, fr2)
    finally:
        eng.spec_mode = saved_mode
    if isinstance(ev, PyVal):
        raise EngineLimit("comprehension element is a python-level value")
    rs = ev.sort
    comps = flatten(ev, rs)
    r = eng.new_ref()
    if cond is True:
        arrs = [z3.Lambda([i], c) for c in comps]
        eng.list_set_all(r, rs, n, arrs)
        return SV(ListOf(rs), r)
    # filtered: the result is a deterministic function of (condition array, source length):
    #   FLEN(c, n), FIDX(c, n, j), FINV(c, n, i)  - so the same filter written twice yields the same terms
    condz = zb(cond)
    carr = z3.simplify(z3.Lambda([i], condz))
    bs = z3.ArraySort(z3.IntSort(), z3.BoolSort())
    FLEN = z3.Function("FLEN", bs, z3.IntSort(), z3.IntSort())
    FIDX = z3.Function("FIDX", bs, z3.IntSort(), z3.IntSort(), z3.IntSort())
    FINV = z3.Function("FINV", bs, z3.IntSort(), z3.IntSort(), z3.IntSort())
    m = FLEN(carr, n)
    f = lambda j_: FIDX(carr, n, j_)
    ginv = lambda i_: FINV(carr, n, i_)
    j = bvar("cj")
    j2 = bvar("cj2")
    arrs = [z3.simplify(z3.Lambda([j], z3.substitute(c, (i, f(j))))) for c in comps]
    eng.list_set_all(r, rs, m, arrs)
    p = eng.path
    done = p.ghost.setdefault("filter_axioms", set())
    key = (carr.get_id(), zr(n).get_id())
    if key not in done:
        done.add(key)
        p.assume(z3.And(m >= 0, m <= n), check=False)
        p.assume(z3.ForAll([j], z3.Implies(z3.And(0 <= j, j < m), z3.And(0 <= f(j), f(j) < n, z3.Select(carr, f(j))))), check=False)
        p.assume(z3.ForAll([j, j2], z3.Implies(z3.And(0 <= j, j < j2, j2 < m), f(j) < f(j2))), check=False)
        p.assume(z3.ForAll([i], z3.Implies(z3.And(0 <= i, i < n, z3.Select(carr, i)), z3.And(0 <= ginv(i), ginv(i) < m, f(ginv(i)) == i))), check=False)
    eng.path.notes.append("filter-comprehension axioms at line %s" % node.lineno)
    return SV(ListOf(rs), r)


def dict_comprehension(eng, node, fr):
    from . import containers as ct

    return ct.dict_comprehension(eng, node, fr)


from .builtins3 import *  # noqa
