"""builtin calls, methods on values, constructors, loops, with-blocks, spec forms"""
import ast
from fractions import Fraction

import z3

from .values import *  # noqa


def _bm():
    from . import builtins_model as bm

    return bm


def _E():
    from . import engine as E

    return E


# --------------------------------------------------------------------------- rounding (A2)
def round_nd(eng, x, nd):
    """round(x, nd) = RND_nd(x): a deterministic function with  10^nd * RND(x) integer,
    |RND(x) - x| <= half a unit (either neighbour at a tie) and RND(-x) == -RND(x)  (A2)."""
    scale = 10 ** nd
    if is_conc_num(x.t):
        fx = Fraction(x.t) * scale
        lo = fx.numerator // fx.denominator
        if fx - lo != Fraction(1, 2):
            r = lo if fx - lo < Fraction(1, 2) else lo + 1
            return SV(REAL, Fraction(r, scale))
    # RND is deterministic and odd; it is Ackermannised (one real variable per distinct argument term plus the
    # pairwise congruence / oddness implications) because UF applications over real terms made the integrality
    # goals undecidable in practice for z3 and cvc5
    xt = z3.simplify(zreal(x.t))
    reg = eng.path.ghost.setdefault("rnd", [])
    for x0, r0, nd0 in reg:
        if nd0 == nd and x0.eq(xt):
            return SV(REAL, r0)
    k = z3.Int(fresh_name("rnd"))
    r = z3.Real(fresh_name("rndv"))
    half = z3.RealVal(1) / (2 * scale)
    facts = [r * scale == z3.ToReal(k), r - xt <= half, xt - r <= half]
    for x0, r0, nd0 in reg:
        if nd0 == nd:
            facts.append(z3.Implies(xt == x0, r == r0))
            facts.append(z3.Implies(xt == -x0, r == -r0))
    reg.append((xt, r, nd))
    for fct in facts:
        eng.path.assume(fct, check=False)
    return SV(REAL, r)


# --------------------------------------------------------------------------- builtin calls
def call_builtin(eng, name, args, kwargs, line, fr):
    bm = _bm()
    E = _E()
    if name == "len":
        v = args[0]
        if isinstance(v, PyVal):
            if v.kind in ("list", "tuple", "set", "dictlit"):
                return SV(INT, len(v.items))
            if v.kind == "repeat":
                return v.n
            raise EngineLimit("len of %s" % v)
        v = eng.deref(v, "TypeError", line)
        if isinstance(v.sort, Tup):
            return SV(INT, len(v.t))
        if isinstance(v.sort, ListOf):
            return SV(INT, eng.list_len(v.t, v.sort.elem))
        if isinstance(v.sort, MapOf):
            return SV(INT, bm.map_size(eng, v))
        if v.sort == CHARS:
            return SV(INT, v.t[0])
        if isinstance(v.sort, Ref):
            mem = eng.repo.lookup_member(v.sort.cls, "__len__")
            if mem:
                kind, ci, n = mem
                return eng.call_function(ci.module, ci, n, [v], {}, line, "%s::%s.__len__" % (ci.module.relpath, ci.name))
        raise EngineLimit("len of %s" % v.sort)
    if name in ("min", "max"):
        key = kwargs.get("key")
        if key is not None:
            raise EngineLimit("min/max with key")
        items = args
        if len(args) == 1:
            items = bm.iter_concrete(eng, args[0])
        res = eng.deref(items[0], "TypeError", line)
        for y in items[1:]:
            y = eng.deref(y, "TypeError", line)
            c = bm.order_compare(eng, "Lt" if name == "min" else "Gt", y, res, line)
            if isinstance(c, bool):
                res = y if c else res
            elif eng.spec_mode:
                d = eng.decide(c)
                res = (y if d else res) if d is not None else bm.ite(eng, c, y, res)
            else:
                # executable code: case split (keeps if-then-else terms out of integrality / rounding goals)
                res = y if eng.branch(c, name) else res
        return res
    if name == "abs":
        x = eng.deref(args[0], "TypeError", line)
        if is_conc_num(x.t):
            return SV(x.sort, abs(x.t))
        if not eng.spec_mode:
            return x if eng.branch(zr(x.t) >= 0, "abs") else SV(x.sort, -zr(x.t))
        return SV(x.sort, z3.If(zr(x.t) >= 0, zr(x.t), -zr(x.t)))
    if name == "round":
        x = eng.deref(args[0], "TypeError", line)
        x = bm.as_num(eng, x, line)
        if len(args) == 1:
            raise EngineLimit("round to int")
        nd = args[1]
        if not (isinstance(nd.t, int)):
            raise EngineLimit("round with symbolic digits")
        return round_nd(eng, x, nd.t)
    if name == "float":
        x = eng.deref(args[0], "TypeError", line)
        if x.sort in (REAL, INT, BOOL):
            x = bm.as_num(eng, x, line)
            return SV(REAL, x.t if is_conc_num(x.t) else zreal(x.t))
        raise EngineLimit("float() of %s" % x.sort)
    if name == "int":
        x = eng.deref(args[0], "TypeError", line)
        if x.sort == INT:
            return x
        if x.sort == CHARS:
            return SV(INT, z3.Function("str_to_int", z3.IntSort(), z3.ArraySort(z3.IntSort(), z3.IntSort()), z3.IntSort())(zr(x.t[0]), x.t[1]))
        raise EngineLimit("int() of %s" % x.sort)
    if name == "bool":
        return SV(BOOL, eng.truth(args[0]))
    if name == "str":
        v = args[0] if args else None
        r = bm.opaque_string(eng, "str")
        if isinstance(v, SV) and isinstance(v.sort, Opt) and v.sort.inner in (REAL, INT) and not eng.spec_mode:
            if not eng.branch(v.t[0], "str-none"):
                v = v.t[1]
        if isinstance(v, SV) and v.sort in (REAL, INT):
            r.aux = v  # str(number): remembered so that Decimal(str(x)) is x (A1)
        elif isinstance(v, SV) and v.sort in (ATOM, CHARS):
            return v
        return r
    if name == "isinstance":
        return isinstance_model(eng, args[0], args[1], line)
    if name in ("list", "tuple"):
        if not args:
            return PyVal("list" if name == "list" else "tuple", items=[])
        v = args[0]
        if isinstance(v, PyVal) and v.kind in ("list", "tuple", "set"):
            return PyVal("list" if name == "list" else "tuple", items=list(v.items))
        if isinstance(v, SV) and isinstance(v.sort, ListOf):
            return list_copy(eng, v)
        if isinstance(v, PyVal) and v.kind == "mapview":
            from . import containers as ct

            return ct.view_to_list(eng, v)
        if isinstance(v, PyVal) and v.kind == "genfunc_call":
            raise EngineLimit("list(generator)")
        if isinstance(v, PyVal) and v.kind == "iter":
            return call_builtin(eng, name, [v.of], {}, line, fr)
        raise EngineLimit("%s() of %s" % (name, v))
    if name == "iter":
        return PyVal("iter", of=args[0])
    if name == "set":
        if not args:
            return PyVal("set", items=[])
        v = args[0]
        if isinstance(v, PyVal) and v.kind in ("list", "tuple", "set"):
            return PyVal("set", items=dedup(eng, v.items))
        if isinstance(v, SV) and isinstance(v.sort, ListOf):
            return PyVal("setof", of=v)
        raise EngineLimit("set() of %s" % v)
    if name == "dict":
        if not args and not kwargs:
            return PyVal("dictlit", items=[])
        raise EngineLimit("dict() with arguments")
    if name == "zip":
        return PyVal("zip", parts=list(args))
    if name == "enumerate":
        return PyVal("enumerate", of=args[0])
    if name == "range":
        return PyVal("range", args=list(args))
    if name == "reversed":
        v = args[0]
        if isinstance(v, PyVal) and v.kind in ("list", "tuple"):
            return PyVal("list", items=list(reversed(v.items)))
        raise EngineLimit("reversed of %s" % v)
    if name == "sum":
        return sum_builtin(eng, args, line)
    if name == "sorted":
        return sorted_builtin(eng, args, kwargs, line)
    if name == "hasattr":
        v = args[0]
        nm = bm.atom_str(args[1])
        if isinstance(v, SV) and isinstance(v.sort, Ref):
            has = eng.field_info(v.sort.cls, nm) is not None or eng.repo.lookup_member(v.sort.cls, nm) is not None
            return SV(BOOL, has)
        raise EngineLimit("hasattr on %s" % v)
    if name == "super":
        if fr is None or fr.cls is None:
            raise EngineLimit("super() outside method")
        return PyVal("super", cls=fr.cls, self_=fr.locals.get("self"))
    if name == "print":
        return NONE_V
    if name in ("any", "all"):
        v = args[0]
        items = bm.iter_concrete(eng, v)
        ts = [eng.truth(x) for x in items]
        return SV(BOOL, bm.or_(*ts) if name == "any" else bm.and_(*ts))
    if name == "next":
        raise EngineLimit("next()")
    raise EngineLimit("builtin %s" % name)


def dedup(eng, items):
    out = []
    for x in items:
        dup = False
        for y in out:
            e = eng.eq(x, y)
            if e is True:
                dup = True
                break
            if e is not False:
                raise EngineLimit("set of possibly-equal symbolic values")
        if not dup:
            out.append(x)
    return out


def isinstance_model(eng, v, cls, line):
    bm = _bm()
    names = []
    if isinstance(cls, PyVal) and cls.kind == "class":
        names = [cls.ci.name]
    elif isinstance(cls, PyVal) and cls.kind == "builtin":
        names = [cls.name]
    elif isinstance(cls, PyVal) and cls.kind == "tuple":
        return SV(BOOL, bm.or_(*[isinstance_model(eng, v, c, line).t for c in cls.items]))
    elif isinstance(cls, PyVal) and cls.kind == "ext":
        names = [cls.name]
    else:
        raise EngineLimit("isinstance against %s" % (cls,))
    n = names[0]
    if isinstance(v, PyVal):
        k = {"list": "list", "tuple": "tuple", "dictlit": "dict", "set": "set"}.get(v.kind)
        return SV(BOOL, k == n)
    if isinstance(v.sort, Opt):
        inner = isinstance_model(eng, v.t[1], cls, line).t
        return SV(BOOL, bm.and_(bm.not_(v.t[0]), inner))
    if v.sort == NONE:
        return SV(BOOL, False)
    if isinstance(v.sort, Ref):
        if n in ("list", "tuple", "dict", "set", "str", "int", "float"):
            if n == "dict" and eng.spec.is_struct(v.sort.cls):
                return SV(BOOL, True)
            return SV(BOOL, False)
        if eng.repo.is_subclass(v.sort.cls, n):
            return SV(BOOL, True)
        if eng.repo.is_subclass(n, v.sort.cls):
            # static class is a super class: dynamic class tag
            tag = eng.spec.class_tag(eng, v)
            if tag is None:
                raise EngineLimit("isinstance needs dynamic class of %s" % v.sort.cls)
            return SV(BOOL, bm.or_(*[tag == ATOMS.code("cls:" + c) for c in eng.repo.classes if eng.repo.is_subclass(c, n)]))
        return SV(BOOL, False)
    if isinstance(v.sort, ListOf):
        return SV(BOOL, n == "list")
    if isinstance(v.sort, Tup):
        return SV(BOOL, n == "tuple")
    if isinstance(v.sort, MapOf):
        return SV(BOOL, n == "dict")
    if v.sort in (REAL,):
        return SV(BOOL, n == "float")
    if v.sort == INT:
        return SV(BOOL, n == "int")
    if v.sort in (ATOM, CHARS):
        return SV(BOOL, n == "str")
    raise EngineLimit("isinstance of %s" % v.sort)


def list_copy(eng, lv):
    elem = lv.sort.elem
    r = eng.new_ref()
    eng.list_set_all(r, elem, eng.list_len(lv.t, elem), eng.list_items(lv.t, elem))
    return SV(ListOf(elem), r)


def sum_builtin(eng, args, line):
    bm = _bm()
    v = args[0]
    if isinstance(v, PyVal) and v.kind in ("list", "tuple"):
        acc = SV(INT, 0)
        for x in v.items:
            acc = bm.arith(eng, "Add", acc, eng.deref(x, "TypeError", line), line)
        return acc
    if isinstance(v, SV) and isinstance(v.sort, ListOf) and v.sort.elem in (REAL, INT):
        n = eng.list_len(v.t, v.sort.elem)
        arr = eng.list_items(v.t, v.sort.elem)[0]
        return SV(v.sort.elem, seq_sum(eng, arr, z3.IntVal(0), n, v.sort.elem))
    raise EngineLimit("sum of %s" % (v,))


def sorted_builtin(eng, args, kwargs, line):
    v = args[0]
    if isinstance(v, PyVal) and v.kind in ("list", "tuple", "set") and len(v.items) <= 1:
        return PyVal("list", items=list(v.items))
    if isinstance(v, PyVal) and v.kind == "list" and not kwargs and all(isinstance(x, SV) and is_conc_num(x.t) for x in v.items):
        return PyVal("list", items=sorted(v.items, key=lambda x: x.t))
    c = eng.spec.builtin_contract("sorted")
    if c is not None:
        from . import contracts as C

        return C.apply_builtin_sorted(eng, v, kwargs, line)
    raise EngineLimit("sorted() of %s" % (v,))


# --------------------------------------------------------------------------- sums as spec functions
def seq_sum(eng, arr, lo, hi, sort=REAL, family="sum"):
    """Sigma_{lo <= j < hi} arr[j] as an uninterpreted function with on-demand unfolding axioms"""
    p = eng.path
    reg = p.ghost.setdefault("sums", [])
    zs = z3.RealSort() if sort == REAL else z3.IntSort()
    f = z3.Function("SUM_%s" % ("R" if sort == REAL else "I"), z3.ArraySort(z3.IntSort(), zs), z3.IntSort(), z3.IntSort(), zs)
    t = f(arr, zr(lo), zr(hi))
    reg.append((f, arr, zr(lo), zr(hi), sort, family))
    return t


def sum_axioms(eng):
    """unfolding + congruence instances for every registered sum term of this path (computed incrementally)"""
    p = eng.path
    if p is None:
        return []
    reg = p.ghost.get("sums", [])
    st = p.ghost.setdefault("sum_state", dict(done=0, seen=set(), items=[], ax=[]))
    zero = lambda s: z3.RealVal(0) if s == REAL else z3.IntVal(0)
    ax = st["ax"]
    items = st["items"]
    for f, arr, lo, hi, sort, fam in reg[st["done"]:]:
        key = (f.name(), arr.get_id(), lo.get_id(), hi.get_id())
        if key in st["seen"]:
            continue
        st["seen"].add(key)
        ax.append(z3.Implies(hi <= lo, f(arr, lo, hi) == zero(sort)))
        ax.append(z3.Implies(hi > lo, f(arr, lo, hi) == f(arr, lo, hi - 1) + z3.Select(arr, hi - 1)))
        ax.append(z3.Implies(hi - 1 <= lo, f(arr, lo, hi - 1) == zero(sort)))
        # congruence with the earlier sums: equal contents on the range => equal sums
        for f2, arr2, lo2, hi2, s2, fam2 in items:
            if s2 != sort or fam2 != fam or arr2.get_id() == arr.get_id():
                continue
            ranges = {}
            for (l, h) in ((lo, hi), (lo2, hi2), (lo, hi - 1), (lo2, hi2 - 1)):
                ranges[(l.get_id(), h.get_id())] = (l, h)
            for (l, h) in ranges.values():
                kk = z3.Int(fresh_name("sk"))
                ax.append(z3.Or(z3.And(l <= kk, kk < h, z3.Select(arr, kk) != z3.Select(arr2, kk)), f(arr, l, h) == f2(arr2, l, h)))
        items.append((f, arr, lo, hi, sort, fam))
    st["done"] = len(reg)
    return list(ax)


# --------------------------------------------------------------------------- methods on values
def call_value_method(eng, base, name, args, kwargs, line, fr):
    bm = _bm()
    E = _E()
    if isinstance(base, PyVal):
        k = base.kind
        if k == "list":
            if name == "append":
                base.items.append(args[0])
                return NONE_V
            if name == "extend":
                base.items.extend(bm.iter_concrete(eng, args[0]))
                return NONE_V
            if name == "copy":
                return PyVal("list", items=list(base.items))
            if name == "clear":
                del base.items[:]
                return NONE_V
            if name == "index":
                for i, y in enumerate(base.items):
                    if eng.branch(eng.eq(args[0], y), "index"):
                        return SV(INT, i)
                raise E.PyRaise("ValueError", None, line)
        if k == "set":
            if name == "add":
                for y in base.items:
                    e = eng.eq(args[0], y)
                    if e is True:
                        return NONE_V
                    if e is not False:
                        if eng.branch(e, "setadd"):
                            return NONE_V
                base.items.append(args[0])
                return NONE_V
            if name == "union":
                out = list(base.items)
                res = PyVal("set", items=out)
                for x in bm.iter_concrete(eng, args[0]):
                    call_value_method(eng, res, "add", [x], {}, line, fr)
                return res
        if k == "setof" and name == "add":
            raise EngineLimit("add to symbolic set")
        if k == "dictlit":
            if name == "get":
                for kk, v in base.items:
                    e = eng.eq(kk, args[0])
                    if e is True:
                        return v
                    if e is not False:
                        if eng.branch(e, "dictget"):
                            return v
                return args[1] if len(args) > 1 else NONE_V
            if name == "items":
                return PyVal("list", items=[bm.make_tuple([kk, v]) for kk, v in base.items])
            if name == "keys":
                return PyVal("list", items=[kk for kk, v in base.items])
            if name == "values":
                return PyVal("list", items=[v for kk, v in base.items])
            if name == "copy":
                return PyVal("dictlit", items=list(base.items))
            if name == "clear":
                del base.items[:]
                return NONE_V
        raise EngineLimit("method %s on %s" % (name, base.kind))
    s = base.sort
    if s == ATOM and name in ("format", "join", "lower", "upper", "strip"):
        return bm.opaque_string(eng, name)
    if isinstance(s, ListOf):
        elem = s.elem
        if name == "append":
            eng.list_append(base, bm.coerce(eng, args[0], elem))
            return NONE_V
        if name == "copy":
            return list_copy(eng, base)
        if name == "extend":
            bm.list_extend(eng, base, args[0])
            return NONE_V
        if name == "clear":
            eng.list_set_all(base.t, elem, 0, eng.list_items(base.t, elem))
            return NONE_V
        if name == "index":
            n = eng.list_len(base.t, elem)
            x = bm.coerce(eng, args[0], elem)
            i = bvar("li")
            j = bvar("lj")
            e_i = zb(eng.eq(eng.list_get(base.t, elem, i), x))
            exists = z3.Exists([i], z3.And(0 <= i, i < n, e_i))
            if not eng.branch(exists, "index"):
                raise E.PyRaise("ValueError", None, line)
            r = z3.Int(fresh_name("idx"))
            e_r = zb(eng.eq(eng.list_get(base.t, elem, r), x))
            e_j = zb(eng.eq(eng.list_get(base.t, elem, j), x))
            eng.path.assume(z3.And(0 <= r, r < n, e_r, z3.ForAll([j], z3.Implies(z3.And(0 <= j, j < r), z3.Not(e_j)))), check=False)
            return SV(INT, r)
        if name == "remove":
            return list_remove(eng, base, args[0], line)
        if name == "pop":
            n = eng.list_len(base.t, elem)
            if args:
                ci = bm.conc_index(args[0])
                if ci != 0:
                    raise EngineLimit("list.pop(i) for i != 0")
                if not eng.branch(n > 0, "pop"):
                    raise E.PyRaise("IndexError", None, line)
                first = eng.list_get(base.t, elem, z3.IntVal(0))
                j = bvar("pp")
                arrs = [z3.Lambda([j], z3.Select(a, j + 1)) for a in eng.list_items(base.t, elem)]
                eng.list_set_all(base.t, elem, n - 1, arrs)
                return first
            if not eng.branch(n > 0, "pop"):
                raise E.PyRaise("IndexError", None, line)
            last = eng.list_get(base.t, elem, n - 1)
            eng.list_set_all(base.t, elem, n - 1, eng.list_items(base.t, elem))
            return last
        if name == "sort":
            from . import contracts as C

            return C.apply_list_sort(eng, base, kwargs, line)
        raise EngineLimit("list method %s" % name)
    if isinstance(s, MapOf):
        from . import containers as ct

        return ct.map_method(eng, base, name, args, kwargs, line)
    if isinstance(s, Ref) and eng.spec.is_struct(s.cls):
        if name == "get":
            key = bm.atom_str(args[0])
            fi = eng.field_info(s.cls, key) if key is not None else None
            if fi is None:
                return args[1] if len(args) > 1 else NONE_V
            owner, fs = fi
            v = eng.read_field(base.t, owner, key, fs)
            if len(args) > 1 and isinstance(fs, Opt):
                if eng.branch(v.t[0], "getdefault"):
                    return args[1]
                return v.t[1]
            return v
        if name == "clear":
            for fname in eng.spec.struct_fields(s.cls):
                owner, fs = eng.field_info(s.cls, fname)
                eng.spec.note_write(eng, owner, fname, line)
                eng.write_field(base.t, owner, fname, fs, bm.absent_value(fs))
            return NONE_V
        if name == "update" and not args:
            # d.update(k1=v1, k2=v2, ..): the item stores d["k1"] = v1; d["k2"] = v2; .. in keyword order (a typed dict: struct)
            from . import builtins2 as b2

            for kname, v in kwargs.items():
                b2.set_item(eng, base, bm.const_value(kname), v, line)
            return NONE_V
    if s == REAL:
        if name == "quantize":
            # Decimal.quantize(Decimal-with-exponent-0, ROUND_HALF_UP): round half away from zero to an integer
            rounding = args[1] if len(args) > 1 else kwargs.get("rounding")
            rn = getattr(rounding, "name", None)
            if rn != "ROUND_HALF_UP":
                raise EngineLimit("quantize rounding mode %s" % rn)
            e = args[0]
            if not (isinstance(e, SV) and isinstance(e.t, int)):
                raise EngineLimit("quantize exponent argument")
            x = zreal(base.t) if not is_conc_num(base.t) else None
            if x is None:
                fx = Fraction(base.t)
                import math

                r = math.floor(fx + Fraction(1, 2)) if fx >= 0 else -math.floor(-fx + Fraction(1, 2))
                return SV(REAL, Fraction(r))
            half = z3.RealVal("1/2")
            r = z3.If(x >= 0, z3.ToReal(z3.ToInt(x + half)), -z3.ToReal(z3.ToInt(-x + half)))
            return SV(REAL, r)
        if name == "total_seconds":
            return base
        if name == "date":
            return SV(INT, z3.ToInt(zreal(base.t) / 86400))
        if name == "replace":
            ks = set(kwargs)
            if ks == {"minute", "second", "microsecond"} and all(isinstance(v.t, int) and v.t == 0 for v in kwargs.values()):
                return SV(REAL, z3.ToReal(z3.ToInt(zreal(base.t) / 3600)) * 3600)
            raise EngineLimit("datetime.replace(%s)" % sorted(ks))
    raise EngineLimit("method %s on %s" % (name, s))


def list_remove(eng, lv, x, line):
    """list.remove(x): removes the first occurrence; ValueError if absent"""
    E = _E()
    bm = _bm()
    elem = lv.sort.elem
    n = eng.list_len(lv.t, elem)
    x = bm.coerce(eng, x, elem)
    i = bvar("ri")
    j = bvar("rj")
    e_i = zb(eng.eq(eng.list_get(lv.t, elem, i), x))
    exists = z3.Exists([i], z3.And(0 <= i, i < n, e_i))
    if not eng.branch(exists, "remove"):
        raise E.PyRaise("ValueError", None, line)
    r = z3.Int(fresh_name("ridx"))
    e_r = zb(eng.eq(eng.list_get(lv.t, elem, r), x))
    e_j = zb(eng.eq(eng.list_get(lv.t, elem, j), x))
    eng.path.assume(z3.And(0 <= r, r < n, e_r, z3.ForAll([j], z3.Implies(z3.And(0 <= j, j < r), z3.Not(e_j)))), check=False)
    arrs = [z3.Lambda([j], z3.If(j < r, z3.Select(a, j), z3.Select(a, j + 1))) for a in eng.list_items(lv.t, elem)]
    eng.list_set_all(lv.t, elem, n - 1, arrs)
    return NONE_V


# --------------------------------------------------------------------------- constructors / externals
def construct(eng, ci, args, kwargs, line):
    """ClassName(...): allocate and run __init__ (contract or inline)"""
    E = _E()
    if eng.exc_is_sub(ci.name, "Exception") or eng.exc_is_sub(ci.name, "BaseException"):
        return PyVal("excinst", name=ci.name, args=args)
    if "Enum" in ci.bases:
        raise EngineLimit("enum construction")
    r = SV(Ref(ci.name), eng.new_ref())
    tagf = eng.spec.class_tag_field(ci.name)
    if tagf is not None:
        owner, fname = tagf
        eng.write_field(r.t, owner, fname, ATOM, SV(ATOM, Atom("cls:" + ci.name)))
    mem = eng.repo.lookup_member(ci.name, "__init__")
    if mem is None:
        return r
    kind, owner, n = mem
    qual = "%s::%s.__init__" % (owner.module.relpath, owner.name)
    eng.call_function(owner.module, owner, n, [r] + args, kwargs, line, qual)
    return r


def call_lambda(eng, f, args):
    E = _E()
    node = f.node
    fr = E.Frame(f.frame.module, f.frame.cls, f.frame.func, dict(f.frame.locals))
    eng.bind_params(node, fr, args, {}, f.frame.module)
    if isinstance(node, ast.Lambda):
        return eng.eval(node.body, fr)
    try:
        eng.exec_block(node.body, fr)
    except E.ReturnEx as r:
        return r.value
    return NONE_V


def call_external(eng, f, args, kwargs, line):
    bm = _bm()
    full = "%s.%s" % (f.module, f.name)
    if full in ("decimal.Decimal",):
        v = args[0]
        if isinstance(v, SV) and v.sort in (REAL, INT):
            return SV(REAL, v.t if not isinstance(v.t, int) else Fraction(v.t)) if is_conc_num(v.t) else SV(REAL, zreal(v.t))
        if isinstance(v, SV) and v.sort == ATOM and v.aux is not None:
            x = v.aux
            return SV(REAL, x.t if is_conc_num(x.t) else zreal(x.t))
        raise EngineLimit("Decimal(%s)" % (v,))
    if full.endswith("datetime.datetime.utcnow") or full.endswith("datetime.utcnow"):
        return eng.spec.clock_now(eng)
    if full.endswith("datetime.timedelta"):
        secs = Fraction(0)
        mult = {"hours": 3600, "minutes": 60, "seconds": 1, "days": 86400}
        tot = None
        for k, v in kwargs.items():
            if k not in mult:
                raise EngineLimit("timedelta(%s)" % k)
            term = bm.arith(eng, "Mult", v, SV(INT, mult[k]), line)
            tot = term if tot is None else bm.arith(eng, "Add", tot, term, line)
        return SV(REAL, tot.t if tot is not None else 0)
    if full == "time.sleep":
        return NONE_V
    if full == "collections.defaultdict":
        # defaultdict(list): an empty dict; the enclosing contract declares local(name=MapOfDefault(K, ListOf(T))) so that
        # missing-key lookups insert an empty list
        if len(args) == 1 and isinstance(args[0], PyVal) and args[0].kind == "builtin" and args[0].name == "list" and not kwargs:
            return PyVal("dictlit", items=[], default="list")
        raise EngineLimit("defaultdict(%s)" % (args,))
    c = eng.spec.external_contract(full)
    if c is not None:
        from . import contracts as C

        return C.apply_contract_at_call(eng, c, None, None, None, args, kwargs, line)
    raise EngineLimit("external call %s (line %s): no assumed contract" % (full, line))


# --------------------------------------------------------------------------- with
def exec_with(eng, st, fr):
    E = _E()
    if len(st.items) != 1:
        raise EngineLimit("multi-item with")
    item = st.items[0]
    cm = eng.eval(item.context_expr, fr)
    if isinstance(cm, SV) and isinstance(cm.sort, Opt):
        cm = eng.deref(cm, "AttributeError", st.lineno)
    if isinstance(cm, SV) and isinstance(cm.sort, Ref):
        if eng.spec.is_lock(cm.sort.cls):
            eng.exec_block(st.body, fr)
            return
        ent = eng.getattr(cm, "__enter__", st.lineno)
        v = eng.call(ent, [], {}, st.lineno, fr)
        if item.optional_vars is not None:
            eng.assign(item.optional_vars, v, fr, st.lineno)
        ex = lambda has_exc: eng.call(
            eng.getattr(cm, "__exit__", st.lineno),
            [PyVal("excflag", has=has_exc)] * 3 if has_exc else [NONE_V, NONE_V, NONE_V],
            {},
            st.lineno,
            fr,
        )
        try:
            eng.exec_block(st.body, fr)
        except E.PyRaise:
            r = ex(True)
            # __exit__ returning a true value would swallow: the classes here return None
            raise
        except (E.ReturnEx, E.BreakEx, E.ContinueEx):
            ex(False)
            raise
        ex(False)
        return
    raise EngineLimit("with over %s" % (cm,))


# --------------------------------------------------------------------------- loops
def assigned_names(stmts):
    out = set()
    for st in stmts:
        for n in ast.walk(st):
            if isinstance(n, ast.Name) and isinstance(n.ctx, (ast.Store, ast.Del)):
                out.add(n.id)
    return out


def exec_for(eng, st, fr):
    E = _E()
    bm = _bm()
    if st.orelse:
        pass
    fr.iter_nalloc0 = (eng.path.alloc_base, eng.path.nalloc)  # allocation mark before the iterable expression is evaluated (private-list test in loops.py)
    it = eng.eval(st.iter, fr)
    ordinal = fr.loop_ordinal
    fr.loop_ordinal += 1
    if isinstance(it, PyVal) and it.kind == "iter":
        it = it.of
    if isinstance(it, SV) and isinstance(it.sort, Opt):
        it = eng.deref(it, "TypeError", st.lineno)
    # concrete iteration (constant tuples/lists): complete unrolling
    conc = None
    if isinstance(it, PyVal) and it.kind in ("list", "tuple", "set"):
        conc = list(it.items)
    elif isinstance(it, SV) and isinstance(it.sort, Tup):
        conc = list(it.t)
    elif isinstance(it, PyVal) and it.kind == "range" and all(bm.conc_index(a) is not None for a in it.args):
        conc = [SV(INT, i) for i in range(*[bm.conc_index(a) for a in it.args])]
    elif isinstance(it, PyVal) and it.kind == "zip" and all(isinstance(p, PyVal) and p.kind in ("list", "tuple") for p in it.parts):
        conc = [bm.make_tuple(list(xs)) for xs in zip(*[p.items for p in it.parts])]
    elif isinstance(it, PyVal) and it.kind == "enumerate" and isinstance(it.of, PyVal) and it.of.kind in ("list", "tuple"):
        conc = [bm.make_tuple([SV(INT, i), x]) for i, x in enumerate(it.of.items)]
    if conc is not None:
        broke = False
        for x in conc:
            eng.assign(st.target, x, fr, st.lineno)
            try:
                eng.exec_block(st.body, fr)
            except E.BreakEx:
                broke = True
                break
            except E.ContinueEx:
                continue
        if not broke and st.orelse:
            eng.exec_block(st.orelse, fr)
        return
    from . import loops

    loops.symbolic_for(eng, st, fr, it, ordinal)


def exec_while(eng, st, fr):
    ordinal = fr.loop_ordinal
    fr.loop_ordinal += 1
    from . import loops

    loops.symbolic_while(eng, st, fr, ordinal)


# --------------------------------------------------------------------------- spec forms
def spec_form(eng, node, fr):
    bm = _bm()
    E = _E()
    name = node.func.id
    if name == "old":
        old = getattr(fr, "old_heap", None)
        if old is None:
            raise EngineLimit("old() outside a postcondition")
        saved = eng.path.heap
        saved_locals = fr.locals
        eng.path.heap = dict(old)
        if getattr(fr, "old_locals", None) is not None:
            # entry values of the parameters; names that are not parameters (quantifier-bound variables, result) stay visible
            fr.locals = dict(fr.locals)
            fr.locals.update(fr.old_locals)
        try:
            return eng.eval(node.args[0], fr)
        finally:
            old.update({k: v for k, v in eng.path.heap.items() if k not in old})
            eng.path.heap = saved
            fr.locals = saved_locals
    if name == "entry_lists_unchanged":
        # entry_lists_unchanged(SORT): every list object with elements of SORT that existed when the function was entered has
        # the length and the cells it had then (loop invariants: a loop whose body only grows lists it created itself)
        from . import contracts as C

        c = getattr(eng.cur_frame, "contract", None) if eng.cur_frame is not None else None
        if c is None:
            c = getattr(fr, "contract", None)
        if c is None or getattr(fr, "old_heap", None) is None:
            raise EngineLimit("entry_lists_unchanged outside a function under contract")
        elem = C.clause_sort(c, node.args[0])
        r = bvar("q_lst")
        conj = []
        # optional further arguments: list objects that are allowed to change
        exc = []
        for extra in node.args[1:]:
            ev = eng.eval(extra, fr)
            if isinstance(ev, SV) and isinstance(ev.sort, Opt):
                ev = ev.t[1]
            exc.append(zr(ev.t))
        keys = [("$List", elem.name, "len", 0)] + [("$List", elem.name, "items", i) for i in range(len(z3sorts(elem)))]
        eng.heap_arrays(("$List", elem.name, "len"), INT)
        eng.list_items(z3.IntVal(0), elem)
        for k in keys:
            cur = eng.path.heap[k]
            old = fr.old_heap.get(k)
            if old is None:
                old = C._initial_array(k, cur)
            if cur is old or cur.eq(old):
                continue
            conj.append(z3.Select(cur, r) == z3.Select(old, r))
        if not conj:
            return TRUE_V
        return SV(BOOL, z3.ForAll([r], z3.Implies(z3.And(r > 0, r <= z3.Int("alloc0"), *[r != x for x in exc]), z3.And(*conj))))
    if name in ("unchanged", "unchanged_list"):
        # unchanged(obj, "field") / unchanged(obj, "*") / unchanged_list(lst): the heap cells of the pre-existing object are
        # exactly (component by component) what they were in the pre-state - the form a frame obligation needs, stronger
        # than == on optional values (which ignores the payload of None)
        from . import contracts as C

        old = getattr(fr, "old_heap", None)
        if old is None:
            raise EngineLimit("%s() outside a postcondition" % name)
        saved_heap, saved_locals = eng.path.heap, fr.locals
        eng.path.heap = dict(old)
        if getattr(fr, "old_locals", None) is not None:
            fr.locals = dict(fr.locals)
            fr.locals.update(fr.old_locals)
        try:
            base = eng.eval(node.args[0], fr)
        finally:
            old.update({k: v for k, v in eng.path.heap.items() if k not in old})
            eng.path.heap = saved_heap
            fr.locals = saved_locals
        if isinstance(base, SV) and isinstance(base.sort, Opt):
            base = base.t[1]
        keys = []
        if name == "unchanged_list":
            if not (isinstance(base, SV) and isinstance(base.sort, ListOf)):
                raise EngineLimit("unchanged_list of a non-list")
            elem = base.sort.elem
            keys = [("$List", elem.name, "len", 0)] + [("$List", elem.name, "items", i) for i in range(len(z3sorts(elem)))]
        else:
            if not (isinstance(base, SV) and isinstance(base.sort, Ref)):
                raise EngineLimit("unchanged of a non-object")
            fld = node.args[1].value
            names = list(eng.spec.all_fields(eng.repo, base.sort.cls)) if fld == "*" else [fld]
            for nm in names:
                owner, fs = eng.field_info(base.sort.cls, nm)
                keys += [(owner, nm, i) for i in range(len(z3sorts(fs)))]
        conj = []
        for k in keys:
            cur = eng.path.heap.get(k)
            o = old.get(k)
            if cur is None and o is None:
                continue
            if cur is None:
                cur = o
            if o is None:
                o = C._initial_array(k, cur)
            if cur is o or cur.eq(o):
                continue
            conj.append(z3.Select(cur, zr(base.t)) == z3.Select(o, zr(base.t)))
        return SV(BOOL, z3.And(*conj) if conj else True)
    if name == "allocated":
        # allocated(x): x refers to an object that exists now (at or below the current allocation frontier) - for loop
        # invariants over collections of objects created by earlier iterations
        v = eng.eval(node.args[0], fr)
        if isinstance(v, SV) and isinstance(v.sort, Opt):
            v = v.t[1]
        if not (isinstance(v, SV) and isinstance(v.sort, (Ref, ListOf, MapOf))):
            raise EngineLimit("allocated() of a non-reference")
        return SV(BOOL, z3.And(zr(v.t) > 0, zr(v.t) <= eng.alloc_term()))
    if name == "is_fresh":
        # is_fresh(x): the object x was allocated during the call (postconditions only): its reference lies above the
        # allocation mark of the pre-state
        v = eng.eval(node.args[0], fr)
        if isinstance(v, SV) and isinstance(v.sort, Opt):
            v = v.t[1]
        if not (isinstance(v, SV) and isinstance(v.sort, (Ref, ListOf, MapOf))):
            raise EngineLimit("is_fresh of a non-reference")
        mark = getattr(fr, "alloc_pre", None)
        if mark is None:
            mark = z3.Int("alloc0")
        return SV(BOOL, zr(v.t) > mark)
    if name == "is_int":
        v = bm.as_num(eng, eng.eval(node.args[0], fr), node.lineno)
        if is_conc_num(v.t):
            return SV(BOOL, Fraction(v.t).denominator == 1)
        if z3.is_int(zr(v.t)):
            return TRUE_V
        y = zreal(v.t)
        if False:
            # purify: to_int over terms with array selects / UF applications is not decided in practice
            reg = eng.path.ghost.setdefault("isint_pure", {})
            ys = z3.simplify(y)
            pv = reg.get(ys.get_id())
            if pv is None or not pv[0].eq(ys):
                pv = (ys, z3.Real(fresh_name("pure")))
                reg[ys.get_id()] = pv
                eng.path.assume(pv[1] == ys, check=False)
            y = pv[1]
        return SV(BOOL, y == z3.ToReal(z3.ToInt(y)))  # solver-friendlier than (is_int y): gives a witness when assumed
    if name == "implies":
        a = eng.truth(eng.eval(node.args[0], fr))
        if a is False:
            return TRUE_V
        b = eng.truth(eng.eval(node.args[1], fr))
        return SV(BOOL, bm.implies_(a, b))
    if name == "iff":
        a = eng.truth(eng.eval(node.args[0], fr))
        b = eng.truth(eng.eval(node.args[1], fr))
        return SV(BOOL, zb(a) == zb(b))
    if name in ("forall", "exists", "forall_int", "exists_int"):
        lam = node.args[0]
        if not isinstance(lam, ast.Lambda):
            raise EngineLimit("%s needs a lambda" % name)
        vars_ = [a.arg for a in lam.args.args]
        zs = [bvar("q_" + v) for v in vars_]
        fr2 = E.Frame(fr.module, fr.cls, fr.func, dict(fr.locals))
        for attr in ("old_heap", "old_locals", "alloc_pre"):
            if hasattr(fr, attr):
                setattr(fr2, attr, getattr(fr, attr))
        for v, z in zip(vars_, zs):
            fr2.locals[v] = SV(INT, z)
        guard = True
        if len(node.args) >= 3:
            lo = eng.eval(node.args[1], fr)
            hi = eng.eval(node.args[2], fr)
            guard = z3.And(zr(lo.t) <= zs[0], zs[0] < zr(hi.t))
        eng.bound_depth = getattr(eng, "bound_depth", 0) + 1
        try:
            body = zb(eng.truth(eng.eval(lam.body, fr2)))
        finally:
            eng.bound_depth -= 1
        if name.startswith("forall"):
            return SV(BOOL, z3.ForAll(zs, z3.Implies(guard, body) if guard is not True else body))
        return SV(BOOL, z3.Exists(zs, z3.And(guard, body) if guard is not True else body))
    if name == "forall_key":
        # forall_key(lambda k: body, d): body holds for every key k of the dict d
        from . import containers as ct

        lam = node.args[0]
        mv = eng.eval(node.args[1], fr)
        if isinstance(mv, SV) and isinstance(mv.sort, Opt):
            mv = mv.t[1]
        if not (isinstance(mv, SV) and isinstance(mv.sort, MapOf)) or not isinstance(lam, ast.Lambda) or len(lam.args.args) != 1:
            raise EngineLimit("forall_key(lambda k: .., dict)")
        ks = mv.sort.key
        zs = [bvar("q_key", z) for z in z3sorts(ks)]
        fr2 = E.Frame(fr.module, fr.cls, fr.func, dict(fr.locals))
        for attr in ("old_heap", "old_locals", "alloc_pre"):
            if hasattr(fr, attr):
                setattr(fr2, attr, getattr(fr, attr))
        fr2.locals[lam.args.args[0].arg] = unflatten(ks, zs)
        eng.bound_depth = getattr(eng, "bound_depth", 0) + 1
        try:
            guard = z3.Select(ct.dom_arr(eng, mv), *zs)
            if ct.has_opt(ks):
                guard = z3.And(guard, *[a == b for a, b in zip(ct.canon_key(ks, zs), zs)])
            body = zb(eng.truth(eng.eval(lam.body, fr2)))
        finally:
            eng.bound_depth -= 1
        return SV(BOOL, z3.ForAll(zs, z3.Implies(guard, body)))
    if name == "sum_":
        lam = node.args[0]
        lo = eng.eval(node.args[1], fr)
        hi = eng.eval(node.args[2], fr)
        j = bvar("sj")
        fr2 = E.Frame(fr.module, fr.cls, fr.func, dict(fr.locals))
        for attr in ("old_heap", "old_locals", "alloc_pre"):
            if hasattr(fr, attr):
                setattr(fr2, attr, getattr(fr, attr))
        fr2.locals[lam.args.args[0].arg] = SV(INT, j)
        eng.bound_depth = getattr(eng, "bound_depth", 0) + 1
        try:
            body = eng.eval(lam.body, fr2)
        finally:
            eng.bound_depth -= 1
        body = bm.as_num(eng, body, node.lineno)
        arr = z3.Lambda([j], zreal(body.t))
        arr = z3.simplify(arr)
        return SV(REAL, seq_sum(eng, arr, lo.t, hi.t, REAL, family=id(lam)))
    if name == "let":
        raise EngineLimit("let")
    if name == "fresh":
        raise EngineLimit("fresh")
    raise EngineLimit("spec form %s" % name)
