"""dict objects on the heap (MapOf).

A dict object d (an Int reference) has, per (key sort, value sort):
  dom  : K -> Bool        membership
  val  : K -> V           value (meaningful where dom holds)
  keys : ref of a heap List[K] giving the insertion order (python dicts are insertion ordered)
Well-formedness assumed of every dict of the pre-state and re-established by the operations here:
  the keys list has no duplicates and holds exactly the members of dom.
defaultdict(list): declared as MapOf(K, ListOf(T)) with .default = True in the schema (MapOfDefault).
"""
import z3

from .values import *  # noqa
from . import builtins_model as bm


def _E():
    from . import engine as E

    return E


class MapOfDefault(MapOf):
    """defaultdict(list)"""

    def __init__(self, key, val):
        MapOf.__init__(self, key, val)
        self.default = True


def ksorts(ms):
    return z3sorts(ms.key)


def _hkey(ms, what, i=0):
    return ("$Map", ms.key.name, ms.val.name, what, i)


def _arr(eng, ms, what, i, rng, heap=None):
    heap = eng.path.heap if heap is None else heap
    k = _hkey(ms, what, i)
    if k not in heap:
        heap[k] = z3.Array("H0_Map_%s_%s_%s_%d" % (ms.key.name, ms.val.name, what, i), z3.IntSort(), rng)
    return heap[k]


def dom_arr(eng, mv):
    ms = mv.sort
    rng = z3.ArraySort(*(ksorts(ms) + [z3.BoolSort()]))
    return z3.Select(_arr(eng, ms, "dom", 0, rng), zr(mv.t))


def val_arrs(eng, mv):
    ms = mv.sort
    out = []
    for i, zs in enumerate(z3sorts(ms.val)):
        rng = z3.ArraySort(*(ksorts(ms) + [zs]))
        out.append(z3.Select(_arr(eng, ms, "val", i, rng), zr(mv.t)))
    return out


def keys_ref(eng, mv):
    ms = mv.sort
    r = z3.Select(_arr(eng, ms, "keys", 0, z3.IntSort()), zr(mv.t))
    return SV(ListOf(ms.key), r)


def _set(eng, mv, what, i, value):
    ms = mv.sort
    k = _hkey(ms, what, i)
    eng.path.heap[k] = z3.Store(eng.path.heap[k], zr(mv.t), value)


def canon_key(sort, terms):
    """canonical index terms of a key: the payload of an absent optional component is its default value, so that
    None has ONE index (otherwise (None, garbage1) and (None, garbage2) would be different keys that compare equal)"""
    terms = list(terms)
    out = []

    def go(s, guard):
        if isinstance(s, Opt):
            isn = terms.pop(0)
            out.append(isn if guard is None else z3.If(guard, z3.BoolVal(True), isn))
            g2 = isn if guard is None else z3.Or(guard, isn)
            go(s.inner, g2)
        elif isinstance(s, Tup):
            for it in s.items:
                go(it, guard)
        else:
            for zs in z3sorts(s):
                t = terms.pop(0)
                out.append(t if guard is None else z3.If(guard, default_term(zs), t))

    go(sort, None)
    return [z3.simplify(t) for t in out]


def has_opt(sort):
    if isinstance(sort, Opt):
        return True
    if isinstance(sort, Tup):
        return any(has_opt(i) for i in sort.items)
    return False


def kterms(eng, ms, key):
    t = flatten(bm.coerce(eng, key, ms.key), ms.key)
    return canon_key(ms.key, t) if has_opt(ms.key) else t


def map_wf(eng, mv):
    """well-formedness facts of a dict (assumed for dicts read from the heap)"""
    ms = mv.sort
    kl = keys_ref(eng, mv)
    n = eng.list_len(kl.t, ms.key)
    d = dom_arr(eng, mv)
    i = bvar("wi")
    j = bvar("wj")
    cz = (lambda t: canon_key(ms.key, t)) if has_opt(ms.key) else (lambda t: t)
    ki = cz(flatten(eng.list_get(kl.t, ms.key, i, heap=eng.path.heap), ms.key))
    kj = cz(flatten(eng.list_get(kl.t, ms.key, j, heap=eng.path.heap), ms.key))
    same = z3.And(*[a == b for a, b in zip(ki, kj)])
    kv = [bvar("wk", s) for s in ksorts(ms)]
    pos = z3.Function(fresh_name("kpos"), *(ksorts(ms) + [z3.IntSort()]))
    kp = cz(flatten(eng.list_get(kl.t, ms.key, pos(*kv), heap=eng.path.heap), ms.key))
    return z3.And(
        n >= 0,
        z3.ForAll([i], z3.Implies(z3.And(0 <= i, i < n), z3.Select(d, *ki))),
        z3.ForAll([i, j], z3.Implies(z3.And(0 <= i, i < j, j < n), z3.Not(same))),
        z3.ForAll(kv, z3.Implies(z3.Select(d, *kv), z3.And(0 <= pos(*kv), pos(*kv) < n, *[a == b for a, b in zip(kp, kv)]))),
        # only canonical indices are keys
        *([z3.ForAll(kv, z3.Implies(z3.Select(d, *kv), z3.And(*[a == b for a, b in zip(cz(kv), kv)])))] if has_opt(ms.key) else []),
    )


def assume_wf_once(eng, mv):
    p = eng.path
    done = p.ghost.setdefault("map_wf", set())
    key = (mv.sort.name, zr(mv.t).get_id(), id(p.heap.get(_hkey(mv.sort, "dom", 0))), id(p.heap.get(_hkey(mv.sort, "keys", 0))))
    if key in done:
        return
    done.add(key)
    p.assume(map_wf(eng, mv), check=False)


def map_size(eng, mv):
    kl = keys_ref(eng, mv)
    return eng.list_len(kl.t, mv.sort.key)


def map_new(eng, sort, items=()):
    r = eng.new_ref()
    mv = SV(sort, r)
    ms = sort
    ks = ksorts(ms)
    # touch arrays
    dom_arr(eng, mv)
    val_arrs(eng, mv)
    kl0 = keys_ref(eng, mv)
    empty = z3.K(ks[0], z3.BoolVal(False)) if len(ks) == 1 else z3.Lambda([bvar("mk", s) for s in ks], z3.BoolVal(False))
    _set(eng, mv, "dom", 0, empty)
    kl = eng.list_new(ms.key, [])
    _set(eng, mv, "keys", 0, zr(kl.t))
    for k, v in items:
        map_setitem(eng, mv, k, v, None)
    return mv


def map_contains(eng, mv, key):
    if isinstance(key, SV) and isinstance(key.sort, Opt):
        # None is never a key of the maps modelled here unless the key sort is optional
        if not isinstance(mv.sort.key, Opt):
            isn, inner = key.t
            return bm.and_(bm.not_(isn), z3.Select(dom_arr(eng, mv), *kterms(eng, mv.sort, inner)))
    if isinstance(key, SV) and key.sort == NONE and not isinstance(mv.sort.key, Opt):
        return False
    return z3.Select(dom_arr(eng, mv), *kterms(eng, mv.sort, key))


def map_value(eng, mv, kt):
    comps = [z3.Select(a, *kt) for a in val_arrs(eng, mv)]
    v = unflatten(mv.sort.val, comps)
    eng.wf_assume(v)
    return v


def map_getitem(eng, mv, key, line):
    E = _E()
    ms = mv.sort
    kt = kterms(eng, ms, key)
    if eng.spec_mode:
        return map_value(eng, mv, kt)
    present = z3.Select(dom_arr(eng, mv), *kt)
    if eng.branch(present, "haskey"):
        return map_value(eng, mv, kt)
    if getattr(ms, "default", False):
        v = eng.list_new(ms.val.elem, [])
        map_insert(eng, mv, kt, v)
        return v
    raise E.PyRaise("KeyError", None, line)


def map_insert(eng, mv, kt, value):
    """insert a key known to be absent"""
    ms = mv.sort
    d = dom_arr(eng, mv)
    _set(eng, mv, "dom", 0, z3.Store(d, *(kt + [z3.BoolVal(True)])))
    comps = flatten(bm.coerce(eng, value, ms.val), ms.val)
    for i, (a, c) in enumerate(zip(val_arrs(eng, mv), comps)):
        _set(eng, mv, "val", i, z3.Store(a, *(kt + [c])))
    kl = keys_ref(eng, mv)
    eng.list_append(kl, unflatten(ms.key, kt))


def map_setitem(eng, mv, key, value, line):
    ms = mv.sort
    kt = kterms(eng, ms, key)
    present = z3.Select(dom_arr(eng, mv), *kt)
    if eng.branch(present, "setkey"):
        comps = flatten(bm.coerce(eng, value, ms.val), ms.val)
        for i, (a, c) in enumerate(zip(val_arrs(eng, mv), comps)):
            _set(eng, mv, "val", i, z3.Store(a, *(kt + [c])))
        return
    map_insert(eng, mv, kt, value)


def map_delitem(eng, mv, key, line):
    E = _E()
    ms = mv.sort
    kt = kterms(eng, ms, key)
    present = z3.Select(dom_arr(eng, mv), *kt)
    if not eng.branch(present, "delkey"):
        raise E.PyRaise("KeyError", None, line)
    assume_wf_once(eng, mv)
    d = dom_arr(eng, mv)
    kl = keys_ref(eng, mv)
    from . import builtins3 as b3

    b3.list_remove(eng, kl, unflatten(ms.key, kt), line)
    _set(eng, mv, "dom", 0, z3.Store(d, *(kt + [z3.BoolVal(False)])))


def map_havoc(eng, mv, prefix):
    ms = mv.sort
    ks = ksorts(ms)
    dom_arr(eng, mv)
    val_arrs(eng, mv)
    keys_ref(eng, mv)
    _set(eng, mv, "dom", 0, z3.Const(fresh_name(prefix + "_dom"), z3.ArraySort(*(ks + [z3.BoolSort()]))))
    for i, zs in enumerate(z3sorts(ms.val)):
        _set(eng, mv, "val", i, z3.Const(fresh_name(prefix + "_val"), z3.ArraySort(*(ks + [zs]))))
    kl = eng.list_new(ms.key, [])
    n = z3.Int(fresh_name(prefix + "_n"))
    arrs = [z3.Const(fresh_name(prefix + "_keys"), z3.ArraySort(z3.IntSort(), zs)) for zs in ks]
    eng.list_set_all(kl.t, ms.key, n, arrs)
    _set(eng, mv, "keys", 0, zr(kl.t))
    eng.path.ghost.setdefault("map_wf", set())
    eng.path.assume(map_wf(eng, mv), check=False)


def maps_havoc_all(eng, prefix):
    for k in list(eng.path.heap):
        if k[0] == "$Map":
            arr = eng.path.heap[k]
            eng.path.heap[k] = z3.Const(fresh_name(prefix + "_map"), arr.sort())


def map_method(eng, mv, name, args, kwargs, line):
    E = _E()
    ms = mv.sort
    if name == "get":
        kt = kterms(eng, ms, args[0])
        present = z3.Select(dom_arr(eng, mv), *kt)
        if eng.spec_mode:
            dflt = args[1] if len(args) > 1 else NONE_V
            return bm.ite(eng, present, map_value(eng, mv, kt), dflt)
        if eng.branch(present, "get"):
            return map_value(eng, mv, kt)
        return args[1] if len(args) > 1 else NONE_V
    if name in ("items", "keys", "values"):
        return PyVal("mapview", of=mv, what=name)
    if name == "copy":
        r = eng.new_ref()
        nv = SV(ms, r)
        d = dom_arr(eng, mv)
        vs = val_arrs(eng, mv)
        kl = keys_ref(eng, mv)
        dom_arr(eng, nv)
        val_arrs(eng, nv)
        keys_ref(eng, nv)
        _set(eng, nv, "dom", 0, d)
        for i, a in enumerate(vs):
            _set(eng, nv, "val", i, a)
        from . import builtins3 as b3

        _set(eng, nv, "keys", 0, zr(b3.list_copy(eng, kl).t))
        return nv
    if name == "clear":
        ks = ksorts(ms)
        dom_arr(eng, mv)
        empty = z3.K(ks[0], z3.BoolVal(False)) if len(ks) == 1 else z3.Lambda([bvar("mk", s) for s in ks], z3.BoolVal(False))
        _set(eng, mv, "dom", 0, empty)
        keys_ref(eng, mv)
        _set(eng, mv, "keys", 0, zr(eng.list_new(ms.key, []).t))
        return NONE_V
    if name == "pop":
        kt = kterms(eng, ms, args[0])
        present = z3.Select(dom_arr(eng, mv), *kt)
        if eng.branch(present, "pop"):
            v = map_value(eng, mv, kt)
            map_delitem(eng, mv, args[0], line)
            return v
        if len(args) > 1:
            return args[1]
        raise E.PyRaise("KeyError", None, line)
    raise EngineLimit("dict method %s" % name)


class MapViewSource:
    """iteration over d.items() / d.keys() / d.values() / d in insertion order"""

    def __init__(self, eng, view):
        self.eng = eng
        self.mv = view.of
        self.what = view.what
        assume_wf_once(eng, self.mv)
        self.kl = keys_ref(eng, self.mv)
        self.ks = self.mv.sort.key
        self.n0 = eng.list_len(self.kl.t, self.ks)
        self.items0 = eng.list_items(self.kl.t, self.ks)

    def length(self):
        return self.n0

    def key_at(self, i):
        t = [z3.Select(a, i) for a in self.items0]
        return unflatten(self.ks, canon_key(self.ks, t) if has_opt(self.ks) else t)

    def element(self, i):
        k = self.key_at(i)
        self.eng.wf_assume(k)
        if self.what == "keys":
            return k
        v = map_value(self.eng, self.mv, flatten(k, self.ks))
        if self.what == "values":
            return v
        return bm.make_tuple([k, v])

    def protect(self, ws):
        pass

    def check_unchanged(self, n, line):
        eng = self.eng
        cur = eng.list_len(keys_ref(eng, self.mv).t, self.ks)
        eng.oblige("%s/dict-not-resized-during-iteration@%d" % (eng.cur_short, line), cur == self.n0, "safety", line)


def view_to_list(eng, view):
    mv = view.of
    ms = mv.sort
    assume_wf_once(eng, mv)
    kl = keys_ref(eng, mv)
    from . import builtins3 as b3

    if view.what == "keys":
        return b3.list_copy(eng, kl)
    n = eng.list_len(kl.t, ms.key)
    i = bvar("vl")
    kt = flatten(eng.list_get(kl.t, ms.key, i), ms.key)
    if view.what == "values":
        arrs = [z3.Lambda([i], z3.Select(a, *kt)) for a in val_arrs(eng, mv)]
        r = eng.new_ref()
        eng.list_set_all(r, ms.val, n, arrs)
        return SV(ListOf(ms.val), r)
    raise EngineLimit("list(d.items())")


def map_comprehension(eng, node, g, view, fr, kind):
    # [f(k, v) for k, v in d.items()] : go through the list of keys
    raise EngineLimit("comprehension over a dict view")


def dict_comprehension(eng, node, fr):
    """{key(x): value(x) for x in L}  (one generator, no filter) over a heap list / an object whose __iter__ yields one.

    Result: a new dict M with  (1) every key(L[j]) is a key of M;  (2) every key k of M comes from some position j:
    key(L[j]) == k and M[k] == value(L[j]);  (3) M is well formed and has at most len(L) keys.
    With duplicate keys Python keeps the LAST position; (2) allows any position with that key - an over-approximation of
    the dict's content, sound for the safety obligations proved from it.  The element expressions must be pure."""
    from . import loops
    from . import engine as E

    if len(node.generators) != 1 or node.generators[0].ifs:
        raise EngineLimit("dict comprehension with filter / nested generators (line %s)" % node.lineno)
    g = node.generators[0]
    it = eng.eval(g.iter, fr)
    src = loops.make_iter_source(eng, it, node.lineno)
    if not isinstance(src, loops.ListSource):
        raise EngineLimit("dict comprehension over %s" % type(src).__name__)
    n = src.n0
    i = bvar("dci")
    fr2 = E.Frame(fr.module, fr.cls, fr.func, dict(fr.locals))
    saved = eng.spec_mode
    eng.spec_mode = True
    eng.bound_depth += 1
    try:
        x = unflatten(src.elem, [z3.Select(a, i) for a in src.items0])
        eng.assign(g.target, x, fr2, node.lineno)
        kv = eng.eval(node.key, fr2)
        vv = eng.eval(node.value, fr2)
    finally:
        eng.spec_mode = saved
        eng.bound_depth -= 1
    if isinstance(kv, PyVal) or isinstance(vv, PyVal):
        raise EngineLimit("dict comprehension with python-level key / value")
    ms = MapOf(kv.sort, vv.sort)
    mv = map_new(eng, ms, [])
    ks = ksorts(ms)
    dom = z3.Const(fresh_name("dc_dom"), z3.ArraySort(*(ks + [z3.BoolSort()])))
    _set(eng, mv, "dom", 0, dom)
    vals = []
    for c, zs in enumerate(z3sorts(ms.val)):
        a = z3.Const(fresh_name("dc_val"), z3.ArraySort(*(ks + [zs])))
        _set(eng, mv, "val", c, a)
        vals.append(a)
    m = z3.Int(fresh_name("dc_n"))
    karrs = [z3.Const(fresh_name("dc_keys"), z3.ArraySort(z3.IntSort(), zs)) for zs in ks]
    kl = eng.list_new(ms.key, [])
    eng.list_set_all(kl.t, ms.key, m, karrs)
    _set(eng, mv, "keys", 0, zr(kl.t))
    p = eng.path
    kt = flatten(kv, ms.key)
    if has_opt(ms.key):
        kt = canon_key(ms.key, kt)
    vt = flatten(vv, ms.val)
    inr = z3.And(0 <= i, i < n)
    p.assume(z3.And(m >= 0, m <= n), check=False)
    p.assume(z3.ForAll([i], z3.Implies(inr, z3.Select(dom, *kt))), check=False)
    kq = [bvar("dck", zs) for zs in ks]
    same_key = z3.And(*[a == b for a, b in zip(kt, kq)])
    same_val = z3.And(*[z3.Select(a, *kq) == b for a, b in zip(vals, vt)]) if vals else z3.BoolVal(True)
    p.assume(z3.ForAll(kq, z3.Implies(z3.Select(dom, *kq), z3.Exists([i], z3.And(inr, same_key, same_val)))), check=False)
    p.assume(map_wf(eng, mv), check=False)
    p.ghost.setdefault("map_wf", set())
    return mv
