"""Loops with sidecar invariants: establish / havoc / assume / body once / re-establish."""
import ast

import z3

from .values import *  # noqa
from . import builtins_model as bm
from . import engine as E

LIST_MUTATORS = {"append", "remove", "clear", "pop", "extend", "sort", "insert"}


class WriteSet:
    def __init__(self):
        self.fine = []  # (base_ast, attr)   attribute store on a loop-invariant base
        self.fine_lists = []  # list_expr_ast  mutated list reached by a loop-invariant expression
        self.fine_list_ops = {}  # ast.dump(list_expr_ast) -> set of mutation kinds ("append", "yield", other method names, "store")
        self.coarse_attrs = set()  # attr names: every (owner, attr) heap array
        self.coarse_lists = False
        self.coarse_maps = False
        self.names = set()
        self.coarse_keys = set()  # (owner, field): exactly that heap array (resolved from a callee contract's modifies)
        self.coarse_list_sorts = set()  # element sorts of lists a callee may mutate
        self.coarse_map_sorts = set()  # MapOf sorts of dicts a callee may mutate


def expr_invariant(node, assigned):
    """expression mentions only names not assigned in the loop and no calls"""
    for n in ast.walk(node):
        if isinstance(n, ast.Name) and n.id in assigned:
            return False
        if isinstance(n, (ast.Call, ast.Subscript)):
            return False
    return True


def collect_writes(eng, stmts, fr, assigned, ws, depth=0, subst=None):
    """syntactic over-approximation of the heap locations written by stmts"""
    if depth == 0 and subst is None:
        # an exception raised in the body leaves the loop unless the body itself has a try statement: the state at the head of
        # a later iteration then only carries the effects of NORMAL completions of the calls made by earlier iterations
        ws.catches = any(isinstance(n, ast.Try) for st in stmts for n in ast.walk(st))
    for st in stmts:
        for n in ast.walk(st):
            if isinstance(n, ast.Attribute) and isinstance(n.ctx, ast.Store):
                if subst is None and expr_invariant(n.value, assigned):
                    ws.fine.append((n.value, n.attr))
                else:
                    ws.coarse_attrs.add(n.attr)
            elif isinstance(n, ast.Subscript) and isinstance(n.ctx, (ast.Store, ast.Del)):
                # d[k] = v  /  l[i] = v  / rec[1] = v
                if subst is None and expr_invariant(n.value, assigned):
                    ws.fine_lists.append(n.value)
                    ws.fine_list_ops.setdefault(ast.dump(n.value), set()).add("store")
                else:
                    ws.coarse_lists = True
                    ws.coarse_maps = True
                    # record stores are fields named by the constant index
                    if isinstance(n.slice, ast.Constant):
                        ws.coarse_attrs.add(str(n.slice.value))
            elif isinstance(n, ast.Call):
                if bm.is_logging_call(n):
                    continue
                f = n.func
                # dict.update takes at most one positional argument (list has no update; sets are not heap objects here):
                # x.update(a, b, ..) is a call of a user method, resolved through the contracts below
                if isinstance(f, ast.Attribute) and f.attr in LIST_MUTATORS | {"update", "setdefault", "add"} and not (f.attr == "update" and len(n.args) >= 2):
                    if subst is None and expr_invariant(f.value, assigned):
                        ws.fine_lists.append(f.value)
                        ws.fine_list_ops.setdefault(ast.dump(f.value), set()).add(f.attr)
                    elif subst is None and f.attr in LIST_MUTATORS and isinstance(f.value, ast.Subscript) and expr_invariant(f.value.value, assigned) and dict_of_lists(eng, f.value.value, fr) is not None:
                        # d[k].append(v) on a loop-invariant dict of lists: the dict itself (a defaultdict inserts) and lists
                        # of the dict's value sort
                        ws.fine_lists.append(f.value.value)
                        ws.fine_list_ops.setdefault(ast.dump(f.value.value), set()).add("dict-of-lists")
                        ws.coarse_list_sorts.add(dict_of_lists(eng, f.value.value, fr))
                    else:
                        ws.coarse_lists = True
                        ws.coarse_maps = True
                    continue
                collect_call_writes(eng, n, fr, assigned, ws, depth)
            elif isinstance(n, ast.Yield):
                ws.fine_lists.append(ast.Name(id="_yield", ctx=ast.Load()))
                ws.fine_list_ops.setdefault(ast.dump(ast.Name(id="_yield", ctx=ast.Load())), set()).add("append")
            elif isinstance(n, ast.With):
                # `with cm:` calls cm.__enter__() / cm.__exit__(..): their contracts' frames belong to the body's writes
                classes = None
                for item in n.items:
                    ce = item.context_expr
                    if isinstance(ce, ast.Attribute):
                        # `with x.attr:` - the declared sort of the field named attr gives the class of the context manager
                        srt = [fs.inner if isinstance(fs, Opt) else fs for _, fs in eng.spec.fields_named(ce.attr)]
                        if srt and all(isinstance(x, Ref) for x in srt):
                            classes = (classes or set()) | {x.cls for x in srt}
                            continue
                    classes = None
                    break
                for nm in ("__enter__", "__exit__"):
                    collect_named_writes(eng, nm, fr, ws, depth, classes)


def dict_of_lists(eng, node, fr):
    """element sort T when the (loop-invariant) expression denotes a heap dict whose values are lists of T, else None"""
    saved = eng.spec_mode
    eng.spec_mode = True
    try:
        v = eng.eval(node, fr)
    except (EngineLimit, E.PyRaise):
        return None
    finally:
        eng.spec_mode = saved
    if isinstance(v, SV) and isinstance(v.sort, Opt):
        v = v.t[1]
    if isinstance(v, SV) and isinstance(v.sort, MapOf) and isinstance(v.sort.val, ListOf):
        return v.sort.val.elem
    return None


def collect_call_writes(eng, call, fr, assigned, ws, depth):
    """writes of a callee: its contract's modifies, or (inlined) its body's writes, else coarse everything"""
    name = None
    f = call.func
    if isinstance(f, ast.Name):
        name = f.id
    elif isinstance(f, ast.Attribute):
        name = f.attr
    if name in bm.BUILTINS or name in bm.SPEC_FORMS:
        return
    collect_named_writes(eng, name, fr, ws, depth)


def collect_named_writes(eng, name, fr, ws, depth, classes=None):
    cands = eng.spec.contracts_named(name)
    if classes is not None:
        # keep the contracts of those classes, their super- and subclasses
        def related(c):
            cn = c.qual.split("::")[-1].split(".")[0]
            return any(cn == k or eng.repo.is_subclass(cn, k) or eng.repo.is_subclass(k, cn) for k in classes)

        cands = [c for c in cands if related(c)]
    found = False
    for c in cands:
        found = True
        wk = contract_write_keys(eng, c, getattr(ws, "catches", True))
        if wk is not None:
            ws.coarse_keys |= wk["keys"]
            ws.coarse_list_sorts |= wk["lists"]
            ws.coarse_map_sorts |= wk["maps"]
            continue
        for m in list(c.modifies) + ([m for r in c.raises for m in r.get("modifies", [])] if getattr(ws, "catches", True) else []):
            if m[0] == "list":
                ws.coarse_lists = True
            elif m[0] == "map":
                ws.coarse_maps = True
                ws.coarse_lists = True  # the key list of the dict
            elif m[0] == "all":
                ws.coarse_attrs.add(m[1].split(".")[-1])
            elif m[1] == "*":
                ws.coarse_star = True
            else:
                ws.coarse_attrs.add(m[1])
        if c.modifies_lists:
            ws.coarse_lists = True
        if c.modifies_maps:
            ws.coarse_maps = True
    # inlinable repo functions with that name
    for qual, (mi, ci, node) in eng.spec.inline_candidates(eng.repo, name):
        found = True
        if depth < 4:
            collect_writes(eng, node.body, fr, set(), ws, depth + 1, subst=True)
    if not found:
        # unknown callee: properties / externals that the engine will reject anyway or pure builtins
        pass


def contract_write_keys(eng, c, with_raises=True):
    """the heap arrays a contract's modifies clauses (normal and exceptional) can touch, resolved by evaluating the clause
    expressions over fresh parameters of the declared sorts on a scratch path: {(owner, field)}, element sorts of lists,
    sorts of dicts.  None when it cannot be resolved (the caller then falls back to the by-name over-approximation)."""
    cache = c.__dict__.setdefault("_write_keys", {})
    if with_raises in cache:
        return cache[with_raises]
    from . import contracts as C

    res = None
    saved_path, saved_mode = eng.path, eng.spec_mode
    try:
        eng.path = E.Path([], eng)
        locals_ = {}
        cls = None
        if c.kind == "repo":
            module, cls, node = eng.repo.find(c.qual)
        for a in c.node.args.posonlyargs + c.node.args.args + c.node.args.kwonlyargs:
            if a.arg in c.param_sorts:
                locals_[a.arg] = C.make_param(eng, "wk_" + a.arg, c.param_sorts[a.arg])
            elif a.arg == "self" and cls is not None:
                locals_[a.arg] = C.make_param(eng, "wk_self", Ref(c.opts.get("self_class", cls.name)))
            else:
                raise EngineLimit("unsorted parameter")
        fr = C.spec_frame(eng, c, locals_, {}, locals_)
        keys, lists, maps = set(), set(), set()
        for m in list(c.modifies) + ([m for r in c.raises for m in r.get("modifies", [])] if with_raises else []):
            if m[0] == "all":
                for owner, fld, fs in C.all_field_specs(eng, m[1]):
                    keys.add((owner, fld))
            elif m[0] == "all_lists":
                lists.add(C.clause_sort(c, m[1]))
            elif m[0] == "all_maps":
                ms = C.clause_sort(c, m[1])
                maps.add(ms)
                lists.add(ms.key)
            elif m[0] in ("list", "map"):
                v = C.eval_clause(eng, c, m[1], fr, as_bool=False)
                if isinstance(v, SV) and isinstance(v.sort, Opt):
                    v = v.t[1]
                if m[0] == "list":
                    lists.add(v.sort.elem)
                else:
                    maps.add(v.sort)
                    lists.add(v.sort.key)
            else:
                base = C.eval_clause(eng, c, m[0], fr, as_bool=False)
                if isinstance(base, SV) and isinstance(base.sort, Opt):
                    base = base.t[1]
                names = list(eng.spec.all_fields(eng.repo, base.sort.cls)) if m[1] == "*" else [m[1]]
                for fname in names:
                    owner, fs = eng.field_info(base.sort.cls, fname)
                    keys.add((owner, fname))
        res = dict(keys=keys, lists=lists, maps=maps)
    except (EngineLimit, E.PyRaise, E.Infeasible, KeyError, AttributeError, TypeError):
        res = None
    finally:
        eng.path, eng.spec_mode = saved_path, saved_mode
    cache[with_raises] = res
    return res


def snapshot_heap(eng):
    return dict(eng.path.heap)


def havoc_writes(eng, ws, fr, ordinal):
    p = eng.path
    # fine-grained attribute stores
    done = set()
    for base_ast, attr in ws.fine:
        if attr in ws.coarse_attrs:
            continue
        try:
            saved = eng.spec_mode
            eng.spec_mode = True
            base = eng.eval(base_ast, fr)
        finally:
            eng.spec_mode = saved
        if isinstance(base, SV) and isinstance(base.sort, Opt):
            base = base.t[1]
        if not (isinstance(base, SV) and isinstance(base.sort, Ref)):
            ws.coarse_attrs.add(attr)
            continue
        fi = eng.field_info(base.sort.cls, attr)
        if fi is None:
            if eng.repo.lookup_setter(base.sort.cls, attr):
                ws.coarse_attrs.add("_" + attr)
                continue
            raise EngineLimit("loop writes unknown field %s.%s" % (base.sort.cls, attr))
        owner, fs = fi
        key = (owner, attr, base.t.get_id() if hasattr(base.t, "get_id") else base.t)
        if key in done:
            continue
        done.add(key)
        eng.havoc_field_at(base.t, owner, attr, fs, "L%d" % ordinal)
    if getattr(ws, "coarse_star", False):
        # a callee may write every key of some struct object: all struct fields
        for cls in eng.spec.structs:
            for fname in eng.spec.struct_fields(cls):
                ws.coarse_attrs.add(fname)
    for attr in ws.coarse_attrs:
        for owner, fs in eng.spec.fields_named(attr):
            eng.havoc_field_all(owner, attr, fs, "L%d" % ordinal)
    for owner, attr in sorted(ws.coarse_keys):
        if attr in ws.coarse_attrs:
            continue
        fi = eng.spec.schemas.get(owner, {}).get(attr)
        if fi is not None:
            eng.havoc_field_all(owner, attr, fi, "L%d" % ordinal)
    if not ws.coarse_lists:
        for elem in sorted(ws.coarse_list_sorts, key=lambda x: x.name):
            havoc_lists_of(eng, elem, "L%d" % ordinal)
    if not ws.coarse_maps:
        for ms in sorted(ws.coarse_map_sorts, key=lambda x: x.name):
            havoc_maps_of(eng, ms, "L%d" % ordinal)
    if ws.coarse_lists:
        for k in list(p.heap):
            if k[0] == "$List":
                arr = p.heap[k]
                p.heap[k] = z3.Const(fresh_name("L%d_%s" % (ordinal, "_".join(str(x) for x in k[1:]))), arr.sort())
        p.ghost["coarse_list_havoc"] = True
    else:
        for lst_ast in ws.fine_lists:
            saved = eng.spec_mode
            eng.spec_mode = True
            try:
                lv = eng.eval(lst_ast, fr)
            finally:
                eng.spec_mode = saved
            if isinstance(lv, SV) and isinstance(lv.sort, Opt):
                lv = lv.t[1]
            if isinstance(lv, PyVal):
                raise EngineLimit("loop mutates a python-level list %s: declare local(...) sort in the contract" % ast.dump(lst_ast)[:60])
            if isinstance(lv.sort, ListOf):
                elem = lv.sort.elem
                n = z3.Int(fresh_name("L%d_len" % ordinal))
                p.assume(n >= 0, check=False)
                arrs = [z3.Const(fresh_name("L%d_items" % ordinal), z3.ArraySort(z3.IntSort(), zs)) for zs in z3sorts(elem)]
                if ws.fine_list_ops.get(ast.dump(lst_ast)) == {"append"} and elem.name not in [x.name for x in ws.coarse_list_sorts]:
                    # the body only appends to this list: the cells it had on loop entry are still there
                    n_in = eng.list_len(lv.t, elem)
                    jv = bvar("ap")
                    p.assume(n >= n_in, check=False)
                    for a_new, a_old in zip(arrs, eng.list_items(lv.t, elem)):
                        p.assume(z3.ForAll([jv], z3.Implies(z3.And(0 <= jv, jv < n_in), z3.Select(a_new, jv) == z3.Select(a_old, jv)), patterns=[z3.Select(a_new, jv), z3.Select(a_old, jv)]), check=False)
                eng.list_set_all(lv.t, elem, n, arrs)
            elif isinstance(lv.sort, MapOf):
                from . import containers as ct

                ct.map_havoc(eng, lv, "L%d" % ordinal)
            elif isinstance(lv.sort, Ref):
                # record / struct subscript stores: havoc all fields of that object
                for fname, (owner, fs) in eng.spec.all_fields(eng.repo, lv.sort.cls).items():
                    eng.havoc_field_at(lv.t, owner, fname, fs, "L%d" % ordinal)
            else:
                raise EngineLimit("loop mutates %s" % lv.sort)
    if ws.coarse_maps:
        from . import containers as ct

        ct.maps_havoc_all(eng, "L%d" % ordinal)


def havoc_lists_of(eng, elem, prefix):
    """every list object with elements of sort elem gets an arbitrary length and content"""
    p = eng.path
    eng.heap_arrays(("$List", elem.name, "len"), INT)
    p.heap[("$List", elem.name, "len", 0)] = z3.Array(fresh_name("%s_List_%s_len" % (prefix, elem.name)), z3.IntSort(), z3.IntSort())
    for i, zs in enumerate(z3sorts(elem)):
        p.heap[("$List", elem.name, "items", i)] = z3.Array(fresh_name("%s_List_%s_items_%d" % (prefix, elem.name, i)), z3.IntSort(), z3.ArraySort(z3.IntSort(), zs))
    p.ghost["coarse_list_havoc"] = True


def havoc_maps_of(eng, ms, prefix):
    """every dict object of sort ms becomes arbitrary (its key-order lists are havoced by the caller through ms.key)"""
    from . import containers as ct

    p = eng.path
    ks = ct.ksorts(ms)
    p.heap[ct._hkey(ms, "dom", 0)] = z3.Array(fresh_name(prefix + "_map_dom"), z3.IntSort(), z3.ArraySort(*(ks + [z3.BoolSort()])))
    for i, zs in enumerate(z3sorts(ms.val)):
        p.heap[ct._hkey(ms, "val", i)] = z3.Array(fresh_name(prefix + "_map_val"), z3.IntSort(), z3.ArraySort(*(ks + [zs])))
    p.heap[ct._hkey(ms, "keys", 0)] = z3.Array(fresh_name(prefix + "_map_keys"), z3.IntSort(), z3.IntSort())
    p.ghost.pop("map_wf", None)


def havoc_locals(eng, fr, names, ordinal, declared):
    for nm in sorted(names):
        if nm in declared:
            fr.locals[nm] = fresh_value(declared[nm], "L%d_%s" % (ordinal, nm))
            eng.wf_assume(fr.locals[nm])
            continue
        cur = fr.locals.get(nm)
        if cur is None:
            continue
        if isinstance(cur, PyVal):
            if cur.kind in ("list", "set", "dictlit", "tuple") or cur.kind == "repeat":
                raise EngineLimit("loop assigns python-level container %s: declare local(%s=...) in the contract" % (nm, nm))
            fr.locals.pop(nm)
            continue
        s = cur.sort
        if s == NONE:
            fr.locals.pop(nm)  # becomes unknown: must be declared to be used
            continue
        if s == INT and isinstance(cur.t, (int, bool)):
            s = INT
        fr.locals[nm] = fresh_value(s, "L%d_%s" % (ordinal, nm))
        eng.wf_assume(fr.locals[nm])


def check_invariants(eng, c, ordinal, fr, kind, line):
    invs = c.invariants.get(ordinal, []) if c else []
    from . import contracts as C

    for label, node in invs:
        g = C.eval_clause(eng, c, node, fr, fr.spec_frame_extra())
        eng.oblige("%s/loop%d:%s:%s" % (eng.cur_short, ordinal, kind, label), zb(g), "loop-" + kind, line)


def assume_invariants(eng, c, ordinal, fr):
    invs = c.invariants.get(ordinal, []) if c else []
    from . import contracts as C

    for label, node in invs:
        g = C.eval_clause(eng, c, node, fr, fr.spec_frame_extra())
        eng.path.assume(zb(g), check=False)
    # one feasibility check for the lot
    if eng.prune and eng.path.solver.check() == z3.unsat:
        raise E.Infeasible()


def symbolic_for(eng, st, fr, it, ordinal):
    c = fr.contract if eng.depth == 0 or fr.contract is not None else None
    c = fr.contract
    if c is None or ordinal not in c.invariants:
        raise EngineLimit("loop %d at line %d iterates a symbolic sequence and has no invariant" % (ordinal, st.lineno))
    p = eng.path
    src = make_iter_source(eng, it, st.lineno)
    assigned = bm.assigned_names(st.body) | bm.assigned_names([ast.Assign(targets=[st.target], value=ast.Constant(0), lineno=st.lineno)])
    ivar = "_i%d" % ordinal
    n = src.length()
    fr.locals["_n%d" % ordinal] = SV(INT, n)
    # establish
    fr.locals[ivar] = SV(INT, 0)
    fr.locals["_i"] = fr.locals[ivar]
    bind_ghost_sequences(eng, fr, src, ordinal)
    check_invariants(eng, c, ordinal, fr, "init", st.lineno)
    # havoc
    ws = WriteSet()
    collect_writes(eng, st.body, fr, assigned, ws)
    src.protect(ws)
    private = private_sources(eng, fr, src, getattr(fr, "iter_nalloc0", None))
    havoc_writes(eng, ws, fr, ordinal)
    eng.rebase_allocation("L%d" % ordinal)
    for s_ in private:
        # nothing but the iterator references this list: the body cannot have changed it
        eng.list_set_all(s_.lv.t, s_.elem, s_.n0, s_.items0)
    havoc_locals(eng, fr, assigned - {ivar}, ordinal, c.local_sorts)
    i = z3.Int(fresh_name("L%d_i" % ordinal))
    fr.locals[ivar] = SV(INT, i)
    fr.locals["_i"] = fr.locals[ivar]
    p.assume(z3.And(i >= 0, i <= n), check=False)
    bind_ghost_sequences(eng, fr, src, ordinal)
    assume_invariants(eng, c, ordinal, fr)
    ch = p.choose(2, "loop%d" % ordinal)
    if ch == 0:
        # one arbitrary iteration
        p.assume(i < n)
        x = src.element(i)
        eng.assign(st.target, x, fr, st.lineno)
        try:
            eng.exec_block(st.body, fr)
        except E.ContinueEx:
            pass
        except E.BreakEx:
            # leave the loop from here: continue after it with the break-state
            fr.locals.pop("_i", None)
            return
        src.check_unchanged(n, st.lineno)
        fr.locals[ivar] = SV(INT, i + 1)
        fr.locals["_i"] = fr.locals[ivar]
        check_invariants(eng, c, ordinal, fr, "preserve", st.lineno)
        raise E.PathEnd()
    # exit: i == n
    p.assume(i == n)
    if hasattr(src, "exit_facts"):
        src.exit_facts(n)
    if st.orelse:
        eng.exec_block(st.orelse, fr)


def symbolic_while(eng, st, fr, ordinal):
    c = fr.contract
    if c is None or ordinal not in c.invariants:
        # try bounded concrete execution (conditions decided concretely, e.g. constant loops)
        for _ in range(2000):
            t = eng.truth(eng.eval(st.test, fr))
            if not isinstance(t, bool):
                raise EngineLimit("while loop %d at line %d needs an invariant" % (ordinal, st.lineno))
            if not t:
                return
            try:
                eng.exec_block(st.body, fr)
            except E.BreakEx:
                return
            except E.ContinueEx:
                continue
        raise EngineLimit("while loop did not terminate concretely")
    p = eng.path
    assigned = bm.assigned_names(st.body)
    check_invariants(eng, c, ordinal, fr, "init", st.lineno)
    ws = WriteSet()
    collect_writes(eng, st.body, fr, assigned, ws)
    havoc_writes(eng, ws, fr, ordinal)
    eng.rebase_allocation("W%d" % ordinal)
    havoc_locals(eng, fr, assigned, ordinal, c.local_sorts)
    assume_invariants(eng, c, ordinal, fr)
    dec = c.decreases.get(ordinal)
    from . import contracts as C

    d0 = C.eval_clause(eng, c, dec, fr, fr.spec_frame_extra(), as_bool=False) if dec is not None else None
    t = eng.truth(eng.eval(st.test, fr))
    if eng.branch(t, "while%d" % ordinal):
        try:
            eng.exec_block(st.body, fr)
        except E.ContinueEx:
            pass
        except E.BreakEx:
            return
        check_invariants(eng, c, ordinal, fr, "preserve", st.lineno)
        if d0 is not None:
            d1 = C.eval_clause(eng, c, dec, fr, fr.spec_frame_extra(), as_bool=False)
            eng.oblige("%s/loop%d:decreases" % (eng.cur_short, ordinal), z3.And(zreal(d0.t) >= 0, zreal(d1.t) <= zreal(d0.t) - 1) if d0.sort == INT else z3.And(zreal(d0.t) >= 0, zreal(d1.t) < zreal(d0.t)), "loop-decreases", st.lineno)
        raise E.PathEnd()
    if st.orelse:
        eng.exec_block(st.orelse, fr)


def _subterm_occurs(t, x, budget=200000, values_only=False):
    """does x occur in t?  values_only: occurrences in the index position of a select / store do not count (reading or
    writing the cells AT address x does not make x itself a stored value)"""
    todo = [t]
    seen = set()
    xid = x.get_id()
    while todo:
        u = todo.pop()
        i = u.get_id()
        if i in seen:
            continue
        seen.add(i)
        if i == xid:
            return True
        if len(seen) > budget:
            return True  # give up: treat as occurring
        if z3.is_quantifier(u):
            todo.append(u.body())
        elif values_only and z3.is_app(u) and u.decl().kind() == z3.Z3_OP_SELECT:
            todo.append(u.arg(0))
            for k in range(1, u.num_args()):
                if u.arg(k).get_id() != xid:
                    todo.append(u.arg(k))
        elif values_only and z3.is_app(u) and u.decl().kind() == z3.Z3_OP_STORE:
            todo.append(u.arg(0))
            todo.append(u.arg(u.num_args() - 1))
            for k in range(1, u.num_args() - 1):
                if u.arg(k).get_id() != xid:
                    todo.append(u.arg(k))
        else:
            todo.extend(u.children())
    return False


def private_sources(eng, fr, src, nalloc0):
    """list sources that only the iterator references: the list object was allocated while the iterable expression
    of the loop was evaluated (its reference is the term alloc0 + k with k above the mark taken before), no local
    variable holds it, and its reference occurs nowhere in the heap except as the address of its own list cells.
    Python semantics assumed: an object that is referenced from no variable and no other object cannot be mutated."""
    out = []
    if nalloc0 is None:
        return out

    def parts(s):
        if isinstance(s, EnumSource):
            return parts(s.inner)
        if isinstance(s, ZipSource):
            return [x for q in s.parts for x in parts(q)]
        return [s]

    p = eng.path
    for s in parts(src):
        if not isinstance(s, ListSource):
            continue
        r = zr(s.lv.t)
        from . import contracts as C

        base0, n0 = nalloc0
        if not base0.eq(p.alloc_base):
            continue
        fresh = C.fresh_ref_index(r, base0)
        if fresh is None or not (n0 + 1 <= fresh <= p.nalloc):
            continue
        held = False
        for v in fr.locals.values():
            if isinstance(v, SV) and isinstance(v.sort, (ListOf, Opt)):
                t = v.t[1].t if isinstance(v.sort, Opt) and isinstance(v.t[1].sort, ListOf) else (v.t if isinstance(v.sort, ListOf) else None)
                if t is not None and _subterm_occurs(zr(t), r):
                    held = True
        if held:
            continue
        escaped = False
        for k, arr in p.heap.items():
            if _subterm_occurs(arr, r, values_only=True):
                escaped = True
                break
        if not escaped:
            out.append(s)
    return out


def bind_ghost_sequences(eng, fr, src, ordinal):
    """spec-only names for the sequence(s) a for-loop iterates: `_seqN` (a list source) or `_seqN_0`, `_seqN_1`, ..
    (the parts of a zip; enumerate is looked through).  Each is a freshly allocated ghost list holding the elements
    exactly as the iterator yields them (the snapshot taken when the loop was entered), so the loop body cannot alias
    or change it.  Bound once before the invariant is established and re-bound after the loop havoc."""
    def parts(s):
        if isinstance(s, EnumSource):
            return parts(s.inner)
        if isinstance(s, ZipSource):
            return [x for q in s.parts for x in parts(q)]
        return [s]

    from . import containers as ct

    ps = parts(src)
    for k, s in enumerate(ps):
        if isinstance(s, ct.MapViewSource):
            # iteration over a dict (keys / values / items): the ghost sequence holds the KEYS in iteration order
            elem, n0, items0 = s.ks, s.n0, s.items0
        elif isinstance(s, ListSource):
            elem, n0, items0 = s.elem, s.n0, s.items0
        else:
            continue
        g = eng.new_ref()
        eng.list_set_all(g, elem, n0, items0)
        v = SV(ListOf(elem), g)
        if len(ps) == 1:
            fr.locals["_seq%d" % ordinal] = v
        fr.locals["_seq%d_%d" % (ordinal, k)] = v


# --------------------------------------------------------------------------- iteration sources
class ListSource:
    def __init__(self, eng, lv):
        self.eng = eng
        self.lv = lv
        self.elem = lv.sort.elem
        self.n0 = eng.list_len(lv.t, self.elem)
        self.items0 = eng.list_items(lv.t, self.elem)

    def length(self):
        return self.n0

    def element(self, i):
        # python iterates the live list; we require (and check) that it is not changed by the body
        v = unflatten(self.elem, [z3.Select(a, i) for a in self.items0])
        self.eng.wf_assume(v)
        return v

    def protect(self, ws):
        pass

    def check_unchanged(self, n, line):
        eng = self.eng
        cur = eng.list_len(self.lv.t, self.elem)
        g = z3.simplify(cur == self.n0)
        if z3.is_true(g):
            return
        eng.oblige("%s/iterated-list-not-resized@%d" % (eng.cur_short, line), g, "safety", line)


class RangeSource:
    def __init__(self, eng, args):
        self.eng = eng
        a = [zr(x.t) for x in args]
        if len(a) == 1:
            self.lo, self.hi, self.step = z3.IntVal(0), a[0], z3.IntVal(1)
        elif len(a) == 2:
            self.lo, self.hi, self.step = a[0], a[1], z3.IntVal(1)
        else:
            self.lo, self.hi, self.step = a
            if eng.path.feasible_with(self.step <= 0):
                raise EngineLimit("range with possibly non-positive step")

    def length(self):
        d = self.hi - self.lo
        return z3.If(d <= 0, 0, (d + self.step - 1) / self.step)

    def element(self, i):
        # range semantics (positive step): the k-th element lo + k*step of range(lo, hi, step), 0 <= k < len, lies below hi
        # (stated because the solvers do not derive it from the integer division in len)
        self.eng.path.assume(self.lo + i * self.step < self.hi, check=False)
        return SV(INT, self.lo + i * self.step)

    def exit_facts(self, n):
        # .. and lo + len*step is the first value of the progression that is not below hi
        self.eng.path.assume(z3.And(self.lo + n * self.step >= self.hi, z3.Implies(n > 0, self.lo + (n - 1) * self.step < self.hi)), check=False)

    def protect(self, ws):
        pass

    def check_unchanged(self, n, line):
        pass


class ZipSource:
    def __init__(self, eng, parts):
        self.eng = eng
        self.parts = parts

    def length(self):
        n = self.parts[0].length()
        for p in self.parts[1:]:
            m = p.length()
            n = z3.If(m < n, m, n)
        return n

    def element(self, i):
        return bm.make_tuple([p.element(i) for p in self.parts])

    def protect(self, ws):
        pass

    def check_unchanged(self, n, line):
        for p in self.parts:
            p.check_unchanged(n, line)


class EnumSource:
    def __init__(self, eng, inner):
        self.inner = inner

    def length(self):
        return self.inner.length()

    def element(self, i):
        return bm.make_tuple([SV(INT, i), self.inner.element(i)])

    def protect(self, ws):
        pass

    def check_unchanged(self, n, line):
        self.inner.check_unchanged(n, line)


def make_iter_source(eng, it, line):
    if isinstance(it, PyVal) and it.kind == "iter":
        it = it.of
    if isinstance(it, SV) and isinstance(it.sort, Opt):
        it = eng.deref(it, "TypeError", line)
    if isinstance(it, SV) and isinstance(it.sort, ListOf):
        return ListSource(eng, it)
    if isinstance(it, PyVal) and it.kind in ("list", "tuple"):
        # concrete list inside a zip with symbolic partner
        elem = None
        raise EngineLimit("mixed concrete/symbolic iteration")
    if isinstance(it, PyVal) and it.kind == "range":
        return RangeSource(eng, it.args)
    if isinstance(it, PyVal) and it.kind == "zip":
        return ZipSource(eng, [make_iter_source(eng, p, line) for p in it.parts])
    if isinstance(it, PyVal) and it.kind == "enumerate":
        return EnumSource(eng, make_iter_source(eng, it.of, line))
    if isinstance(it, PyVal) and it.kind == "mapview":
        from . import containers as ct

        return ct.MapViewSource(eng, it)
    if isinstance(it, SV) and isinstance(it.sort, MapOf):
        from . import containers as ct

        return ct.MapViewSource(eng, PyVal("mapview", of=it, what="keys"))
    if isinstance(it, SV) and isinstance(it.sort, Ref):
        # object with __iter__ returning iter(list(...)): inline it
        mem = eng.repo.lookup_member(it.sort.cls, "__iter__")
        if mem:
            kind, ci, n = mem
            r = eng.call_function(ci.module, ci, n, [it], {}, line, "%s::%s.__iter__" % (ci.module.relpath, ci.name))
            return make_iter_source(eng, r, line)
    raise EngineLimit("iteration over %s (line %s)" % (it, line))
