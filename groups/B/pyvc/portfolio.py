"""Last stage of discharge: a small portfolio for obligations every earlier stage left unknown.

Measured (DESIGN 10.3): some quantified VCs are bimodal in z3 - 0.1 s with one random seed or assertion order, a
time-out with another - so a single configuration makes the verdict depend on luck and machine load.  Each open
obligation is retried with assertion orders 0..2 x several random seeds on the process pool; the first definite answer
wins.  More attempts can only turn `unknown` into a verdict, never change a verdict."""
import multiprocessing as mp
import os
import time

import z3

SEEDS = (7, 1, 13)


def _pwork(job):
    key, smt, timeout_ms, seed = job
    t0 = time.time()
    try:
        z3.set_param("memory_max_size", int(os.environ.get("PYVC_Z3_MEM_MB", "3000")))
        z3.set_param("smt.random_seed", seed)
        z3.set_param("sat.random_seed", seed)
        s = z3.Solver()
        s.set("timeout", timeout_ms)
        s.set("random_seed", seed)
        s.from_string(smt)
        r = s.check()
        model = None
        if r == z3.sat:
            m = s.model()
            model = {}
            for d in m.decls():
                if d.arity() == 0:
                    v = m[d]
                    if z3.is_array(v):
                        continue
                    model[d.name()] = str(v)
            model["__full__"] = str(m)[:20000]
        return dict(name=key, verdict=str(r), solver="z3-%s (portfolio seed %d)" % (z3.get_version_string(), seed), time=time.time() - t0, model=model,
                    reason=s.reason_unknown() if r == z3.unknown else "")
    except Exception as e:  # noqa
        return dict(name=key, verdict="error", solver="z3", time=time.time() - t0, model=None, reason=repr(e))


def rescue(results, to_smt2, timeout_ms=20000, jobs=None):
    """results: list of dicts with 'obligation' and 'verdict' (as returned by discharge); updated in place"""
    if os.environ.get("PYVC_NO_PORTFOLIO"):
        return results
    open_ = [i for i, r in enumerate(results) if r["verdict"] in ("unknown", "error") and getattr(r["obligation"], "kind", "") != "canary"]
    if not open_:
        return results
    jobs = jobs or int(os.environ.get("PYVC_JOBS", min(16, os.cpu_count() or 4)))
    budget = min(timeout_ms, 10000)
    work = []
    for i in open_:
        for order in (0, 1, 2):
            try:
                smt = to_smt2(results[i]["obligation"], order)
            except Exception:
                continue
            for seed in SEEDS:
                work.append(((i, order, seed), smt, budget, seed))
    ctx = mp.get_context("fork")
    done = {}
    with ctx.Pool(jobs) as pool:
        for x in pool.imap_unordered(_pwork, work, chunksize=1):
            i = x["name"][0]
            if x["verdict"] in ("sat", "unsat") and i not in done:
                done[i] = x
                if len(done) == len(open_):
                    pool.terminate()
                    break
    if os.environ.get("PYVC_TIMES"):
        import sys
        print("PORTFOLIO %d open, %d jobs, %d decided: %s" % (len(open_), len(work), len(done), [(getattr(results[i]["obligation"], "name", "?"), x["verdict"], x["name"][1:], round(x["time"], 1)) for i, x in done.items()]), file=sys.stderr)
    for i, x in done.items():
        x["obligation"] = results[i]["obligation"]
        x["name"] = results[i].get("name")
        results[i] = x
    return results
