"""Front end: index of the repository's *current* source (re-read on every run)."""
import ast
import hashlib
import os


class ModuleInfo:
    def __init__(self, repo, relpath, modname):
        self.repo = repo
        self.relpath = relpath
        self.modname = modname  # e.g. flumine.order.order
        path = os.path.join(repo.root, relpath)
        self.source = open(path).read()
        self.tree = ast.parse(self.source)
        self.functions = {}
        self.classes = {}
        self.assigns = {}  # name -> value node (module-level simple assignments)
        self.imports = {}  # local name -> ("module", modname) | ("from", modname, name)
        pkg = modname.split(".")
        is_pkg = relpath.endswith("__init__.py")
        for node in self.tree.body:
            if isinstance(node, ast.FunctionDef):
                self.functions[node.name] = node
            elif isinstance(node, ast.ClassDef):
                self.classes[node.name] = ClassInfo(self, node)
            elif isinstance(node, ast.Assign) and len(node.targets) == 1 and isinstance(node.targets[0], ast.Name):
                self.assigns[node.targets[0].id] = node.value
            elif isinstance(node, ast.Import):
                for a in node.names:
                    self.imports[a.asname or a.name.split(".")[0]] = ("module", a.name if a.asname else a.name.split(".")[0])
            elif isinstance(node, ast.ImportFrom):
                base = pkg if is_pkg else pkg[:-1]
                if node.level:
                    base = base[: len(base) - (node.level - 1)]
                    target = ".".join(base + ([node.module] if node.module else []))
                else:
                    target = node.module
                for a in node.names:
                    self.imports[a.asname or a.name] = ("from", target, a.name)

    def segment(self, node):
        return ast.get_source_segment(self.source, node)


class ClassInfo:
    def __init__(self, module, node):
        self.module = module
        self.node = node
        self.name = node.name
        self.bases = []
        for b in node.bases:
            if isinstance(b, ast.Name):
                self.bases.append(b.id)
            elif isinstance(b, ast.Attribute):
                self.bases.append(b.attr)
        self.methods = {}
        self.properties = {}
        self.setters = {}
        self.staticmethods = set()
        self.classmethods = set()
        self.attrs = {}
        for n in node.body:
            if isinstance(n, ast.FunctionDef):
                decs = []
                for d in n.decorator_list:
                    if isinstance(d, ast.Name):
                        decs.append(d.id)
                    elif isinstance(d, ast.Attribute):
                        decs.append(d.attr)
                    else:
                        decs.append("?")
                if "property" in decs:
                    self.properties[n.name] = n
                elif "setter" in decs:
                    self.setters[n.name] = n
                else:
                    self.methods[n.name] = n
                    if "staticmethod" in decs:
                        self.staticmethods.add(n.name)
                    if "classmethod" in decs:
                        self.classmethods.add(n.name)
                    n._other_decorators = [d for d in decs if d not in ("staticmethod", "classmethod")]
            elif isinstance(n, ast.Assign) and len(n.targets) == 1 and isinstance(n.targets[0], ast.Name):
                self.attrs[n.targets[0].id] = n.value
                # alias like  __contains__ = has_order


class Repo:
    def __init__(self, root, package="flumine"):
        self.root = root
        self.package = package
        self.modules = {}
        self.classes = {}
        for dp, dn, fn in os.walk(os.path.join(root, package)):
            for f in sorted(fn):
                if f.endswith(".py"):
                    rel = os.path.relpath(os.path.join(dp, f), root)
                    mod = rel[:-3].replace(os.sep, ".")
                    if mod.endswith(".__init__"):
                        mod = mod[: -len(".__init__")]
                    mi = ModuleInfo(self, rel, mod)
                    self.modules[mod] = mi
        for mi in self.modules.values():
            for c in mi.classes.values():
                self.classes.setdefault(c.name, c)

    def module_by_path(self, relpath):
        for m in self.modules.values():
            if m.relpath == relpath:
                return m
        raise KeyError(relpath)

    def find(self, qual):
        """'flumine/utils.py::get_nearest_price' or 'flumine/order/order.py::BetfairOrder.cancel'
        -> (module, classinfo|None, FunctionDef)"""
        path, name = qual.split("::")
        m = self.module_by_path(path)
        if "." in name:
            cn, fn = name.split(".")
            c = m.classes[cn]
            node = c.methods.get(fn) or c.properties.get(fn)
            if node is None and fn.endswith("@setter"):
                node = c.setters.get(fn[: -len("@setter")])
            if node is None:
                raise KeyError(qual)
            return m, c, node
        return m, None, m.functions[name]

    def mro(self, clsname):
        out = []
        todo = [clsname]
        while todo:
            c = todo.pop(0)
            if c in out:
                continue
            out.append(c)
            ci = self.classes.get(c)
            if ci:
                todo = ci.bases + todo
        return out

    def is_subclass(self, a, b):
        return b in self.mro(a)

    def lookup_member(self, clsname, name):
        """-> (kind, classinfo, node) walking the mro; kind in method/property/attr"""
        for c in self.mro(clsname):
            ci = self.classes.get(c)
            if not ci:
                continue
            if name in ci.methods:
                return "method", ci, ci.methods[name]
            if name in ci.properties:
                return "property", ci, ci.properties[name]
            if name in ci.attrs:
                return "attr", ci, ci.attrs[name]
        return None

    def lookup_setter(self, clsname, name):
        for c in self.mro(clsname):
            ci = self.classes.get(c)
            if ci and name in ci.setters:
                return ci, ci.setters[name]
        return None

    def resolve_import(self, mi, name):
        """resolve an imported local name to ('module', ModuleInfo)|('func', mi, node)|('class', ci)|('const', mi, name)|None"""
        imp = mi.imports.get(name)
        if not imp:
            return None
        if imp[0] == "module":
            m = self.modules.get(imp[1])
            return ("module", m) if m else ("extmodule", imp[1])
        _, target, nm = imp
        sub = self.modules.get("%s.%s" % (target, nm)) if target else None
        if sub is not None:
            return ("module", sub)
        tm = self.modules.get(target)
        if tm is None:
            return ("ext", target, nm)
        return self.lookup_module_name(tm, nm)

    def lookup_module_name(self, tm, nm, depth=0):
        if nm in tm.functions:
            return ("func", tm, tm.functions[nm])
        if nm in tm.classes:
            return ("class", tm.classes[nm])
        if nm in tm.assigns:
            return ("const", tm, nm)
        if nm in tm.imports and depth < 5:
            r = self.resolve_import(tm, nm)
            return r
        return None

    def sha(self, mi, node):
        return hashlib.sha256(mi.segment(node).encode()).hexdigest()
