"""Discharge obligations: z3 (python API) on a process pool, cvc5 / z3-4.8 CLI for what it leaves unknown."""
import multiprocessing as mp
import os
import subprocess
import tempfile
import time

import z3


def _is_read_def(a):
    return z3.is_eq(a) and z3.is_const(a.arg(0)) and a.arg(0).decl().name().startswith("rd!")


def to_smt2(ob, order=0):
    """order 0: purification definitions (rd!k == select ..) AFTER the arithmetic facts and the goal - z3 5.1 and
    cvc5 leave integrality goals undecided when the definitions come first (measured; see DESIGN section 9);
    order 1: as generated; order 2: reversed"""
    s = z3.Solver()
    facts = list(ob.pc) + list(ob.extra.get("axioms", []))
    goal = z3.Not(ob.goal)
    if order == 0:
        defs = [a for a in facts if _is_read_def(a)]
        rest = [a for a in facts if not _is_read_def(a)]
        seq = rest + [goal] + defs
    elif order == 1:
        seq = facts + [goal]
    else:
        seq = [goal] + facts[::-1]
    for a in seq:
        s.add(a)
    return s.to_smt2()


SCOPES = ((1, 0), (2, 0), (1, 7), (1, 23))  # (max list length, solver seed)


def _small_scope_terms(assertions):
    """ground list-length terms of a VC: select(<..len.. heap array>, ref) and havoc constants named *_len!k
    (terms under a quantifier are left alone)"""
    terms = {}
    seen = set()
    todo = list(assertions)
    while todo:
        u = todo.pop()
        if u.get_id() in seen or z3.is_quantifier(u):
            continue
        seen.add(u.get_id())
        if z3.is_app(u):
            if u.decl().kind() == z3.Z3_OP_SELECT and z3.is_int(u):
                a = u.arg(0)
                while z3.is_app(a) and a.decl().kind() in (z3.Z3_OP_STORE, z3.Z3_OP_ITE):
                    a = a.arg(0) if a.decl().kind() == z3.Z3_OP_STORE else a.arg(1)
                if z3.is_const(a) and "len" in a.decl().name():
                    terms[u.get_id()] = u
            if z3.is_const(u) and z3.is_int(u) and "_len!" in u.decl().name():
                terms[u.get_id()] = u
            todo.extend(u.children())
    return list(terms.values())


def _work(job):
    name, smt, timeout_ms, want_model = job[:4]
    scope = job[4] if len(job) > 4 else None
    t0 = time.time()
    try:
        s = z3.Solver()
        s.set("timeout", timeout_ms)
        s.from_string(smt)
        if scope is not None:
            scope, seed = scope
            s.set("random_seed", seed)
            # small-scope model search: the same formula plus "every list mentioned has at most `scope` elements".
            # Only a `sat` answer is used (a model of the strengthened formula is a model of the formula).
            for t in _small_scope_terms(s.assertions()):
                s.add(t <= scope)
        r = s.check()
        if scope is not None and r != z3.sat:
            return dict(name=name, verdict="unknown", solver="z3", time=time.time() - t0, model=None, reason="small-scope search found no model")
        verdict = str(r)
        model = None
        if r == z3.sat and want_model:
            m = s.model()
            model = {}
            for d in m.decls():
                if d.arity() == 0:
                    v = m[d]
                    if z3.is_array(v):
                        continue
                    model[d.name()] = str(v)
            # arrays of the initial heap, evaluated lazily by the replay builder through 'eval' requests
            model["__full__"] = str(m)[:20000]
        reason = s.reason_unknown() if r == z3.unknown else ""
        return dict(name=name, verdict=verdict, solver="z3-%s" % z3.get_version_string(), time=time.time() - t0, model=model, reason=reason)
    except Exception as e:  # noqa
        return dict(name=name, verdict="error", solver="z3", time=time.time() - t0, model=None, reason=repr(e))


def cli_fallback(smt, timeout_s):
    """try cvc5 then /usr/bin/z3 on the SMT-LIB text; returns (verdict, solver)"""
    with tempfile.NamedTemporaryFile("w", suffix=".smt2", delete=False, dir=os.environ.get("PYVC_TMP", None)) as f:
        f.write("(set-logic ALL)\n" + smt + "\n")
        path = f.name
    try:
        for cmd, nm in (
            (["/usr/bin/cvc5", "--tlimit=%d" % int(timeout_s * 1000), path], "cvc5-1.0.3"),
            (["/usr/bin/z3", "-T:%d" % int(timeout_s), path], "z3-4.8.12"),
        ):
            try:
                out = subprocess.run(cmd, capture_output=True, text=True, timeout=timeout_s + 5).stdout.strip().splitlines()
            except Exception:
                continue
            if out and out[0] in ("sat", "unsat"):
                return out[0], nm
        return "unknown", None
    finally:
        os.unlink(path)


_T = [0.0]


def _stage(what, n):
    if os.environ.get("PYVC_TIMING"):
        now = time.time()
        print("  [solve] %s: %d jobs, %.1fs" % (what, n, now - _T[0]), flush=True)
        _T[0] = now


def _discharge_base(obls, timeout_ms=20000, jobs=None, fallback=True):
    _T[0] = time.time()
    jobs = jobs or int(os.environ.get("PYVC_JOBS", min(16, os.cpu_count() or 4)))
    work = []
    for i, ob in enumerate(obls):
        work.append(("%d" % i, to_smt2(ob), min(timeout_ms, 3000) if ob.kind == "canary" else timeout_ms, ob.kind != "canary"))
    if not work:
        return []
    ctx = mp.get_context("fork")
    # obligations re-derived inside a known-finding region are expected to be satisfiable: start with the model search
    first = []
    for w, ob in zip(work, obls):
        first.append(w + (SCOPES[0],) if ob.kind == "known-region" else w)
    with ctx.Pool(jobs) as pool:
        results = pool.map(_work, first, chunksize=1)
    _stage("first pass", len(first))
    # second chance for what stayed unknown: other assertion orders (solver heuristics are order sensitive)
    retry = [(i, ob) for i, (ob, r) in enumerate(zip(obls, results)) if r["verdict"] in ("unknown", "error") and ob.kind not in ("canary", "known-region")]
    if retry:
        jobs2 = []
        for i, ob in retry:
            for order in (1, 2):
                jobs2.append(("%d/%d" % (i, order), to_smt2(ob, order), timeout_ms, True))
        with ctx.Pool(jobs) as pool:
            res2 = pool.map(_work, jobs2, chunksize=1)
        for (i, ob), k in zip(retry, range(0, len(res2), 2)):
            for r2 in res2[k : k + 2]:
                if r2["verdict"] in ("sat", "unsat"):
                    r2["solver"] += " (reordered)"
                    results[i] = r2
                    break
    _stage("reordered", len(retry) * 2)
    # third chance, refutation only: quantified hypotheses over lists keep the solvers from completing a model; look for a
    # counterexample in which every list has at most one (then two) elements
    retry = [(i, ob) for i, (ob, r) in enumerate(zip(obls, results)) if r["verdict"] in ("unknown", "error") and ob.kind != "canary"]
    if retry:
        jobs3 = []
        for i, ob in retry:
            for scope in SCOPES:
                jobs3.append(("%d/s%d.%d" % (i, scope[0], scope[1]), work[i][1], min(timeout_ms, 10000), True, scope))
        with ctx.Pool(jobs) as pool:
            res3 = pool.map(_work, jobs3, chunksize=1)
        for (i, ob), k in zip(retry, range(0, len(res3), len(SCOPES))):
            for r3, scope in zip(res3[k : k + len(SCOPES)], SCOPES):
                if r3["verdict"] == "sat":
                    r3["solver"] += " (small-scope model search: lists of at most %d elements)" % scope[0]
                    results[i] = r3
                    break
    _stage("small scope", len(retry) * len(SCOPES))
    out = []
    for ob, job, r in zip(obls, work, results):
        if r["verdict"] in ("unknown", "error") and fallback and ob.kind not in ("canary", "known-region"):
            v, nm = cli_fallback(job[1], timeout_ms / 1000.0)
            if v in ("sat", "unsat"):
                r = dict(r, verdict=v, solver=nm)
        r["obligation"] = ob
        out.append(r)
    return out


def discharge(obls, timeout_ms=20000, jobs=None, fallback=True):
    """all stages of _discharge_base, then the seed/order portfolio (pyvc/portfolio.py) on what is still unknown"""
    from . import portfolio

    out = _discharge_base(obls, timeout_ms, jobs, fallback)
    return portfolio.rescue(out, to_smt2, timeout_ms, jobs) if fallback else out
