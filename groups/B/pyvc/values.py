"""Sorts and symbolic values of the pyvc engine.

Numbers:  concrete numbers are python ``int`` / ``fractions.Fraction`` (a float
literal ``1.01`` is read as the decimal it prints as: assumption A1); symbolic
numbers are z3 Int / Real terms.
Atoms:    strings (other than the character sequences of C19) and enum members
are interned constants; a symbolic atom is a z3 Int holding the code.
Refs:     objects are z3 Int references into per-(class, field) heap arrays.
"""
from fractions import Fraction
import z3


class EngineLimit(Exception):
    """The construct is outside the accepted subset: the function is out of reach."""


# --------------------------------------------------------------------------- sorts
class Sort:
    def __repr__(self):
        return self.name

    def __eq__(self, other):
        return isinstance(other, Sort) and self.name == other.name

    def __hash__(self):
        return hash(self.name)


class _Prim(Sort):
    def __init__(self, name):
        self.name = name


REAL = _Prim("Real")
INT = _Prim("Int")
BOOL = _Prim("Bool")
ATOM = _Prim("Atom")
NONE = _Prim("None")
MONEY = _Prim("Money")  # a real on the penny grid (D1): stored as an integer number of pennies, read as to_real(p)/100
CHARS = _Prim("Chars")  # python str modelled as (length, Int->Int array): C19


class Ref(Sort):
    def __init__(self, cls):
        self.cls = cls
        self.name = "Ref[%s]" % cls


class Opt(Sort):
    def __init__(self, inner):
        self.inner = inner
        self.name = "Opt[%s]" % inner.name


class Tup(Sort):
    def __init__(self, *items):
        self.items = tuple(items)
        self.name = "Tup[%s]" % ",".join(i.name for i in items)


class ListOf(Sort):
    """reference to a heap list object with elements of sort elem"""

    def __init__(self, elem):
        self.elem = elem
        self.name = "List[%s]" % elem.name


class MapOf(Sort):
    """reference to a heap dict object"""

    def __init__(self, key, val):
        self.key = key
        self.val = val
        self.name = "Map[%s,%s]" % (key.name, val.name)


def Enum(name):
    return ATOM


# --------------------------------------------------------------------------- atoms
class AtomTable:
    """interning of string / enum constants to distinct integer codes"""

    def __init__(self):
        self.codes = {}
        self.names = {}

    def code(self, name):
        if name not in self.codes:
            c = len(self.codes) + 1
            self.codes[name] = c
            self.names[c] = name
        return self.codes[name]


ATOMS = AtomTable()


class Atom:
    __slots__ = ("name",)

    def __init__(self, name):
        self.name = name

    def __eq__(self, o):
        return isinstance(o, Atom) and o.name == self.name

    def __hash__(self):
        return hash(("atom", self.name))

    def __repr__(self):
        return "Atom(%r)" % self.name


# --------------------------------------------------------------------------- values
class SV:
    """a symbolic value: sort + term.

    term by sort:
      REAL/INT : int | Fraction | z3 ArithRef
      BOOL     : bool | z3 BoolRef
      ATOM     : Atom | z3 Int
      NONE     : None
      Ref/ListOf/MapOf : z3 Int (or python int)
      Opt      : (isnone: bool|BoolRef, inner: SV)
      Tup      : tuple of SV
      CHARS    : (length term, z3 Array Int->Int)
    """

    __slots__ = ("sort", "t", "aux")

    def __init__(self, sort, t, aux=None):
        self.sort = sort
        self.t = t
        self.aux = aux

    def __repr__(self):
        return "SV(%s, %s)" % (self.sort, self.t)


NONE_V = SV(NONE, None)
TRUE_V = SV(BOOL, True)
FALSE_V = SV(BOOL, False)


class PyVal:
    """python-level (non symbolic) value: module, function, class, builtin, literal containers"""

    def __init__(self, kind, **kw):
        self.kind = kind
        self.__dict__.update(kw)

    def __repr__(self):
        return "PyVal(%s,%s)" % (self.kind, {k: v for k, v in self.__dict__.items() if k != "kind" and k != "node"})


# --------------------------------------------------------------------------- numeric helpers
def is_conc_num(x):
    return isinstance(x, (int, Fraction)) and not isinstance(x, bool)


def frac(x):
    """python number -> exact Fraction (float via its shortest repr: A1)"""
    if isinstance(x, bool):
        return int(x)
    if isinstance(x, int):
        return x
    if isinstance(x, float):
        f = Fraction(repr(x))
        return int(f) if f.denominator == 1 and False else f
    if isinstance(x, Fraction):
        return x
    raise TypeError(x)


def zr(x):
    """to z3 real/int term"""
    if isinstance(x, bool):
        return z3.IntVal(int(x))
    if isinstance(x, int):
        return z3.IntVal(x)
    if isinstance(x, Fraction):
        return z3.RealVal(str(x))
    return x


def zreal(x):
    if isinstance(x, bool):
        return z3.RealVal(int(x))
    if isinstance(x, int):
        return z3.RealVal(x)
    x = zr(x)
    if z3.is_int(x):
        if z3.is_int_value(x):
            return z3.RealVal(x.as_long())  # a numeral, not (to_real 100): keeps products linear for the solver
        return z3.ToReal(x)
    return x


def zb(x):
    if isinstance(x, bool):
        return z3.BoolVal(x)
    return x


def za(x):
    if isinstance(x, Atom):
        return z3.IntVal(ATOMS.code(x.name))
    return x


def z3sorts(sort):
    """flatten a sort into z3 component sorts"""
    if sort in (REAL,):
        return [z3.RealSort()]
    if sort in (INT, ATOM, MONEY) or isinstance(sort, (Ref, ListOf, MapOf)):
        return [z3.IntSort()]
    if sort == BOOL:
        return [z3.BoolSort()]
    if isinstance(sort, Opt):
        return [z3.BoolSort()] + z3sorts(sort.inner)
    if isinstance(sort, Tup):
        out = []
        for i in sort.items:
            out += z3sorts(i)
        return out
    if sort == CHARS:
        return [z3.IntSort(), z3.ArraySort(z3.IntSort(), z3.IntSort())]
    if sort == NONE:
        return []
    raise EngineLimit("no z3 representation for sort %s" % sort)


def flatten(v, sort=None):
    """SV -> list of z3 terms matching z3sorts(sort)"""
    sort = sort or v.sort
    if sort == REAL:
        if v.sort not in (REAL, INT, BOOL):
            raise EngineLimit("cannot store %s as Real" % v.sort)
        return [zreal(v.t)]
    if sort == INT:
        if v.sort not in (INT, BOOL):
            raise EngineLimit("cannot store %s as Int" % v.sort)
        return [zr(v.t)]
    if sort == MONEY:
        if v.sort not in (REAL, INT, BOOL):
            raise EngineLimit("cannot store %s as Money" % v.sort)
        if is_conc_num(v.t):
            p = Fraction(v.t) * 100
            if p.denominator != 1:
                raise EngineLimit("constant %s is not on the penny grid" % v.t)
            return [z3.IntVal(int(p))]
        return [pennies(zreal(v.t))]
    if sort == ATOM:
        if v.sort != ATOM:
            raise EngineLimit("cannot store %s as Atom" % v.sort)
        return [za(v.t)]
    if isinstance(sort, (Ref, ListOf, MapOf)):
        if not isinstance(v.sort, (Ref, ListOf, MapOf)):
            raise EngineLimit("cannot store %s as %s" % (v.sort, sort))
        return [zr(v.t)]
    if sort == BOOL:
        if v.sort != BOOL:
            raise EngineLimit("cannot store %s as Bool" % v.sort)
        return [zb(v.t)]
    if isinstance(sort, Opt):
        if v.sort == NONE:
            return [z3.BoolVal(True)] + [default_term(s) for s in z3sorts(sort.inner)]
        if isinstance(v.sort, Opt):
            return [zb(v.t[0])] + flatten(v.t[1], sort.inner)
        return [z3.BoolVal(False)] + flatten(v, sort.inner)
    if isinstance(sort, Tup):
        if not isinstance(v.sort, Tup) or len(v.t) != len(sort.items):
            raise EngineLimit("cannot store %s as %s" % (v.sort, sort))
        out = []
        for x, s in zip(v.t, sort.items):
            out += flatten(x, s)
        return out
    if sort == CHARS:
        return [zr(v.t[0]), v.t[1]]
    if sort == NONE:
        return []
    raise EngineLimit("flatten %s" % sort)


def pennies(t):
    """real term on the penny grid -> integer pennies; recognises to_real(p)/100 so that read-then-write is the identity"""
    s = z3.simplify(t * 100)
    if z3.is_app(s) and s.decl().kind() == z3.Z3_OP_TO_REAL:
        return s.arg(0)
    return z3.ToInt(s)


def default_term(zsort):
    if zsort == z3.RealSort():
        return z3.RealVal(0)
    if zsort == z3.IntSort():
        return z3.IntVal(0)
    if zsort == z3.BoolSort():
        return z3.BoolVal(False)
    return z3.K(z3.IntSort(), z3.IntVal(0))


def unflatten(sort, terms):
    """inverse of flatten: consumes from list terms, returns SV"""
    terms = list(terms)

    def go(s):
        if s == MONEY:
            return SV(REAL, z3.ToReal(terms.pop(0)) / 100)
        if s in (REAL, INT, BOOL, ATOM) or isinstance(s, (Ref, ListOf, MapOf)):
            return SV(s, terms.pop(0))
        if isinstance(s, Opt):
            isn = terms.pop(0)
            return SV(s, (isn, go(s.inner)))
        if isinstance(s, Tup):
            return SV(s, tuple(go(i) for i in s.items))
        if s == CHARS:
            l = terms.pop(0)
            a = terms.pop(0)
            return SV(CHARS, (l, a))
        if s == NONE:
            return NONE_V
        raise EngineLimit("unflatten %s" % s)

    return go(sort)


_fresh_counter = [0]


def fresh_name(prefix):
    _fresh_counter[0] += 1
    return "%s!%d" % (prefix, _fresh_counter[0])


def bvar(prefix, zsort=None):
    """a constant that will be bound by a quantifier / lambda (never purified, never part of a model)"""
    return z3.Const(fresh_name("bv!" + prefix), zsort if zsort is not None else z3.IntSort())


def has_bvar(t, budget=400):
    todo = [t]
    seen = set()
    n = 0
    while todo:
        x = todo.pop()
        if x.get_id() in seen:
            continue
        seen.add(x.get_id())
        n += 1
        if n > budget:
            return True
        if z3.is_var(x) or z3.is_quantifier(x):
            return True
        if z3.is_const(x) and x.decl().kind() == z3.Z3_OP_UNINTERPRETED and x.decl().name().startswith("bv!"):
            return True
        todo.extend(x.children())
    return False


def fresh_terms(sort, prefix):
    return [z3.Const(fresh_name(prefix), s) for s in z3sorts(sort)]


def fresh_value(sort, prefix):
    return unflatten(sort, fresh_terms(sort, prefix))
