"""developer tool: dump undischarged obligations of one contract as SMT-LIB and try the CLI solvers"""
import sys,time,os,subprocess; sys.path.insert(0,os.path.dirname(os.path.dirname(os.path.abspath(__file__))))
from pyvc.repo import Repo; from pyvc.engine import Engine; from pyvc.contracts import Spec, verify_function; from pyvc import solve
repo=Repo(os.environ.get('REPO','/repo')); spec=Spec(); spec.load_dir(os.path.join(os.path.dirname(os.path.dirname(os.path.abspath(__file__))),'contracts'),{'PRICES':[1],'BETDAQ_PRICES':[1]})
eng=Engine(repo,spec)
c=spec.contracts[sys.argv[1]]
r=verify_function(eng,c)
obs=[o for o in r.obligations if o.kind!='canary' and sys.argv[2] in o.name]
res=solve.discharge(obs,int(os.environ.get('TO','5000')),fallback=False)
n=0
for x in res:
    if x['verdict']!='unsat':
        ob=x['obligation']; p='/tmp/dump_%d.smt2'%n; n+=1
        open(p,'w').write("(set-logic ALL)\n"+solve.to_smt2(ob))
        print(ob.name, ob.path, x['verdict'], p, ob.extra['labels'][-6:])
        if n>=int(os.environ.get('N','2')): break
