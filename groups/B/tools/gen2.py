import sys,time,signal; import os; ROOT=os.path.dirname(os.path.dirname(os.path.abspath(__file__))); sys.path.insert(0,ROOT)
from pyvc.repo import Repo; from pyvc.engine import Engine; from pyvc.contracts import Spec, verify_function
import os, cProfile, pstats
repo=Repo(os.environ.get('REPO','/repo')); spec=Spec(); spec.load_dir(os.path.join(ROOT,'contracts'),{'PRICES':[1],'BETDAQ_PRICES':[1]})
eng=Engine(repo,spec)
c=spec.contracts[sys.argv[1]]
pr=cProfile.Profile()
def onalarm(*a):
    pr.disable(); pstats.Stats(pr).sort_stats('cumulative').print_stats(25); os._exit(0)
signal.signal(signal.SIGALRM,onalarm); signal.alarm(int(os.environ.get('SECS','40')))
pr.enable()
r=verify_function(eng,c,max_paths=int(os.environ.get('MAXP','40')))
pr.disable()
print(r.status,r.limit,r.paths,len(r.obligations))
pstats.Stats(pr).sort_stats('cumulative').print_stats(25)
