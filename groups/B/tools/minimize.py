"""developer tool: shrink an SMT-LIB file to a small set of assertions that is still 'unknown'"""
import z3,sys
fs=list(z3.parse_smt2_file(sys.argv[1]))
def chk(cs):
    s=z3.Solver(); s.set('timeout',int(sys.argv[2]) if len(sys.argv)>2 else 1500); s.add(*cs); return str(s.check())
print(len(fs), chk(fs))
cur=list(fs[:-1]); goal=fs[-1]
i=0
while i<len(cur):
    tr=cur[:i]+cur[i+1:]
    if chk(tr+[goal])=='unknown': cur=tr
    else: i+=1
for c in cur+[goal]: print('--',c)
