"""developer tool: list every obligation instance of one contract with verdict and solver time
usage: python3-vt tools/obls.py <qual-substring> [name-substring]   (env REPO, TO ms)"""
import sys, os, time
ROOT = os.path.dirname(os.path.dirname(os.path.abspath(__file__)))
sys.path.insert(0, ROOT)
import json
from pyvc.repo import Repo; from pyvc.engine import Engine; from pyvc.contracts import Spec, verify_function; from pyvc import solve
repo = Repo(os.environ.get('REPO', '/repo')); spec = Spec(); spec.load_dir(os.path.join(ROOT, 'contracts'), {'PRICES': [1], 'BETDAQ_PRICES': [1]})
eng = Engine(repo, spec)
kf = json.load(open(os.path.join(ROOT, 'known_findings.json')))
prop = os.environ.get('PROP')
if prop:
    eng.known_regions = {f["obligation"]: f for f in kf.get("findings", []) if f["property"] == prop and f.get("region")}
for q, c in sorted(spec.contracts.items()):
    if sys.argv[1] not in q:
        continue
    t0 = time.time()
    r = verify_function(eng, c)
    print("==", q, r.status, r.limit, "paths", r.paths, "gen %.1fs" % (time.time() - t0))
    obs = [o for o in r.obligations if len(sys.argv) < 3 or sys.argv[2] in o.name]
    res = solve.discharge(obs, int(os.environ.get('TO', '20000')), fallback=False)
    for x in res:
        ob = x['obligation']
        if ob.kind == 'canary' and x['verdict'] != 'unsat':
            continue
        print("  %-7s %6.2fs %s  [%s]" % (x['verdict'], x['time'], ob.name, ob.path))
