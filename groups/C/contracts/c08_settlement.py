"""C08 - settlement: SimulatedOrder.profit == the exchange's settlement rule (written from the property statement)."""

inline(
    "flumine/simulation/simulatedorder.py::SimulatedOrder.side",
    "flumine/order/order.py::BetfairOrder.average_price_matched",
    "flumine/order/order.py::BaseOrder.current_order",
)


def r2(x):
    return round(x, 2)


def settle_plain(side, m, a, status, n):
    """win market: stake x (price-1) for a winning back, minus the stake for a losing one, dead-heat reduction with n winners"""
    if status == "WINNER":
        if n <= 1:
            return r2(m * (a - 1)) if side == "BACK" else r2(-(m * (a - 1)))
        return r2((m / n) * (a - 1) - m * (n - 1) / n) if side == "BACK" else r2(-((m / n) * (a - 1) - m * (n - 1) / n))
    if status == "LOSER":
        return -m if side == "BACK" else m
    return 0.0


def settle_each_way(side, m, a, status, d):
    """each-way: a win part at the price and a place part at (price-1)/divisor, two stakes"""
    if status == "WINNER":
        return r2(m * (a - 1) + m * ((a - 1) * (1 / d))) if side == "BACK" else -r2(m * (a - 1) + m * ((a - 1) * (1 / d)))
    if status == "PLACED":
        return r2(m * ((a - 1) * (1 / d)) - m) if side == "BACK" else r2(m - m * ((a - 1) * (1 / d)))
    if status == "LOSER":
        return -r2(m * 2) if side == "BACK" else r2(m * 2)
    return 0.0


def settle_line(side, m, line, result):
    """line markets settle at even money: the backer of a line wins when the result is below the line, the layer when above"""
    if result is None:
        return 0.0
    if side == "BACK":
        return r2(m * (2.0 - 1)) if line > result else -m
    return r2(m * (2.0 - 1)) if line < result else -m


def is_line(o):
    return o.order_type.ORDER_TYPE == OrderTypes.LIMIT and o.order_type.price_ladder_definition == "LINE_RANGE"


def ndh(o):
    return 1 if (o.number_of_dead_heat_winners is None or o.number_of_dead_heat_winners == 0) else o.number_of_dead_heat_winners


def settle_spec(so):
    return (
        settle_each_way(so.order.side, so.size_matched, so.average_price_matched, so.order.runner_status, so.order.each_way_divisor)
        if so.order.market_type == "EACH_WAY" else (
            settle_line(so.order.side, so.size_matched, so.average_price_matched, so.order.line_range_result)
            if is_line(so.order) else
            settle_plain(so.order.side, so.size_matched, so.average_price_matched, so.order.runner_status, ndh(so.order))))


@contract("flumine/simulation/simulatedorder.py::SimulatedOrder.profit", tags=["C08"])
def _(self) -> REAL:
    requires("simulated_order_link", self.order._simulated and self.order.simulated == self)
    requires("abstract_property_link", self.order.average_price_matched == self.average_price_matched)  # see BetfairOrder.average_price_matched below
    requires("sides", self.order.side == "BACK" or self.order.side == "LAY")
    requires("matched_nonneg", self.size_matched >= 0)
    requires("ew_divisor", implies(self.order.market_type == "EACH_WAY", self.order.each_way_divisor is not None and self.order.each_way_divisor != 0))
    requires("dead_heat_count", implies(self.order.number_of_dead_heat_winners is not None, self.order.number_of_dead_heat_winners >= 0))
    ensures("settlement_rule", result == settle_spec(self))


@lemma("settlement_opposite_sides", tags=["C08"])
def _(m: REAL, a: REAL, n: INT, d: REAL, status: Opt(ATOM), line_result: Opt(REAL)):
    requires(m >= 0 and n >= 1 and d != 0 and is_int(m * 100))  # matched sizes are on the penny grid (D1; wap rounds to 2dp)
    ensures("plain_back_is_minus_lay", settle_plain("BACK", m, a, status, n) == -settle_plain("LAY", m, a, status, n))
    ensures("each_way_back_is_minus_lay", settle_each_way("BACK", m, a, status, d) == -settle_each_way("LAY", m, a, status, d))
    ensures("line_back_is_minus_lay", settle_line("BACK", m, a, line_result) == -settle_line("LAY", m, a, line_result))


# ----------------------------------------------------------------------------- Market.cleared
inline("flumine/markets/blotter.py::Blotter.client_orders")
struct("ClearedMarket", marketId=ATOM, eventId=Opt(ATOM), eventTypeId=Opt(ATOM), customerStrategyRef=ATOM, lastMatchedDate=Opt(REAL),
       placedDate=Opt(REAL), settledDate=Opt(REAL), betCount=INT, betOutcome=ATOM, commission=REAL, profit=REAL, absent_keyerror=False)


def client_view(market, client):
    return market.blotter._client_orders[client]


@contract("flumine/markets/market.py::Market.cleared", tags=["C08"])
def _(self, client: Ref("BaseClient")) -> Ref("ClearedMarket"):
    requires("commission_rate", client.commission_base >= 0)
    modifies_map(self.blotter._client_orders)  # a defaultdict: looking up an unknown client inserts an empty list
    ensures("profit_is_sum_over_matched_orders",
            result["profit"] == round(sum([o.profit for o in old(client_view(self, client)) if o.size_matched > 0]), 2)
            if old(client in self.blotter._client_orders) else result["profit"] == 0)
    ensures("bet_count", result["betCount"] == (len([o for o in old(client_view(self, client)) if o.size_matched > 0])
                                                if old(client in self.blotter._client_orders) else 0))
    ensures("commission_only_on_net_win", result["commission"] == round(max(result["profit"] * client.commission_base, 0), 2)
            and implies(result["profit"] <= 0, result["commission"] == 0))


# the abstract properties of a simulated order are the simulator's figures (link between the abstract fields of
# a_schema.py and the property bodies, checked on the bodies themselves)
@contract("flumine/order/order.py::BetfairOrder.average_price_matched", tags=["C08", "C16-in-main"])
def _(self) -> REAL:
    requires("simulated", self._simulated)
    ensures("is_the_simulators_figure", result == self.simulated.average_price_matched)


@contract("flumine/order/order.py::BetfairOrder.size_matched", tags=["C08", "C16-in-main"])
def _(self) -> REAL:
    requires("simulated", self._simulated)
    ensures("is_the_simulators_figure", result == self.simulated.size_matched)
