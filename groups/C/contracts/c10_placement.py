"""C10 / C15 - Transaction.place_order: the one place where an order enters the blotter and is charged to its runner context.

C10: "Transaction.place_order charges the runner context only for executed placements" (execute=True and accepted):
     the trade becomes live (once) and the placement time is stamped at every executed placement.
C15: insertion site no. 1 of Blotter.__setitem__ (guarded by `order.id not in blotter`, else OrderError); replacement orders
     (execute=False) are filed under their bet id.
"""

schema("Transaction", market=Ref("Market"), _client=Ref("BaseClient"), _id=INT, _async_place_orders=BOOL, _pending_orders=BOOL,
       _pending_place=ListOf(Tup(Ref("BaseOrder"), Opt(INT))))
schema("BaseFlumine", markets=Ref("Markets"), strategies=Ref("Strategies"), clients=Ref("Clients"),
       _market_middleware=ListOf(Ref("Middleware")), _logging_controls=ListOf(Ref("LoggingControl")))
schema("BaseEvent", _time_created=REAL, exchange=ATOM)
schema("TradeEvent", event=Ref("Trade"))
abstract_bool("SimulatedOrder", "_is_simulated")  # SimulatedOrder.__bool__ (config.simulated or paper trading) read as an abstract flag

inline("flumine/events/events.py::BaseEvent.__init__", "flumine/order/order.py::BaseOrder.placing")


@contract("flumine/order/order.py::BaseOrder.update_client", tags=["C15", "C10"])
def _(self, client: Ref("BaseClient")):
    modifies(self, "client")
    modifies(self, "_simulated")
    ensures("client_bound", self.client == client)


@contract("flumine/order/order.py::BetfairOrder.place", tags=["C10", "C15"])
def _(self, publish_time: Opt(REAL), market_version: Opt(INT), async_: Opt(BOOL)):
    rep_invariant("own_lists", order_log_is_private(self))
    rep_invariant("trade_own_lists", log_is_private(self.trade))
    modifies(self, "publish_time")
    modifies(self, "market_version")
    modifies(self, "async_")
    modifies(self, "status")
    modifies(self, "complete")
    modifies(self, "date_time_status_update")
    modifies_list(self.status_log)
    # nothing of the trade or of a runner context is in the frame: a PENDING order never completes its trade
    ensures("pending", self.status == OrderStatus.PENDING and not self.complete)
    ensures("placement_data", self.publish_time == publish_time and self.market_version == market_version and self.async_ == async_)
    ensures("log", appended_one(self.status_log, OrderStatus.PENDING))


@contract("flumine/execution/transaction.py::Transaction._validate_controls", tags=["C10", "C15"])
def _(self, order: Ref("BaseOrder"), package_type: ATOM) -> BOOL:
    trusted("trading / client controls are the subject of C01, C02, C17, C18: assumed here - a refusal marks the order VIOLATION "
            "(BaseControl._on_error -> order.violation, which never completes a trade), an acceptance leaves the order alone; neither touches the "
            "blotter or a runner context (StrategyExposure only reads them through get_runner_context / validate_order / get_exposures)")
    modifies(order, "status")
    modifies(order, "complete")
    modifies(order, "violation_msg")
    modifies(order, "date_time_status_update")
    modifies_list(order.status_log)
    modifies(order.update_data, "size_reduction")
    modifies(order.update_data, "new_price")
    ensures("refusal_marks_violation", implies(not result, order.status == OrderStatus.VIOLATION and order.complete))
    ensures("acceptance_changes_nothing", implies(result, order.status == old(order.status) and order.complete == old(order.complete)))


@contract("flumine/utils.py::get_market_notes", tags=["C10", "C15"])
def _(market: Ref("Market"), selection_id: INT) -> Opt(ATOM):
    trusted("read-only formatting of the runner's best prices (logging data)")


@contract("flumine/baseflumine.py::BaseFlumine.log_control", tags=["C10", "C15", "C20"])
def _(self, event: Ref("BaseEvent")):
    trusted("hands the event to the logging controls' queues (queue.Queue.put: external); no flumine state is written")


def ctx_for(o):
    return o.trade.strategy._invested[(o.lookup[0], o.lookup[1], o.lookup[2])]


def accounting_of_runner_untouched(o):
    return (forall_of(lambda k: (k in o.trade.strategy._invested) == old(k in o.trade.strategy._invested)
                      and o.trade.strategy._invested[k] == old(o.trade.strategy._invested[k]), K_RUNNER)
            and ctx_untouched(ctx_for(o)))


def stamped(o):
    """C10: an executed placement stamps the placement time of the order's runner context (the place_reset_seconds cool-down
    counts from the LAST placement on the runner)"""
    return ((o.lookup[0], o.lookup[1], o.lookup[2]) in o.trade.strategy._invested
            and ctx_for(o).datetime_last_placed == clock_now() and ctx_for(o).invested)


def charged(o):
    """C10: the executed placement is charged to the runner context of the order: its trade is counted and live"""
    return o.trade.id in ctx_for(o).trades and o.trade.id in ctx_for(o).live_trades


@contract("flumine/execution/transaction.py::Transaction.place_order", tags=["C10", "C15"], ground=True, list_tags=True)
def _(self, order: Ref("BaseOrder"), market_version: Opt(INT), execute: BOOL, force: BOOL) -> BOOL:
    requires("market_has_a_book", self.market.market_book is not None)
    requires("lookup_is_the_runner_key", order.lookup[0] == order.trade.market_id and order.lookup[1] == order.selection_id and order.lookup[2] == order.handicap)
    requires("context_lists_separate", implies((order.lookup[0], order.lookup[1], order.lookup[2]) in order.trade.strategy._invested,
                                               ctx_for(order).trades is not ctx_for(order).live_trades))
    # C15: exchange bet ids are unique, and a replacement order (execute=False) is filed by the bet id the exchange gave it
    requires("bet_id_unused", order.bet_id is None or order.bet_id not in self.market.blotter._bet_id_lookup)
    requires("replacement_carries_its_bet_id", implies(not execute, order.bet_id is not None))
    rep_invariant("own_lists", order_log_is_private(order))
    rep_invariant("trade_own_lists", log_is_private(order.trade))
    raises(OrderError, when=order.id in self.market.blotter._orders, label="already_placed",
           modifies=[(order, "_simulated"), (order, "status"), (order, "complete"), (order, "violation_msg"), (order, "date_time_status_update"),
                     (order, "publish_time"), (order, "market_version"), (order, "async_"), (order.update_data, "size_reduction"), (order.update_data, "new_price")])
    modifies(order, "client")
    modifies(order, "_simulated")
    modifies(order, "status")
    modifies(order, "complete")
    modifies(order, "violation_msg")
    modifies(order, "date_time_status_update")
    modifies(order, "publish_time")
    modifies(order, "market_version")
    modifies(order, "async_")
    modifies(order, "market_notes")
    modifies(order.trade, "market_notes")
    modifies(order.update_data, "size_reduction")
    modifies(order.update_data, "new_price")
    modifies_list(order.status_log)
    modifies(self, "_pending_orders")
    modifies_list(self._pending_place)
    modifies(self.market.blotter, "active")
    modifies_map(self.market.blotter._orders)
    modifies_map(self.market.blotter._bet_id_lookup)
    modifies_map(self.market.blotter._trade_lookup)
    modifies_map(self.market.blotter._trades)
    modifies_map(self.market.blotter._strategy_orders)
    modifies_map(self.market.blotter._strategy_selection_orders)
    modifies_map(self.market.blotter._client_orders)
    modifies_map(self.market.blotter._client_strategy_orders)
    modifies_list(self.market.blotter._live_orders)
    modifies_list(self.market.blotter._trades[order.trade])
    modifies_list(self.market.blotter._strategy_orders[order.trade.strategy])
    modifies_list(self.market.blotter._strategy_selection_orders[(order.trade.strategy, order.selection_id, order.handicap)])
    modifies_list(self.market.blotter._client_orders[self._client])
    modifies_list(self.market.blotter._client_strategy_orders[(self._client, order.trade.strategy)])
    modifies_map(order.trade.strategy._invested)
    modifies(ctx_for(order), "invested")
    modifies(ctx_for(order), "datetime_last_placed")
    modifies_list(ctx_for(order).trades)
    modifies_list(ctx_for(order).live_trades)
    ensures("refused_orders_are_not_filed", implies(not result, order.status == OrderStatus.VIOLATION and (order.id in self.market.blotter._orders) == old(order.id in self.market.blotter._orders)))
    ensures("accepted_order_is_filed_once", implies(result, order.id in self.market.blotter._orders and self.market.blotter._orders[order.id] == order
                                                    and len(self.market.blotter._orders) == old(len(self.market.blotter._orders)) + 1
                                                    and order.client == self._client and order.status == OrderStatus.PENDING))
    ensures("filed_by_bet_id", implies(result, order.bet_id in self.market.blotter._bet_id_lookup and self.market.blotter._bet_id_lookup[order.bet_id] == order))
    ensures("in_the_live_list", implies(result, self.market.blotter._live_orders[len(self.market.blotter._live_orders) - 1] == order
                                        and len(self.market.blotter._live_orders) == old(len(self.market.blotter._live_orders)) + 1))
    ensures("executed_placement_is_stamped", implies(result and execute, stamped(order)))
    ensures("executed_placement_is_charged", implies(result and execute, charged(order)), ground=False)
    ensures("executed_placement_is_queued", implies(result and execute, self._pending_orders and len(self._pending_place) == old(len(self._pending_place)) + 1
                                                    and self._pending_place[len(self._pending_place) - 1][0] == order))
    ensures("only_executed_placements_are_charged", implies(not (result and execute), accounting_of_runner_untouched(order)), ground=False)
