"""C10 - trade and runner accounting follows the real state of the orders.

flumine/strategy/runnercontext.py (RunnerContext.place / reset), flumine/order/trade.py (Trade.complete, _update_status,
complete_trade, __enter__, __exit__), flumine/order/order.py (BaseOrder._update_status, _is_complete),
flumine/strategy/strategy.py (get_runner_context, validate_order).

Vocabulary (DESIGN C10):  ctx = strategy._invested[(market_id, selection_id, handicap)]
  ctx.trades       duplicate-free list of the ids of the trades placed on the runner           (Inv10a)
  ctx.live_trades  duplicate-free list of the ids of the trades that still have a live order   (Inv10b)
  trade.status     PENDING only inside a `with trade:` block, COMPLETE <=> its last order completed (Inv10c)
datetimes are REAL seconds; "now" is the clock variable flumine.config.current_time (clock(...) of c04_simorder.py).
"""

schema("RunnerContext", selection_id=INT, invested=BOOL, datetime_last_placed=Opt(REAL), datetime_last_reset=Opt(REAL),
       trades=ListOf(ATOM), live_trades=ListOf(ATOM))
schema("BaseStrategy", _invested=MapOf(Tup(ATOM, INT, REAL), Ref("RunnerContext")), max_trade_count=INT, max_live_trade_count=INT,  # annotated int (the default 1e6 is an integral float)
       multi_order_trades=BOOL)

K_RUNNER = Tup(ATOM, INT, REAL)

inline(
    "flumine/strategy/runnercontext.py::RunnerContext.__init__",
    "flumine/strategy/runnercontext.py::RunnerContext.trade_count",
    "flumine/strategy/runnercontext.py::RunnerContext.live_trade_count",
    "flumine/strategy/runnercontext.py::RunnerContext.executable_orders",
    "flumine/strategy/runnercontext.py::RunnerContext.placed_elapsed_seconds",
    "flumine/strategy/runnercontext.py::RunnerContext.reset_elapsed_seconds",
)


def now():
    return clock_now()


def nodup(l):
    return forall_int(lambda i, j: implies(0 <= i and i < j and j < len(l), l[i] != l[j]))


def same_list(l):
    """the list object l has the contents it had in the pre-state"""
    return len(l) == old(len(l)) and forall(lambda j: l[j] == old(l[j]), 0, len(l))


def appended_one(l, x):
    return len(l) == old(len(l)) + 1 and l[len(l) - 1] == x and forall(lambda j: l[j] == old(l[j]), 0, len(l) - 1)


def added_once(l, x):
    """l = old l if x was already in it, else old l + [x]   (the accounting lists are kept duplicate free)"""
    return (same_list(l) if old(x in l) else appended_one(l, x))


def removed_first(l, x):
    """l = old l without the first occurrence of x (unchanged when x does not occur)"""
    return (removed_at(l, old(first_index(l, x))) if old(x in l) else same_list(l))


# ----------------------------------------------------------------------------- RunnerContext
@contract("flumine/strategy/runnercontext.py::RunnerContext.place", tags=["C10"])
def _(self, trade_id: ATOM):
    modifies(self, "invested")
    modifies(self, "datetime_last_placed")
    modifies_list(self.trades)
    modifies_list(self.live_trades)
    requires("separate_lists", self.trades is not self.live_trades)
    ensures("invested", self.invested)
    ensures("placement_time_stamped", self.datetime_last_placed == now())
    ensures("trade_counted_once", added_once(self.trades, trade_id))
    ensures("trade_live_once", added_once(self.live_trades, trade_id))
    ensures("counted", trade_id in self.trades and trade_id in self.live_trades)
    ensures("trades_stay_duplicate_free", implies(old(nodup(self.trades)), nodup(self.trades)))
    ensures("live_trades_stay_duplicate_free", implies(old(nodup(self.live_trades)), nodup(self.live_trades)))
    ensures("count_grows_only_for_a_new_trade", len(self.trades) == old(len(self.trades)) + (0 if old(trade_id in self.trades) else 1)
            and len(self.live_trades) == old(len(self.live_trades)) + (0 if old(trade_id in self.live_trades) else 1))


@contract("flumine/strategy/runnercontext.py::RunnerContext.reset", tags=["C10"], first_index=True)
def _(self, trade_id: ATOM):
    modifies(self, "datetime_last_reset")
    modifies_list(self.live_trades)
    ensures("reset_time_stamped", self.datetime_last_reset == now())
    ensures("slot_freed", removed_first(self.live_trades, trade_id))
    ensures("no_longer_live", implies(old(nodup(self.live_trades)), trade_id not in self.live_trades))
    ensures("survivors_keep_their_order", implies(old(trade_id in self.live_trades),
                                                  forall(lambda i: implies(old(self.live_trades[i]) != trade_id,
                                                                           self.live_trades[i if i < old(first_index(self.live_trades, trade_id)) else i - 1] == old(self.live_trades[i])),
                                                         0, old(len(self.live_trades)))), given=["slot_freed"])
    ensures("others_stay_live", forall_of(lambda t: implies(t != trade_id, (t in self.live_trades) == old(t in self.live_trades)), ATOM),
            given=["slot_freed", "survivors_keep_their_order"])
    ensures("live_trades_stay_duplicate_free", implies(old(nodup(self.live_trades)), nodup(self.live_trades)))
    ensures("live_count", len(self.live_trades) == old(len(self.live_trades)) - (1 if old(trade_id in self.live_trades) else 0))


# ----------------------------------------------------------------------------- BaseStrategy.get_runner_context
def ctx_untouched(c):
    return (c.datetime_last_reset == old(c.datetime_last_reset) and c.datetime_last_placed == old(c.datetime_last_placed) and c.invested == old(c.invested)
            and c.trades is old(c.trades) and c.live_trades is old(c.live_trades) and same_list(c.trades) and same_list(c.live_trades))


def new_context(c, selection_id):
    return (c.selection_id == selection_id and not c.invested and c.datetime_last_placed is None and c.datetime_last_reset is None
            and len(c.trades) == 0 and len(c.live_trades) == 0 and c.trades is not c.live_trades
            and fresh(c) and fresh(c.trades) and fresh(c.live_trades))


@contract("flumine/strategy/strategy.py::BaseStrategy.get_runner_context", tags=["C10", "C20"])
def _(self, market_id: ATOM, selection_id: INT, handicap: REAL) -> Ref("RunnerContext"):
    modifies_map(self._invested)
    ensures("registered", (market_id, selection_id, handicap) in self._invested and result == self._invested[(market_id, selection_id, handicap)])
    ensures("known_context_returned_as_is", implies(old((market_id, selection_id, handicap) in self._invested),
                                                    result == old(self._invested[(market_id, selection_id, handicap)]) and ctx_untouched(result)))
    ensures("unknown_runner_gets_a_new_context", implies(not old((market_id, selection_id, handicap) in self._invested), new_context(result, selection_id)))
    ensures("other_runners_untouched", forall_of(lambda k: implies(k != (market_id, selection_id, handicap),
                                                                   (k in self._invested) == old(k in self._invested) and self._invested[k] == old(self._invested[k])), K_RUNNER))


# ----------------------------------------------------------------------------- Trade
def all_orders_complete(t):
    return forall(lambda j: t.orders[j].complete, 0, len(t.orders))


def ready(t):
    """a live trade, not flagged as expecting further orders, whose orders are all complete"""
    return t.status == TradeStatus.LIVE and not t.pending_orders and all_orders_complete(t)


def completes_on(t, status):
    """setting the trade's status to `status` completes it (Trade._update_status then calls complete_trade)"""
    return status == TradeStatus.LIVE and not t.pending_orders and all_orders_complete(t)


def ctx_key(t):
    return (t.market_id, t.selection_id, t.handicap)


def ctx_of(t):
    return t.strategy._invested[ctx_key(t)]


def slot_freed(t):
    """effect of Trade.complete_trade on the runner accounting: the context exists, its reset time is now, the trade's id has
    left live_trades (a context created on the spot has nothing live)"""
    return (ctx_key(t) in t.strategy._invested and ctx_of(t).datetime_last_reset == clock_now()
            and (removed_first(ctx_of(t).live_trades, t.id) and ctx_of(t) == old(ctx_of(t)) and ctx_of(t).live_trades is old(ctx_of(t).live_trades)
                 if old(ctx_key(t) in t.strategy._invested) else len(ctx_of(t).live_trades) == 0 and fresh(ctx_of(t)) and fresh(ctx_of(t).live_trades)))


def accounting_untouched(t):
    """no runner context is added, replaced or changed (the object stored under the trade's key - whatever it is when the key
    is absent - keeps its reset time and its live list)"""
    return (forall_of(lambda k: (k in t.strategy._invested) == old(k in t.strategy._invested) and t.strategy._invested[k] == old(t.strategy._invested[k]), K_RUNNER)
            and ctx_of(t).datetime_last_reset == old(ctx_of(t).datetime_last_reset) and ctx_of(t).live_trades is old(ctx_of(t).live_trades)
            and same_list(ctx_of(t).live_trades))


def other_contexts_untouched(t):
    return forall_of(lambda k: implies(k != ctx_key(t), (k in t.strategy._invested) == old(k in t.strategy._invested)
                                       and t.strategy._invested[k] == old(t.strategy._invested[k])), K_RUNNER)


@contract("flumine/order/trade.py::Trade.complete", tags=["C10"])
def _(self) -> BOOL:
    invariant(0, "all_complete_so_far", forall(lambda j: self.orders[j].complete, 0, _i0))
    ensures("only_a_live_trade_whose_orders_are_all_complete", result == ready(self))


def log_is_private(t):
    """ownership: the status log of a trade is not one of the accounting lists of a runner context (each list is created by
    its owner's __init__ and the attribute is never re-assigned: writer scan in extra_c10.py)"""
    return forall_of(lambda c: c.live_trades is not t.status_log and c.trades is not t.status_log, Ref("RunnerContext"))


@contract("flumine/order/trade.py::Trade._update_status", tags=["C10"])
def _(self, status: ATOM):
    rep_invariant("own_lists", log_is_private(self))
    modifies(self, "status")
    modifies(self, "date_time_complete")
    modifies_list(self.status_log)
    modifies_map(self.strategy._invested)
    modifies(ctx_of(self), "datetime_last_reset")
    modifies_list(ctx_of(self).live_trades)
    ensures("status", self.status == (TradeStatus.COMPLETE if old(completes_on(self, status)) else status))
    ensures("completes_exactly_when_its_last_order_is_complete", implies(status != TradeStatus.COMPLETE, (self.status == TradeStatus.COMPLETE) == old(completes_on(self, status))))
    ensures("log", len(self.status_log) == old(len(self.status_log)) + (2 if old(completes_on(self, status)) else 1)
            and self.status_log[old(len(self.status_log))] == status
            and implies(old(completes_on(self, status)), self.status_log[old(len(self.status_log)) + 1] == TradeStatus.COMPLETE)
            and forall(lambda j: self.status_log[j] == old(self.status_log[j]), 0, old(len(self.status_log))))
    ensures("completion_frees_the_slot", implies(old(completes_on(self, status)), slot_freed(self) and self.date_time_complete == clock_now()))
    ensures("completion_touches_one_context", implies(old(completes_on(self, status)), other_contexts_untouched(self)))
    ensures("no_completion_no_accounting_change", implies(not old(completes_on(self, status)),
                                                          accounting_untouched(self) and self.date_time_complete == old(self.date_time_complete)))


@contract("flumine/order/trade.py::Trade.complete_trade", tags=["C10"])
def _(self):
    rep_invariant("own_lists", log_is_private(self))
    requires("completed_once", self.status != TradeStatus.COMPLETE)  # Inv10d: a trade is completed at most once
    modifies(self, "status")
    modifies(self, "date_time_complete")
    modifies_list(self.status_log)
    modifies_map(self.strategy._invested)
    modifies(ctx_of(self), "datetime_last_reset")
    modifies_list(ctx_of(self).live_trades)
    ensures("complete", self.status == TradeStatus.COMPLETE and self.date_time_complete == clock_now())
    ensures("log", appended_one(self.status_log, TradeStatus.COMPLETE))
    ensures("reset_time_stamped", ctx_key(self) in self.strategy._invested and ctx_of(self).datetime_last_reset == clock_now(), ground=True)
    ensures("slot_freed", slot_freed(self))
    ensures("one_context", other_contexts_untouched(self))


@contract("flumine/order/trade.py::Trade.__enter__", tags=["C10"])
def _(self):
    rep_invariant("own_lists", log_is_private(self))
    modifies(self, "status")
    modifies(self, "date_time_complete")
    modifies_list(self.status_log)
    modifies_map(self.strategy._invested)
    modifies(ctx_of(self), "datetime_last_reset")
    modifies_list(ctx_of(self).live_trades)
    ensures("pending_while_a_response_is_applied", self.status == TradeStatus.PENDING)
    ensures("never_completes_here", accounting_untouched(self) and self.date_time_complete == old(self.date_time_complete))
    ensures("log", appended_one(self.status_log, TradeStatus.PENDING))


@contract("flumine/order/trade.py::Trade.__exit__", tags=["C10"])
def _(self, exc_type: Opt(ATOM), exc_val: Opt(ATOM), exc_tb: Opt(ATOM)):
    rep_invariant("own_lists", log_is_private(self))
    modifies(self, "status")
    modifies(self, "date_time_complete")
    modifies_list(self.status_log)
    modifies_map(self.strategy._invested)
    modifies(ctx_of(self), "datetime_last_reset")
    modifies_list(ctx_of(self).live_trades)
    ensures("live_again_or_complete", implies(exc_tb is None, self.status == (TradeStatus.COMPLETE if old(completes_on(self, TradeStatus.LIVE)) else TradeStatus.LIVE)))
    ensures("deferred_completion_frees_the_slot", implies(exc_tb is None and old(completes_on(self, TradeStatus.LIVE)), slot_freed(self) and other_contexts_untouched(self)))
    ensures("otherwise_no_accounting_change", implies(not (exc_tb is None and old(completes_on(self, TradeStatus.LIVE))), accounting_untouched(self)))
    ensures("error_leaves_status", implies(exc_tb is not None, self.status == old(self.status) and len(self.status_log) == old(len(self.status_log))))


# ----------------------------------------------------------------------------- BaseOrder._update_status
inline("flumine/order/order.py::BaseOrder._is_complete")


def is_complete_status(s):
    """COMPLETE_STATUS of the order lifecycle (DESIGN section 4), written independently of the module constant"""
    return s == OrderStatus.EXECUTION_COMPLETE or s == OrderStatus.EXPIRED or s == OrderStatus.VIOLATION


def order_log_is_private(o):
    return (forall_of(lambda c: c.live_trades is not o.status_log and c.trades is not o.status_log, Ref("RunnerContext"))
            and forall_of(lambda t: t.status_log is not o.status_log, Ref("Trade")))


def trade_completed(o):
    return o.trade.status == TradeStatus.COMPLETE and old(o.trade.status) != TradeStatus.COMPLETE


@contract("flumine/order/order.py::BaseOrder._update_status", tags=["C10"])
def _(self, status: ATOM):
    rep_invariant("own_lists", order_log_is_private(self))
    rep_invariant("trade_own_lists", log_is_private(self.trade))
    modifies(self, "status")
    modifies(self, "complete")
    modifies(self, "date_time_status_update")
    modifies_list(self.status_log)
    modifies(self.trade, "status")
    modifies(self.trade, "date_time_complete")
    modifies_list(self.trade.status_log)
    modifies_map(self.trade.strategy._invested)
    modifies(ctx_of(self.trade), "datetime_last_reset")
    modifies_list(ctx_of(self.trade).live_trades)
    ensures("status", self.status == status and self.complete == is_complete_status(status) and self.date_time_status_update == clock_now())
    ensures("log", appended_one(self.status_log, status))
    # the property: "a trade completes - freeing its slot - exactly when its last order completes, never while one of its
    # orders is still live" (for orders that were placed: an order refused at placement has no previous status)
    ensures("trade_completes_exactly_with_its_last_order",
            implies(old(self.status) is not None,
                    trade_completed(self) == (is_complete_status(status) and old(self.trade.status) == TradeStatus.LIVE and not self.trade.pending_orders
                                              and all_orders_complete(self.trade))))
    ensures("only_a_completing_order_completes_its_trade", implies(trade_completed(self), is_complete_status(status) and status != OrderStatus.VIOLATION))
    ensures("never_while_an_order_is_live", implies(trade_completed(self), all_orders_complete(self.trade) and old(self.trade.status) == TradeStatus.LIVE))
    ensures("completion_frees_the_slot", implies(trade_completed(self), slot_freed(self.trade) and other_contexts_untouched(self.trade)
                                                 and self.trade.date_time_complete == clock_now()))
    ensures("no_completion_no_accounting_change", implies(not trade_completed(self), accounting_untouched(self.trade) and self.trade.status == old(self.trade.status)
                                                          and self.trade.date_time_complete == old(self.trade.date_time_complete) and same_list(self.trade.status_log)))


# ----------------------------------------------------------------------------- BaseStrategy.validate_order
def elapsed_ok(stamp, wait):
    """cool-down: no previous event, or at least `wait` seconds since it"""
    return stamp is None or clock_now() - stamp >= wait


def counted_with(l, tid):
    """size of the accounting list once the order's trade is counted"""
    return len(l) + (0 if tid in l else 1)


def placement_allowed(strategy, ctx, order):
    return (elapsed_ok(ctx.datetime_last_reset, order.trade.reset_seconds) and elapsed_ok(ctx.datetime_last_placed, order.trade.place_reset_seconds)
            and counted_with(ctx.trades, order.trade.id) <= strategy.max_trade_count
            and counted_with(ctx.live_trades, order.trade.id) <= strategy.max_live_trade_count)


@contract("flumine/strategy/strategy.py::BaseStrategy.validate_order", tags=["C10"])
def _(self, runner_context: Ref("RunnerContext"), order: Ref("BaseOrder")) -> BOOL:
    # datetimes are seconds since the epoch (positive), the clock does not run backwards (A1 / C07)
    requires("stamps_after_epoch", implies(runner_context.datetime_last_reset is not None, runner_context.datetime_last_reset > 0)
             and implies(runner_context.datetime_last_placed is not None, runner_context.datetime_last_placed > 0))
    requires("clock_monotone", implies(runner_context.datetime_last_reset is not None, clock_now() >= runner_context.datetime_last_reset)
             and implies(runner_context.datetime_last_placed is not None, clock_now() >= runner_context.datetime_last_placed))
    modifies(order, "violation_msg")
    ensures("accepted_only_within_limits_and_cool_downs",
            implies(result, (self.multi_order_trades and order.trade.id in runner_context.live_trades) or placement_allowed(self, runner_context, order)))
    ensures("never_locked_out_when_allowed",
            implies((self.multi_order_trades and order.trade.id in runner_context.live_trades) or placement_allowed(self, runner_context, order), result))
