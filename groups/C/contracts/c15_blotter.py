"""C15 - Blotter views are coherent with the orders placed (flumine/markets/blotter.py).

Representation invariant InvB(blotter) (DESIGN C15), split into separately named parts so that every VC stays small:
  ids            _orders[k].id == k                                             (the key IS the order's id)
  <view>_sound   every element o of view[key] has key == key_of(o) and is filed in _orders under its id
  <view>_nodup   no order twice in one view list
  <view>_full    every order of _orders is in view[key_of(o)]
for the views  _strategy_orders / _strategy_selection_orders / _client_orders / _client_strategy_orders / _trades,
  live_sound / live_nodup    the live list is a duplicate-free list of orders of the blotter
  trade_lookup / bet_lookup  the two id -> object maps point to trades / orders of the blotter
  sep_*                      the view lists are pairwise distinct list objects
"Exactly once in each view" = sound + nodup + full: an order can only sit under its own key (sound), at most once there
(nodup) and at least once (full).

Methodology: InvB is a CLASS invariant (clause `rep_invariant`): assumed when a Blotter method is entered, proved when it
returns, not visible at call sites.  It holds whenever control is outside Blotter's methods because (a) Blotter.__init__
establishes it, (b) every method below preserves it, (c) only blotter.py writes the private fields (writer scan in
extra_c15.py), (d) the order / trade attributes it reads (id, trade, selection_id, handicap, client, trade.strategy,
trade.id) are written only by the writers listed in extra_c15.py.
"""

K_STRATEGY = Ref("BaseStrategy")
K_SELECTION = Tup(Ref("BaseStrategy"), INT, REAL)
K_CLIENT = Opt(Ref("BaseClient"))
K_CLIENT_STRATEGY = Tup(Opt(Ref("BaseClient")), Ref("BaseStrategy"))
K_TRADE = Ref("Trade")
K_BET = Opt(ATOM)


# ----------------------------------------------------------------------------- keys of the views
def k_strategy(o):
    return o.trade.strategy


def k_selection(o):
    return (o.trade.strategy, o.selection_id, o.handicap)


def k_client(o):
    return o.client


def k_client_strategy(o):
    return (o.client, o.trade.strategy)


def k_trade(o):
    return o.trade


def known(b, o):
    """o is an order of the blotter (filed under its own id)"""
    return o.id in b._orders and b._orders[o.id] == o


# ----------------------------------------------------------------------------- invariant parts (generic in the view)
def inv_ids(b):
    return forall_of(lambda k: implies(k in b._orders, b._orders[k].id == k), ATOM)


def view_sound(b, d, keyf, KS):
    return forall_of(lambda s, j: implies(s in d and 0 <= j and j < len(d[s]), keyf(d[s][j]) == s and known(b, d[s][j])), KS, INT)


def view_nodup(d, KS):
    return forall_of(lambda s, i, j: implies(s in d and 0 <= i and i < j and j < len(d[s]), d[s][i] != d[s][j]), KS, INT, INT)


def view_full(b, d, keyf):
    return forall_of(lambda k: implies(k in b._orders, keyf(b._orders[k]) in d and b._orders[k] in d[keyf(b._orders[k])]), ATOM)


def live_sound(b):
    return forall(lambda j: known(b, b._live_orders[j]), 0, len(b._live_orders))


def live_nodup(b):
    return forall_int(lambda i, j: implies(0 <= i and i < j and j < len(b._live_orders), b._live_orders[i] != b._live_orders[j]))


def live_full(b):
    """the live list contains every order that is not complete (NOT a class invariant: `complete` is written by the order
    lifecycle; it is preserved by the Blotter's own methods and by every status change that never makes a complete order
    live again - C03 finality)"""
    return forall_of(lambda k: implies(k in b._orders and not b._orders[k].complete, b._orders[k] in b._live_orders), ATOM)


def trade_lookup_ok(b):
    return forall_of(lambda k: implies(k in b._orders, b._orders[k].trade.id in b._trade_lookup
                                       and b._trade_lookup[b._orders[k].trade.id] == b._orders[k].trade), ATOM)


def bet_lookup_sound(b):
    return forall_of(lambda bid: implies(bid in b._bet_id_lookup, known(b, b._bet_id_lookup[bid])), K_BET)


def trade_ids_injective():
    """DOMAIN ASSUMPTION (A7, uuid4): two different Trade objects never carry the same id"""
    return forall_of(lambda t, u: implies(t.id == u.id, t == u), K_TRADE, K_TRADE)


# ----------------------------------------------------------------------------- separation: the view lists are distinct objects
# (each is created by Blotter.__init__ or by a defaultdict(list) miss, and never stored anywhere else)
def sep_one(d, KS, l):
    return forall_of(lambda k: implies(k in d, d[k] is not l), KS)


def sep_inj(d, KS):
    return forall_of(lambda k, m: implies(k in d and m in d and k != m, d[k] is not d[m]), KS, KS)


def sep_two(d1, KS1, d2, KS2):
    return forall_of(lambda k, m: implies(k in d1 and m in d2, d1[k] is not d2[m]), KS1, KS2)


def sep_live(b):
    return (sep_one(b._trades, K_TRADE, b._live_orders) and sep_one(b._strategy_orders, K_STRATEGY, b._live_orders)
            and sep_one(b._strategy_selection_orders, K_SELECTION, b._live_orders) and sep_one(b._client_orders, K_CLIENT, b._live_orders)
            and sep_one(b._client_strategy_orders, K_CLIENT_STRATEGY, b._live_orders))


def sep_same(b):
    return (sep_inj(b._trades, K_TRADE) and sep_inj(b._strategy_orders, K_STRATEGY) and sep_inj(b._strategy_selection_orders, K_SELECTION)
            and sep_inj(b._client_orders, K_CLIENT) and sep_inj(b._client_strategy_orders, K_CLIENT_STRATEGY))


def sep_trades(b):
    return (sep_two(b._trades, K_TRADE, b._strategy_orders, K_STRATEGY) and sep_two(b._trades, K_TRADE, b._strategy_selection_orders, K_SELECTION)
            and sep_two(b._trades, K_TRADE, b._client_orders, K_CLIENT) and sep_two(b._trades, K_TRADE, b._client_strategy_orders, K_CLIENT_STRATEGY))


def sep_strategy(b):
    return (sep_two(b._strategy_orders, K_STRATEGY, b._strategy_selection_orders, K_SELECTION)
            and sep_two(b._strategy_orders, K_STRATEGY, b._client_orders, K_CLIENT)
            and sep_two(b._strategy_orders, K_STRATEGY, b._client_strategy_orders, K_CLIENT_STRATEGY))


def sep_rest(b):
    return (sep_two(b._strategy_selection_orders, K_SELECTION, b._client_orders, K_CLIENT)
            and sep_two(b._strategy_selection_orders, K_SELECTION, b._client_strategy_orders, K_CLIENT_STRATEGY)
            and sep_two(b._client_orders, K_CLIENT, b._client_strategy_orders, K_CLIENT_STRATEGY))


# ----------------------------------------------------------------------------- effect of one insertion on one view
def appended(d, key, order):
    """post-state list of `key` = pre-state list (empty when the key was new) + [order]"""
    return (key in d
            and len(d[key]) == (old(len(d[key])) if old(key in d) else 0) + 1
            and d[key][len(d[key]) - 1] == order
            and forall(lambda j: d[key][j] == old(d[key][j]), 0, len(d[key]) - 1))


def last_is(d, key, order):
    """ground summary of `appended` for call sites: the key is registered and its list now ends with the order (one longer)"""
    return (key in d and len(d[key]) == (old(len(d[key])) if old(key in d) else 0) + 1 and d[key][len(d[key]) - 1] == order
            and (d[key] is old(d[key]) if old(key in d) else fresh(d[key])))


def others_untouched(d, key, KS):
    return forall_of(lambda k: implies(k != key, (k in d) == old(k in d) and d[k] is old(d[k])), KS)


def view_grows(d, KS):
    """proof step: every pre-state entry of the view is still there, at the same place of the same list"""
    return forall_of(lambda s, j: implies(old(s in d) and 0 <= j and j < old(len(d[s])),
                                          s in d and d[s] is old(d[s]) and j < len(d[s]) and d[s][j] == old(d[s][j])), KS, INT)


def view_full_new(d, key, order):
    return key in d and order in d[key]


def view_full_old(b, d, keyf):
    return forall_of(lambda k: implies(old(k in b._orders), keyf(old(b._orders[k])) in d and old(b._orders[k]) in d[keyf(old(b._orders[k]))]), ATOM)


def differ(p1, l1, p2, l2):
    return implies(p1 and p2, l1 is not l2)


def lists_of_insertion_distinct(b, o):
    """ground instance of sep_*: the (up to) six lists that one insertion of `o` appends to are pairwise different objects"""
    return (differ(True, b._live_orders, k_trade(o) in b._trades, b._trades[k_trade(o)])
            and differ(True, b._live_orders, k_strategy(o) in b._strategy_orders, b._strategy_orders[k_strategy(o)])
            and differ(True, b._live_orders, k_selection(o) in b._strategy_selection_orders, b._strategy_selection_orders[k_selection(o)])
            and differ(True, b._live_orders, k_client(o) in b._client_orders, b._client_orders[k_client(o)])
            and differ(True, b._live_orders, k_client_strategy(o) in b._client_strategy_orders, b._client_strategy_orders[k_client_strategy(o)])
            and differ(k_trade(o) in b._trades, b._trades[k_trade(o)], k_strategy(o) in b._strategy_orders, b._strategy_orders[k_strategy(o)])
            and differ(k_trade(o) in b._trades, b._trades[k_trade(o)], k_selection(o) in b._strategy_selection_orders, b._strategy_selection_orders[k_selection(o)])
            and differ(k_trade(o) in b._trades, b._trades[k_trade(o)], k_client(o) in b._client_orders, b._client_orders[k_client(o)])
            and differ(k_trade(o) in b._trades, b._trades[k_trade(o)], k_client_strategy(o) in b._client_strategy_orders, b._client_strategy_orders[k_client_strategy(o)])
            and differ(k_strategy(o) in b._strategy_orders, b._strategy_orders[k_strategy(o)], k_selection(o) in b._strategy_selection_orders, b._strategy_selection_orders[k_selection(o)])
            and differ(k_strategy(o) in b._strategy_orders, b._strategy_orders[k_strategy(o)], k_client(o) in b._client_orders, b._client_orders[k_client(o)])
            and differ(k_strategy(o) in b._strategy_orders, b._strategy_orders[k_strategy(o)], k_client_strategy(o) in b._client_strategy_orders, b._client_strategy_orders[k_client_strategy(o)])
            and differ(k_selection(o) in b._strategy_selection_orders, b._strategy_selection_orders[k_selection(o)], k_client(o) in b._client_orders, b._client_orders[k_client(o)])
            and differ(k_selection(o) in b._strategy_selection_orders, b._strategy_selection_orders[k_selection(o)],
                       k_client_strategy(o) in b._client_strategy_orders, b._client_strategy_orders[k_client_strategy(o)])
            and differ(k_client(o) in b._client_orders, b._client_orders[k_client(o)], k_client_strategy(o) in b._client_strategy_orders, b._client_strategy_orders[k_client_strategy(o)]))


# ----------------------------------------------------------------------------- __init__
@contract("flumine/markets/blotter.py::Blotter.__init__", tags=["C15"], heap_axioms=True)
def _(self, market_id: ATOM):
    modifies(self, "market_id")
    modifies(self, "active")
    modifies(self, "_orders")
    modifies(self, "_trades")
    modifies(self, "_bet_id_lookup")
    modifies(self, "_trade_lookup")
    modifies(self, "_live_orders")
    modifies(self, "_strategy_orders")
    modifies(self, "_strategy_selection_orders")
    modifies(self, "_client_orders")
    modifies(self, "_client_strategy_orders")
    ensures("empty", len(self._orders) == 0 and len(self._live_orders) == 0 and not self.active and self.market_id == market_id)
    ensures("no_order", forall_of(lambda k: k not in self._orders, ATOM))
    ensures("inv_ids", inv_ids(self))
    ensures("sep_live", sep_live(self))
    ensures("sep_same", sep_same(self))
    ensures("sep_trades", sep_trades(self))
    ensures("sep_strategy", sep_strategy(self))
    ensures("sep_rest", sep_rest(self))
    ensures("strategy_sound", view_sound(self, self._strategy_orders, k_strategy, K_STRATEGY))
    ensures("strategy_nodup", view_nodup(self._strategy_orders, K_STRATEGY))
    ensures("strategy_full", view_full(self, self._strategy_orders, k_strategy))
    ensures("selection_sound", view_sound(self, self._strategy_selection_orders, k_selection, K_SELECTION))
    ensures("selection_nodup", view_nodup(self._strategy_selection_orders, K_SELECTION))
    ensures("selection_full", view_full(self, self._strategy_selection_orders, k_selection))
    ensures("client_sound", view_sound(self, self._client_orders, k_client, K_CLIENT))
    ensures("client_nodup", view_nodup(self._client_orders, K_CLIENT))
    ensures("client_full", view_full(self, self._client_orders, k_client))
    ensures("client_strategy_sound", view_sound(self, self._client_strategy_orders, k_client_strategy, K_CLIENT_STRATEGY))
    ensures("client_strategy_nodup", view_nodup(self._client_strategy_orders, K_CLIENT_STRATEGY))
    ensures("client_strategy_full", view_full(self, self._client_strategy_orders, k_client_strategy))
    ensures("trades_sound", view_sound(self, self._trades, k_trade, K_TRADE))
    ensures("trades_nodup", view_nodup(self._trades, K_TRADE))
    ensures("trades_full", view_full(self, self._trades, k_trade))
    ensures("live_sound", live_sound(self))
    ensures("live_nodup", live_nodup(self))
    ensures("live_full", live_full(self))
    ensures("trade_lookup", trade_lookup_ok(self))
    ensures("bet_lookup", bet_lookup_sound(self))


# ----------------------------------------------------------------------------- __setitem__
@contract("flumine/markets/blotter.py::Blotter.__setitem__", tags=["C15", "C16"], join_maps=True, heap_axioms=True)
def _(self, customer_order_ref: ATOM, order: Ref("BaseOrder")):
    requires("new_id", customer_order_ref not in self._orders)
    requires("key_is_order_id", customer_order_ref == order.id)
    requires("new_bet_id", order.bet_id is None or order.bet_id not in self._bet_id_lookup)
    rep_invariant("domain:trade_ids_injective", trade_ids_injective())
    rep_invariant("sep_live", sep_live(self))
    rep_invariant("sep_same", sep_same(self))
    rep_invariant("sep_trades", sep_trades(self))
    rep_invariant("sep_strategy", sep_strategy(self))
    rep_invariant("sep_rest", sep_rest(self))
    modifies(self, "active")
    modifies_map(self._orders)
    modifies_map(self._bet_id_lookup)
    modifies_map(self._trade_lookup)
    modifies_map(self._trades)
    modifies_map(self._strategy_orders)
    modifies_map(self._strategy_selection_orders)
    modifies_map(self._client_orders)
    modifies_map(self._client_strategy_orders)
    modifies_list(self._live_orders)
    modifies_list(self._trades[k_trade(order)])
    modifies_list(self._strategy_orders[k_strategy(order)])
    modifies_list(self._strategy_selection_orders[k_selection(order)])
    modifies_list(self._client_orders[k_client(order)])
    modifies_list(self._client_strategy_orders[k_client_strategy(order)])
    # ---- what one insertion does (from the property: the order appears once in the blotter and once in each view)
    # the functional clauses are proved from the quantifier-free facts of the path plus one ground instance of the
    # separation invariant (ground=True): their VCs are decided either way, so a broken insertion is reported as a failure
    ensures("lists_distinct", old(lists_of_insertion_distinct(self, order)), export=False)
    ensures("active", self.active, ground=True)
    ensures("live_last", len(self._live_orders) == old(len(self._live_orders)) + 1 and self._live_orders[len(self._live_orders) - 1] == order, ground=True, given=["lists_distinct"])
    ensures("views_last", last_is(self._strategy_orders, k_strategy(order), order) and last_is(self._strategy_selection_orders, k_selection(order), order)
            and last_is(self._client_orders, k_client(order), order) and last_is(self._client_strategy_orders, k_client_strategy(order), order)
            and last_is(self._trades, k_trade(order), order), ground=True, given=["lists_distinct"])
    ensures("filed_under_its_id", customer_order_ref in self._orders and self._orders[customer_order_ref] == order, ground=True)
    ensures("other_ids_untouched", forall_of(lambda k: implies(k != customer_order_ref, (k in self._orders) == old(k in self._orders)
                                                               and self._orders[k] == old(self._orders[k])), ATOM), ground=True, given=["lists_distinct"], export=False)
    ensures("one_more_order", len(self._orders) == old(len(self._orders)) + 1)
    ensures("by_bet_id", order.bet_id in self._bet_id_lookup and self._bet_id_lookup[order.bet_id] == order, ground=True, given=["lists_distinct"])
    ensures("other_bet_ids_untouched", forall_of(lambda k: implies(k != order.bet_id, (k in self._bet_id_lookup) == old(k in self._bet_id_lookup)
                                                                   and self._bet_id_lookup[k] == old(self._bet_id_lookup[k])), K_BET), ground=True, given=["lists_distinct"], export=False)
    ensures("by_trade_id", order.trade.id in self._trade_lookup and self._trade_lookup[order.trade.id] == order.trade, ground=True, given=["lists_distinct"])
    ensures("live_appended", len(self._live_orders) == old(len(self._live_orders)) + 1 and self._live_orders[len(self._live_orders) - 1] == order
            and forall(lambda j: self._live_orders[j] == old(self._live_orders[j]), 0, len(self._live_orders) - 1), ground=True, given=["lists_distinct"], export=False)
    ensures("strategy_appended", appended(self._strategy_orders, k_strategy(order), order), ground=True, given=["lists_distinct"], export=False)
    ensures("strategy_others", others_untouched(self._strategy_orders, k_strategy(order), K_STRATEGY), ground=True, given=["lists_distinct"], export=False)
    ensures("selection_appended", appended(self._strategy_selection_orders, k_selection(order), order), ground=True, given=["lists_distinct"], export=False)
    ensures("selection_others", others_untouched(self._strategy_selection_orders, k_selection(order), K_SELECTION), ground=True, given=["lists_distinct"], export=False)
    ensures("client_appended", appended(self._client_orders, k_client(order), order), ground=True, given=["lists_distinct"], export=False)
    ensures("client_others", others_untouched(self._client_orders, k_client(order), K_CLIENT), ground=True, given=["lists_distinct"], export=False)
    ensures("client_strategy_appended", appended(self._client_strategy_orders, k_client_strategy(order), order), ground=True, given=["lists_distinct"], export=False)
    ensures("client_strategy_others", others_untouched(self._client_strategy_orders, k_client_strategy(order), K_CLIENT_STRATEGY), ground=True, given=["lists_distinct"], export=False)
    ensures("trades_appended", appended(self._trades, k_trade(order), order), ground=True, given=["lists_distinct"], export=False)
    ensures("trades_others", others_untouched(self._trades, k_trade(order), K_TRADE), ground=True, given=["lists_distinct"], export=False)
    # ---- proof steps (cuts) for the `full` parts
    ensures("strategy_grows", view_grows(self._strategy_orders, K_STRATEGY), export=False)
    ensures("strategy_full_new", view_full_new(self._strategy_orders, k_strategy(order), order), ground=True, given=["views_last"], export=False)
    ensures("strategy_full_old", view_full_old(self, self._strategy_orders, k_strategy), given=["strategy_grows"], export=False)
    ensures("selection_grows", view_grows(self._strategy_selection_orders, K_SELECTION), export=False)
    ensures("selection_full_new", view_full_new(self._strategy_selection_orders, k_selection(order), order), ground=True, given=["views_last"], export=False)
    ensures("selection_full_old", view_full_old(self, self._strategy_selection_orders, k_selection), given=["selection_grows"], export=False)
    ensures("client_grows", view_grows(self._client_orders, K_CLIENT), export=False)
    ensures("client_full_new", view_full_new(self._client_orders, k_client(order), order), ground=True, given=["views_last"], export=False)
    ensures("client_full_old", view_full_old(self, self._client_orders, k_client), given=["client_grows"], export=False)
    ensures("client_strategy_grows", view_grows(self._client_strategy_orders, K_CLIENT_STRATEGY), export=False)
    ensures("client_strategy_full_new", view_full_new(self._client_strategy_orders, k_client_strategy(order), order), ground=True, given=["views_last"], export=False)
    ensures("client_strategy_full_old", view_full_old(self, self._client_strategy_orders, k_client_strategy), given=["client_strategy_grows"], export=False)
    ensures("trades_grows", view_grows(self._trades, K_TRADE), export=False)
    ensures("trades_full_new", view_full_new(self._trades, k_trade(order), order), ground=True, given=["views_last"], export=False)
    ensures("trades_full_old", view_full_old(self, self._trades, k_trade), given=["trades_grows"], export=False)
    ensures("live_holds_new", order in self._live_orders, given=["live_appended"], export=False)
    ensures("live_grows", forall(lambda j: self._live_orders[j] == old(self._live_orders[j]), 0, old(len(self._live_orders))) and len(self._live_orders) >= old(len(self._live_orders)), export=False)
    # ---- the class invariant
    rep_invariant("inv_ids", inv_ids(self))
    rep_invariant("strategy_sound", view_sound(self, self._strategy_orders, k_strategy, K_STRATEGY))
    rep_invariant("strategy_nodup", view_nodup(self._strategy_orders, K_STRATEGY))
    rep_invariant("strategy_full", view_full(self, self._strategy_orders, k_strategy),
                  given=["strategy_full_new", "strategy_full_old", "other_ids_untouched", "filed_under_its_id"])
    rep_invariant("selection_sound", view_sound(self, self._strategy_selection_orders, k_selection, K_SELECTION))
    rep_invariant("selection_nodup", view_nodup(self._strategy_selection_orders, K_SELECTION))
    rep_invariant("selection_full", view_full(self, self._strategy_selection_orders, k_selection),
                  given=["selection_full_new", "selection_full_old", "other_ids_untouched", "filed_under_its_id"])
    rep_invariant("client_sound", view_sound(self, self._client_orders, k_client, K_CLIENT))
    rep_invariant("client_nodup", view_nodup(self._client_orders, K_CLIENT))
    rep_invariant("client_full", view_full(self, self._client_orders, k_client),
                  given=["client_full_new", "client_full_old", "other_ids_untouched", "filed_under_its_id"])
    rep_invariant("client_strategy_sound", view_sound(self, self._client_strategy_orders, k_client_strategy, K_CLIENT_STRATEGY))
    rep_invariant("client_strategy_nodup", view_nodup(self._client_strategy_orders, K_CLIENT_STRATEGY))
    rep_invariant("client_strategy_full", view_full(self, self._client_strategy_orders, k_client_strategy),
                  given=["client_strategy_full_new", "client_strategy_full_old", "other_ids_untouched", "filed_under_its_id"])
    rep_invariant("trades_sound", view_sound(self, self._trades, k_trade, K_TRADE))
    rep_invariant("trades_nodup", view_nodup(self._trades, K_TRADE))
    rep_invariant("trades_full", view_full(self, self._trades, k_trade),
                  given=["trades_full_new", "trades_full_old", "other_ids_untouched", "filed_under_its_id"])
    rep_invariant("live_sound", live_sound(self))
    rep_invariant("live_nodup", live_nodup(self))
    rep_invariant("trade_lookup", trade_lookup_ok(self))
    rep_invariant("bet_lookup", bet_lookup_sound(self))
    ensures("live_full_preserved", implies(old(live_full(self)), live_full(self)), given=["live_holds_new", "live_grows", "other_ids_untouched", "filed_under_its_id"], export=False)


# ----------------------------------------------------------------------------- complete_order
def removed_at(l, r):
    """post-state list l = pre-state list without its element at position r"""
    return (len(l) == old(len(l)) - 1
            and forall(lambda j: l[j] == (old(l[j]) if j < r else old(l[j + 1])), 0, len(l)))


@contract("flumine/markets/blotter.py::Blotter.complete_order", tags=["C15", "C16"], heap_axioms=True, first_index=True)
def _(self, order: Ref("BaseOrder")):
    requires("in_live_list", order in self._live_orders)
    requires("observed_complete", order.complete)  # "loses an order only after it has been observed complete"
    rep_invariant("live_sound", live_sound(self))
    rep_invariant("live_nodup", live_nodup(self))
    modifies_list(self._live_orders)
    ensures("first_occurrence_removed", removed_at(self._live_orders, old(first_index(self._live_orders, order))), ground=True)
    ensures("position", 0 <= old(first_index(self._live_orders, order)) and old(first_index(self._live_orders, order)) < old(len(self._live_orders))
            and old(self._live_orders[first_index(self._live_orders, order)]) == order)
    ensures("removed", order not in self._live_orders, given=["first_occurrence_removed", "position"])
    ensures("survivors_keep_their_order", forall(lambda i: implies(old(self._live_orders[i]) != order,
                                                                   self._live_orders[i if i < old(first_index(self._live_orders, order)) else i - 1] == old(self._live_orders[i])),
                                                 0, old(len(self._live_orders))), given=["first_occurrence_removed", "position"])
    ensures("others_stay", forall_of(lambda o: implies(o != order, (o in self._live_orders) == old(o in self._live_orders)), Ref("BaseOrder")),
            given=["first_occurrence_removed", "position", "survivors_keep_their_order"])
    ensures("others_stay_by_id", forall_of(lambda k: implies(k in self._orders and self._orders[k] != order,
                                                             (self._orders[k] in self._live_orders) == old(self._orders[k] in self._live_orders)), ATOM),
            given=["others_stay"])
    ensures("live_full_preserved", implies(old(live_full(self)), live_full(self)), given=["others_stay_by_id"])


# ----------------------------------------------------------------------------- lookups
@contract("flumine/markets/blotter.py::Blotter.has_order", tags=["C15"], ground=True)
def _(self, customer_order_ref: ATOM) -> BOOL:
    ensures("is_membership", result == (customer_order_ref in self._orders))


@contract("flumine/markets/blotter.py::Blotter.has_trade", tags=["C15"], ground=True)
def _(self, trade: Ref("Trade")) -> BOOL:
    ensures("is_membership", result == (trade in self._trades))


@contract("flumine/markets/blotter.py::Blotter.__getitem__", tags=["C15"], ground=True)
def _(self, customer_order_ref: ATOM) -> Ref("BaseOrder"):
    raises(KeyError, when=customer_order_ref not in self._orders, iff=True, label="unknown_id")
    rep_invariant("inv_ids", inv_ids(self))
    ensures("the_very_object", result == self._orders[customer_order_ref])
    ensures("has_that_id", result.id == customer_order_ref, ground=False)


@contract("flumine/markets/blotter.py::Blotter.get_order_bet_id", tags=["C15"], ground=True)
def _(self, bet_id: Opt(ATOM)) -> Opt(Ref("BaseOrder")):
    rep_invariant("bet_lookup", bet_lookup_sound(self))
    ensures("the_very_object", result == (self._bet_id_lookup[bet_id] if bet_id in self._bet_id_lookup else None))
    ensures("an_order_of_this_blotter", implies(result is not None, known(self, result)), ground=False)


@contract("flumine/markets/blotter.py::Blotter.get_trade", tags=["C15"], ground=True)
def _(self, trade_id: ATOM) -> Opt(Ref("Trade")):
    ensures("the_very_object", result == (self._trade_lookup[trade_id] if trade_id in self._trade_lookup else None))


@contract("flumine/markets/blotter.py::Blotter.__len__", tags=["C15"], ground=True)
def _(self) -> INT:
    ensures("number_of_orders", result == len(self._orders))


@contract("flumine/markets/blotter.py::Blotter.has_live_orders", tags=["C15"], ground=True)
def _(self) -> BOOL:
    ensures("live_list_nonempty", result == (len(self._live_orders) > 0))


# ----------------------------------------------------------------------------- view accessors with filters
# "Filters on status and matched-only return precisely the orders satisfying them": the result holds only orders that pass
# (only_matching), all of them (all_matching), nothing from elsewhere (drawn_from_view), without repetition and in view order.
def status_filter(order_status):
    return order_status is not None and len(order_status) > 0


def matched_filter(matched_only):
    return matched_only is not None and matched_only == True


def passes(o, order_status, matched_only):
    return implies(status_filter(order_status), o.status in order_status) and implies(matched_filter(matched_only), o.size_matched > 0)


def only_matching(result, order_status, matched_only):
    return forall(lambda j: passes(result[j], order_status, matched_only), 0, len(result))


def drawn_from_view(result, view):
    return forall(lambda j: result[j] in view, 0, len(result))


def all_matching(result, view, order_status, matched_only):
    return forall(lambda i: implies(passes(view[i], order_status, matched_only), view[i] in result), 0, len(view))


def in_view_order(result, view):
    return forall_int(lambda a, b: implies(0 <= a and a < b and b < len(result),
                                           exists_int(lambda i, j: 0 <= i and i < j and j < len(view) and view[i] == result[a] and view[j] == result[b])))


def no_repeats(result):
    return forall_int(lambda a, b: implies(0 <= a and a < b and b < len(result), result[a] != result[b]))


def miss_inserts_empty(d, key):
    """a defaultdict(list) lookup: an unknown key is registered with a new empty list, a known one is left alone"""
    return (key in d and implies(old(key in d), d[key] is old(d[key]) and len(d[key]) == old(len(d[key])))
            and implies(not old(key in d), len(d[key]) == 0))


@contract("flumine/markets/blotter.py::Blotter.strategy_orders", tags=["C15"], heap_axioms=True, named_filters=True)
def _(self, strategy: Ref("BaseStrategy"), order_status: Opt(ListOf(Opt(ATOM))), matched_only: Opt(BOOL)) -> ListOf(Ref("BaseOrder")):
    rep_invariant("sep_live", sep_live(self))
    rep_invariant("sep_same", sep_same(self))
    rep_invariant("sep_trades", sep_trades(self))
    rep_invariant("sep_strategy", sep_strategy(self))
    rep_invariant("sep_rest", sep_rest(self))
    rep_invariant("strategy_sound", view_sound(self, self._strategy_orders, k_strategy, K_STRATEGY))
    rep_invariant("strategy_nodup", view_nodup(self._strategy_orders, K_STRATEGY))
    modifies_map(self._strategy_orders)
    ensures("lookup", miss_inserts_empty(self._strategy_orders, strategy), ground=True)
    ensures("other_keys_untouched", others_untouched(self._strategy_orders, strategy, K_STRATEGY), ground=True)
    ensures("unfiltered_is_the_view", implies(not status_filter(order_status) and not matched_filter(matched_only), result is self._strategy_orders[strategy]), ground=True)
    ensures("only_matching", only_matching(result, order_status, matched_only), ground=True, given=["@filters"])
    ensures("all_matching", all_matching(result, self._strategy_orders[strategy], order_status, matched_only), ground=True, given=["@filters"])
    ensures("drawn_from_view", implies(not (status_filter(order_status) and matched_filter(matched_only)), drawn_from_view(result, self._strategy_orders[strategy])),
            ground=True, given=["@filters"])
    ensures("strategy_grows", view_grows(self._strategy_orders, K_STRATEGY), ground=True, given=["@heap"])
    rep_invariant("strategy_full", view_full(self, self._strategy_orders, k_strategy), ground=True, given=["pre:strategy_full", "strategy_grows"])


@contract("flumine/markets/blotter.py::Blotter.strategy_selection_orders", tags=["C15"], heap_axioms=True, named_filters=True, verify_only=True)
def _(self, strategy: Ref("BaseStrategy"), selection_id: INT, handicap: REAL, order_status: Opt(ListOf(Opt(ATOM))), matched_only: Opt(BOOL)) -> ListOf(Ref("BaseOrder")):
    rep_invariant("sep_live", sep_live(self))
    rep_invariant("sep_same", sep_same(self))
    rep_invariant("sep_trades", sep_trades(self))
    rep_invariant("sep_strategy", sep_strategy(self))
    rep_invariant("sep_rest", sep_rest(self))
    rep_invariant("selection_sound", view_sound(self, self._strategy_selection_orders, k_selection, K_SELECTION))
    rep_invariant("selection_nodup", view_nodup(self._strategy_selection_orders, K_SELECTION))
    modifies_map(self._strategy_selection_orders)
    ensures("lookup", miss_inserts_empty(self._strategy_selection_orders, (strategy, selection_id, handicap)), ground=True)
    ensures("other_keys_untouched", others_untouched(self._strategy_selection_orders, (strategy, selection_id, handicap), K_SELECTION), ground=True)
    ensures("unfiltered_is_the_view", implies(not status_filter(order_status) and not matched_filter(matched_only),
                                              result is self._strategy_selection_orders[(strategy, selection_id, handicap)]), ground=True)
    ensures("only_matching", only_matching(result, order_status, matched_only), ground=True, given=["@filters"])
    ensures("all_matching", all_matching(result, self._strategy_selection_orders[(strategy, selection_id, handicap)], order_status, matched_only), ground=True, given=["@filters"])
    ensures("drawn_from_view", implies(not (status_filter(order_status) and matched_filter(matched_only)),
                                       drawn_from_view(result, self._strategy_selection_orders[(strategy, selection_id, handicap)])), ground=True, given=["@filters"])
    ensures("selection_grows", view_grows(self._strategy_selection_orders, K_SELECTION), ground=True, given=["@heap"])
    rep_invariant("selection_full", view_full(self, self._strategy_selection_orders, k_selection), ground=True, given=["pre:selection_full", "selection_grows"])


@contract("flumine/markets/blotter.py::Blotter.client_orders", tags=["C15"], heap_axioms=True, named_filters=True, verify_only=True)
def _(self, client: Opt(Ref("BaseClient")), order_status: Opt(ListOf(Opt(ATOM))), matched_only: Opt(BOOL)) -> ListOf(Ref("BaseOrder")):
    rep_invariant("sep_live", sep_live(self))
    rep_invariant("sep_same", sep_same(self))
    rep_invariant("sep_trades", sep_trades(self))
    rep_invariant("sep_strategy", sep_strategy(self))
    rep_invariant("sep_rest", sep_rest(self))
    rep_invariant("client_sound", view_sound(self, self._client_orders, k_client, K_CLIENT))
    rep_invariant("client_nodup", view_nodup(self._client_orders, K_CLIENT))
    modifies_map(self._client_orders)
    ensures("lookup", miss_inserts_empty(self._client_orders, client), ground=True)
    ensures("other_keys_untouched", others_untouched(self._client_orders, client, K_CLIENT), ground=True)
    ensures("unfiltered_is_the_view", implies(not status_filter(order_status) and not matched_filter(matched_only), result is self._client_orders[client]), ground=True)
    ensures("only_matching", only_matching(result, order_status, matched_only), ground=True, given=["@filters"])
    ensures("all_matching", all_matching(result, self._client_orders[client], order_status, matched_only), ground=True, given=["@filters"])
    ensures("drawn_from_view", implies(not (status_filter(order_status) and matched_filter(matched_only)), drawn_from_view(result, self._client_orders[client])),
            ground=True, given=["@filters"])
    ensures("client_grows", view_grows(self._client_orders, K_CLIENT), ground=True, given=["@heap"])
    rep_invariant("client_full", view_full(self, self._client_orders, k_client), ground=True, given=["pre:client_full", "client_grows"])


@contract("flumine/markets/blotter.py::Blotter.client_strategy_orders", tags=["C15"], heap_axioms=True, named_filters=True)
def _(self, client: Opt(Ref("BaseClient")), strategy: Ref("BaseStrategy"), order_status: Opt(ListOf(Opt(ATOM))), matched_only: Opt(BOOL)) -> ListOf(Ref("BaseOrder")):
    rep_invariant("sep_live", sep_live(self))
    rep_invariant("sep_same", sep_same(self))
    rep_invariant("sep_trades", sep_trades(self))
    rep_invariant("sep_strategy", sep_strategy(self))
    rep_invariant("sep_rest", sep_rest(self))
    rep_invariant("client_strategy_sound", view_sound(self, self._client_strategy_orders, k_client_strategy, K_CLIENT_STRATEGY))
    rep_invariant("client_strategy_nodup", view_nodup(self._client_strategy_orders, K_CLIENT_STRATEGY))
    modifies_map(self._client_strategy_orders)
    ensures("lookup", miss_inserts_empty(self._client_strategy_orders, (client, strategy)), ground=True)
    ensures("other_keys_untouched", others_untouched(self._client_strategy_orders, (client, strategy), K_CLIENT_STRATEGY), ground=True)
    ensures("unfiltered_is_the_view", implies(not status_filter(order_status) and not matched_filter(matched_only), result is self._client_strategy_orders[(client, strategy)]), ground=True)
    ensures("only_matching", only_matching(result, order_status, matched_only), ground=True, given=["@filters"])
    ensures("all_matching", all_matching(result, self._client_strategy_orders[(client, strategy)], order_status, matched_only), ground=True, given=["@filters"])
    ensures("drawn_from_view", implies(not (status_filter(order_status) and matched_filter(matched_only)), drawn_from_view(result, self._client_strategy_orders[(client, strategy)])),
            ground=True, given=["@filters"])
    ensures("client_strategy_grows", view_grows(self._client_strategy_orders, K_CLIENT_STRATEGY), ground=True, given=["@heap"])
    rep_invariant("client_strategy_full", view_full(self, self._client_strategy_orders, k_client_strategy), ground=True, given=["pre:client_strategy_full", "client_strategy_grows"])


# ----------------------------------------------------------------------------- iteration / live list snapshot
@contract("flumine/markets/blotter.py::Blotter.live_orders", tags=["C15"], ground=True)
def _(self) -> ListOf(Ref("BaseOrder")):
    ensures("a_copy_of_the_live_list", result is not self._live_orders and len(result) == len(self._live_orders)
            and forall(lambda j: result[j] == self._live_orders[j], 0, len(result)))
