"""C16 - reported exposure equals the true worst case (Blotter.get_exposures / selection_exposure, utils.calculate_*).

Per order (DESIGN C16 / I-3): matched part (win, lose) = BACK (+(a-1)m, -m), LAY (-(a-1)m, +m) with a = 2.0 on line markets;
open part (only while not complete, remaining != 0, price != 0), worst case over "fills fully or not at all":
BACK (0, -r), LAY (-(p-1)r, 0); on-close orders: liability on the losing outcome.  By lemma L1 (Lean) the minimum over
fill subsets is the sum of the non-positive terms, which is what the sums below are.
"""

inline("flumine/markets/blotter.py::Blotter.strategy_selection_orders")


def in_pending(st):
    return st == OrderStatus.PENDING or st == OrderStatus.VIOLATION or st == OrderStatus.EXPIRED


def counted(o, exclusion):
    return not (exclusion is not None and o == exclusion) and not in_pending(o.status)


def is_limit(o):
    return o.order_type.ORDER_TYPE == OrderTypes.LIMIT


def is_sp(o):
    return o.order_type.ORDER_TYPE == OrderTypes.LIMIT_ON_CLOSE or o.order_type.ORDER_TYPE == OrderTypes.MARKET_ON_CLOSE


def eff_avg(o):
    return 2.0 if o.order_type.price_ladder_definition == "LINE_RANGE" else o.average_price_matched


def eff_price(o):
    return 2.0 if o.order_type.price_ladder_definition == "LINE_RANGE" else o.order_type.price


def has_matched(o, x):
    return counted(o, x) and is_limit(o) and o.size_matched != 0


def has_open(o, x):
    return counted(o, x) and is_limit(o) and not o.complete and eff_price(o) is not None and eff_price(o) != 0 and o.size_remaining != 0


def mb_win(o, x):
    return (eff_avg(o) - 1) * o.size_matched if has_matched(o, x) and o.side == "BACK" else 0


def mb_lose(o, x):
    return -o.size_matched if has_matched(o, x) and o.side == "BACK" else 0


def ml_win(o, x):
    return (eff_avg(o) - 1) * -o.size_matched if has_matched(o, x) and o.side != "BACK" else 0


def ml_lose(o, x):
    return o.size_matched if has_matched(o, x) and o.side != "BACK" else 0


def ub_lose(o, x):
    return -o.size_remaining if has_open(o, x) and o.side == "BACK" else 0


def ul_win(o, x):
    return (eff_price(o) - 1) * -o.size_remaining if has_open(o, x) and o.side != "BACK" else 0


def sp_win(o, x):
    return -o.order_type.liability if counted(o, x) and is_sp(o) and o.side != "BACK" else 0


def sp_lose(o, x):
    return -o.order_type.liability if counted(o, x) and is_sp(o) and o.side == "BACK" else 0


def pair_sum_win(l):
    return sum_(lambda k: (l[k][0] - 1) * l[k][1], 0, len(l))


def pair_sum_size(l):
    return sum_(lambda k: l[k][1], 0, len(l))


@contract("flumine/utils.py::calculate_matched_exposure", tags=["C16-in-main", "C01"])
def _(mb: ListOf(Tup(REAL, REAL)), ml: ListOf(Tup(REAL, REAL))) -> Tup(REAL, REAL):
    invariant(0, "back_sums", back_exp == -sum_(lambda k: mb[k][1], 0, _i0) and back_profit == sum_(lambda k: (mb[k][0] - 1) * mb[k][1], 0, _i0))
    invariant(1, "lay_sums", lay_exp == sum_(lambda k: (ml[k][0] - 1) * -ml[k][1], 0, _i1) and lay_profit == sum_(lambda k: ml[k][1], 0, _i1))
    ensures("win", result[0] == round(pair_sum_win(mb) + sum_(lambda k: (ml[k][0] - 1) * -ml[k][1], 0, len(ml)), 2))
    ensures("lose", result[1] == round(pair_sum_size(ml) + -pair_sum_size(mb), 2))


@contract("flumine/utils.py::calculate_unmatched_exposure", tags=["C16-in-main", "C01"])
def _(ub: ListOf(Tup(REAL, REAL)), ul: ListOf(Tup(REAL, REAL))) -> Tup(REAL, REAL):
    invariant(0, "back_sum", back_exp == -sum_(lambda k: ub[k][1], 0, _i0))
    invariant(1, "lay_sum", lay_exp == sum_(lambda k: (ul[k][0] - 1) * -ul[k][1], 0, _i1))
    ensures("win_all_lays_fill", result[0] == round(sum_(lambda k: (ul[k][0] - 1) * -ul[k][1], 0, len(ul)), 2))
    ensures("lose_all_backs_fill", result[1] == round(-pair_sum_size(ub), 2))


struct("Exposures", matched_profit_if_win=REAL, matched_profit_if_lose=REAL, worst_potential_unmatched_profit_if_win=REAL,
       worst_potential_unmatched_profit_if_lose=REAL, worst_possible_profit_on_win=REAL, worst_possible_profit_on_lose=REAL)


def sel_view(blotter, strategy, lookup):
    return blotter._strategy_selection_orders[(strategy, lookup[1], lookup[2])]


def order_at(view, new_order, j):
    return view[j] if j < len(view) else new_order


def n_orders(view, new_order):
    return len(view) + (1 if new_order is not None else 0)


def order_ok(o):
    return (is_limit(o) or is_sp(o)) and implies(is_sp(o), o.order_type.liability is not None)


@contract("flumine/markets/blotter.py::Blotter.get_exposures", tags=["C16-in-main", "C01"])
def _(self, strategy: Ref("BaseStrategy"), lookup: Tup(ATOM, INT, REAL), exclusion: Opt(Ref("BaseOrder")), new_order: Opt(Ref("BaseOrder"))) -> Ref("Exposures"):
    requires("view_exists", (strategy, lookup[1], lookup[2]) in self._strategy_selection_orders)
    requires("known_order_types", forall(lambda j: order_ok(sel_view(self, strategy, lookup)[j]), 0, len(sel_view(self, strategy, lookup)))
             and implies(new_order is not None, order_ok(new_order)))
    local(mb=ListOf(Tup(REAL, REAL)), ml=ListOf(Tup(REAL, REAL)), ub=ListOf(Tup(REAL, REAL)), ul=ListOf(Tup(REAL, REAL)))
    invariant(0, "matched_back", pair_sum_win(mb) == sum_(lambda j: mb_win(order_at(sel_view(self, strategy, lookup), new_order, j), exclusion), 0, _i0)
              and -pair_sum_size(mb) == sum_(lambda j: mb_lose(order_at(sel_view(self, strategy, lookup), new_order, j), exclusion), 0, _i0))
    invariant(0, "matched_lay", sum_(lambda k: (ml[k][0] - 1) * -ml[k][1], 0, len(ml)) == sum_(lambda j: ml_win(order_at(sel_view(self, strategy, lookup), new_order, j), exclusion), 0, _i0)
              and pair_sum_size(ml) == sum_(lambda j: ml_lose(order_at(sel_view(self, strategy, lookup), new_order, j), exclusion), 0, _i0))
    invariant(0, "open_back", -pair_sum_size(ub) == sum_(lambda j: ub_lose(order_at(sel_view(self, strategy, lookup), new_order, j), exclusion), 0, _i0))
    invariant(0, "open_lay", sum_(lambda k: (ul[k][0] - 1) * -ul[k][1], 0, len(ul)) == sum_(lambda j: ul_win(order_at(sel_view(self, strategy, lookup), new_order, j), exclusion), 0, _i0))
    invariant(0, "sp", moc_win_liability == sum_(lambda j: sp_win(order_at(sel_view(self, strategy, lookup), new_order, j), exclusion), 0, _i0)
              and moc_lose_liability == sum_(lambda j: sp_lose(order_at(sel_view(self, strategy, lookup), new_order, j), exclusion), 0, _i0))
    ensures("matched_win", result["matched_profit_if_win"] == round(
        sum_(lambda j: mb_win(order_at(sel_view(self, strategy, lookup), new_order, j), exclusion), 0, n_orders(sel_view(self, strategy, lookup), new_order))
        + sum_(lambda j: ml_win(order_at(sel_view(self, strategy, lookup), new_order, j), exclusion), 0, n_orders(sel_view(self, strategy, lookup), new_order)), 2))
    ensures("matched_lose", result["matched_profit_if_lose"] == round(
        sum_(lambda j: ml_lose(order_at(sel_view(self, strategy, lookup), new_order, j), exclusion), 0, n_orders(sel_view(self, strategy, lookup), new_order))
        + sum_(lambda j: mb_lose(order_at(sel_view(self, strategy, lookup), new_order, j), exclusion), 0, n_orders(sel_view(self, strategy, lookup), new_order)), 2))
    ensures("unmatched_win", result["worst_potential_unmatched_profit_if_win"] == round(
        sum_(lambda j: ul_win(order_at(sel_view(self, strategy, lookup), new_order, j), exclusion), 0, n_orders(sel_view(self, strategy, lookup), new_order)), 2))
    ensures("unmatched_lose", result["worst_potential_unmatched_profit_if_lose"] == round(
        sum_(lambda j: ub_lose(order_at(sel_view(self, strategy, lookup), new_order, j), exclusion), 0, n_orders(sel_view(self, strategy, lookup), new_order)), 2))
    ensures("worst_on_win", result["worst_possible_profit_on_win"] == result["matched_profit_if_win"] + result["worst_potential_unmatched_profit_if_win"]
            + sum_(lambda j: sp_win(order_at(sel_view(self, strategy, lookup), new_order, j), exclusion), 0, n_orders(sel_view(self, strategy, lookup), new_order)))
    ensures("worst_on_lose", result["worst_possible_profit_on_lose"] == result["matched_profit_if_lose"] + result["worst_potential_unmatched_profit_if_lose"]
            + sum_(lambda j: sp_lose(order_at(sel_view(self, strategy, lookup), new_order, j), exclusion), 0, n_orders(sel_view(self, strategy, lookup), new_order)))
