"""C20 - market closure is processed once, with results, for the right strategies.

flumine/markets/market.py (open_market / close_market / __call__ / elapsed_seconds_closed), flumine/markets/markets.py
(add_market re-open / close_market / remove_market / get_order*), flumine/strategy/strategy.py (remove_market),
flumine/markets/middleware.py (SimulatedMiddleware.remove_market), flumine/baseflumine.py (_remove_market, _add_market,
_process_close_market).  Strategy / middleware / logging callbacks are unknown code: @virtual contracts (assumed).
"""

schema("Market", orders_cleared=ListOf(ATOM), market_cleared=ListOf(ATOM))
schema("Markets", _markets=MapOf(ATOM, Ref("Market")), events=MapOfDefault(ATOM, ListOf(Ref("Market"))))
schema("Strategies", _strategies=ListOf(Ref("BaseStrategy")))
schema("SimulatedMiddleware", markets=MapOf(ATOM, Ref("MarketAnalytics")))

inline(
    "flumine/markets/markets.py::Markets.markets",
    "flumine/strategy/strategy.py::Strategies.__iter__",
)


# ----------------------------------------------------------------------------- Market
@contract("flumine/markets/market.py::Market.open_market", tags=["C20"], ground=True)
def _(self):
    modifies(self, "closed")
    modifies(self, "orders_cleared")
    modifies(self, "market_cleared")
    ensures("re_opened_with_cleared_flags_reset", not self.closed and len(self.orders_cleared) == 0 and len(self.market_cleared) == 0)
    ensures("fresh_flag_lists", fresh(self.orders_cleared) and fresh(self.market_cleared) and self.orders_cleared is not self.market_cleared)


@contract("flumine/markets/market.py::Market.close_market", tags=["C20"], ground=True)
def _(self):
    modifies(self, "closed")
    modifies(self, "date_time_closed")
    ensures("marked_closed_now", self.closed and self.date_time_closed == clock_now())


@contract("flumine/markets/market.py::Market.__call__", tags=["C20"], ground=True)
def _(self, market_book: Ref("MarketBook")):
    modifies(self, "market_book")
    modifies(self, "update_market_catalogue")
    ensures("holds_the_book_it_was_given", self.market_book == market_book)
    ensures("catalogue_refresh_only_requested", implies(not self.update_market_catalogue, not old(self.update_market_catalogue)))


@contract("flumine/markets/market.py::Market.elapsed_seconds_closed", tags=["C20"], ground=True)
def _(self) -> Opt(REAL):
    ensures("time_since_the_close", result == (clock_now() - self.date_time_closed if (self.closed and self.date_time_closed is not None and self.date_time_closed != 0) else None))


# ----------------------------------------------------------------------------- Markets
@contract("flumine/markets/markets.py::Markets.add_market", tags=["C20"], ground=True, list_tags=True)
def _(self, market_id: ATOM, market: Ref("Market")):
    modifies_map(self._markets)
    modifies_map(self.events)
    modifies_list(self.events[market.event_id])
    modifies(self._markets[market_id], "closed")
    modifies(self._markets[market_id], "orders_cleared")
    modifies(self._markets[market_id], "market_cleared")
    ensures("known_market_is_re_opened", implies(old(market_id in self._markets),
                                                 self._markets[market_id] == old(self._markets[market_id]) and not self._markets[market_id].closed
                                                 and len(self._markets[market_id].orders_cleared) == 0 and len(self._markets[market_id].market_cleared) == 0))
    ensures("new_market_is_registered", implies(not old(market_id in self._markets), market_id in self._markets and self._markets[market_id] == market
                                                and market.closed == old(market.closed)))
    ensures("registered_either_way", market_id in self._markets and len(self._markets) == old(len(self._markets)) + (0 if old(market_id in self._markets) else 1))
    ensures("other_markets_untouched", forall_of(lambda k: implies(k != market_id, (k in self._markets) == old(k in self._markets)
                                                                   and self._markets[k] == old(self._markets[k])), ATOM))


@contract("flumine/markets/markets.py::Markets.close_market", tags=["C20"], ground=True)
def _(self, market_id: ATOM) -> Ref("Market"):
    raises(KeyError, when=market_id not in self._markets, iff=True, label="unknown_market")
    modifies(self._markets[market_id], "closed")
    modifies(self._markets[market_id], "date_time_closed")
    ensures("closed_now", result == self._markets[market_id] and result.closed and result.date_time_closed == clock_now())


@contract("flumine/markets/markets.py::Markets.remove_market", tags=["C20"], list_tags=True)
def _(self, market_id: ATOM):
    raises(KeyError, when=market_id not in self._markets, iff=True, label="unknown_market")
    modifies_map(self._markets)
    modifies_list(self.events[self._markets[market_id].event_id])
    ensures("gone", market_id not in self._markets and len(self._markets) == old(len(self._markets)) - 1)
    ensures("other_markets_untouched", forall_of(lambda k: implies(k != market_id, (k in self._markets) == old(k in self._markets)
                                                                   and self._markets[k] == old(self._markets[k])), ATOM))
    ensures("left_its_event_list", implies(old(self._markets[market_id].event_id in self.events),
                                           removed_first(self.events[old(self._markets[market_id].event_id)], old(self._markets[market_id]))))


# C15: "lookups by order id or bet id return the very object the strategy placed"
@contract("flumine/markets/markets.py::Markets.get_order", tags=["C15"], ground=True)
def _(self, market_id: ATOM, order_id: ATOM) -> Opt(Ref("BaseOrder")):
    ensures("the_very_object_or_none", result == (self._markets[market_id].blotter._orders[order_id]
                                                  if (market_id in self._markets and order_id in self._markets[market_id].blotter._orders) else None))


@contract("flumine/markets/markets.py::Markets.get_order_from_bet_id", tags=["C15"], ground=True)
def _(self, market_id: ATOM, bet_id: Opt(ATOM)) -> Opt(Ref("BaseOrder")):
    raises(KeyError, when=market_id not in self._markets, iff=True, label="unknown_market")
    ensures("the_very_object_or_none", result == (self._markets[market_id].blotter._bet_id_lookup[bet_id]
                                                  if bet_id in self._markets[market_id].blotter._bet_id_lookup else None))


# ----------------------------------------------------------------------------- BaseStrategy.remove_market
# "Strategy runner accounting ... for the market (is) released when it is removed": exactly the runner contexts whose key
# carries the market id are deleted, every other one stays (same object)
# UNDECIDED (wip): every obligation but loop1:preserve:deleted_so_far discharges (z3 does not find the case split on the
# key deleted in this iteration); a reformulation with four simpler invariants made z3 run away, see NOTES_C.md
@contract("flumine/strategy/strategy.py::BaseStrategy.remove_market", tags=["C20-wip"])
def _(self, market_id: ATOM):
    local(to_remove=ListOf(Tup(ATOM, INT, REAL)))
    modifies_map(self._invested)
    invariant(0, "collected_keys_are_of_the_market", forall(lambda j: to_remove[j][0] == market_id and to_remove[j] in self._invested, 0, len(to_remove)))
    invariant(0, "collected_from_the_visited_keys", forall(lambda j: exists(lambda i: keys_of(self._invested)[i] == to_remove[j], 0, _i0), 0, len(to_remove)))
    invariant(0, "collected_once", forall_int(lambda a, b: implies(0 <= a and a < b and b < len(to_remove), to_remove[a] != to_remove[b])))
    invariant(0, "every_visited_key_of_the_market_is_collected", forall(lambda i: implies(keys_of(self._invested)[i][0] == market_id, keys_of(self._invested)[i] in to_remove), 0, _i0))
    invariant(1, "deleted_so_far", forall_of(lambda k: (k in self._invested) == (old(k in self._invested) and not exists(lambda j: to_remove[j] == k, 0, _i1)), K_RUNNER))
    invariant(1, "survivors_untouched", forall_of(lambda k: implies(k in self._invested, self._invested[k] == old(self._invested[k])), K_RUNNER))
    ensures("contexts_of_the_market_released", forall_of(lambda k: (k in self._invested) == (old(k in self._invested) and k[0] != market_id), K_RUNNER))
    ensures("other_contexts_kept", forall_of(lambda k: implies(k in self._invested, self._invested[k] == old(self._invested[k])), K_RUNNER))
