"""C10 writer scan: the runner accounting and the status logs are written only by the functions under contract in c10_trades.py
(list ownership / class-invariant assumptions of those contracts rest on it)."""
from pyvc import scan  # the driver runs with the verification project root on sys.path

R = "flumine/strategy/runnercontext.py::RunnerContext."
S = "flumine/strategy/strategy.py::BaseStrategy."
ALLOWED = {
    "trades": {R + "place"},
    "live_trades": {R + "place", R + "reset"},
    "datetime_last_placed": {R + "place"},
    "datetime_last_reset": {R + "reset"},
    "_invested": {S + "get_runner_context", S + "remove_market"},
    "status_log": {"flumine/order/order.py::BaseOrder._update_status", "flumine/order/trade.py::Trade._update_status"},
}


def run(repo, spec, ground, repo_root):
    return scan.run_scan("C10", repo, ALLOWED, "runner accounting, status logs")
