"""C15 writer scan: the Blotter's private containers are written only by Blotter.__init__/__setitem__/complete_order (the
class-invariant methodology of c15_blotter.py rests on it), and `order.client` - a key of two views - only by the listed writers."""
from pyvc import scan  # the driver runs with the verification project root on sys.path

B = "flumine/markets/blotter.py::Blotter."
ALLOWED = {a: {B + "__setitem__"} for a in ("_orders", "_trades", "_bet_id_lookup", "_trade_lookup", "_strategy_orders", "_strategy_selection_orders",
                                             "_client_orders", "_client_strategy_orders")}
ALLOWED["_live_orders"] = {B + "__setitem__", B + "complete_order"}
# other classes have a `client` attribute too (order packages, streams, controls): name-based scan, their writers are listed
ALLOWED["client"] = {"flumine/order/order.py::BaseOrder.update_client", "flumine/streams/orderstream.py::OrderStream.handle_output"}


def run(repo, spec, ground, repo_root):
    return scan.run_scan("C15", repo, ALLOWED, "Blotter representation + order.client")
