"""C20 writer scan: the closure flags of a market and the market registry are written only by the functions under contract in
c20_closure.py (worker.poll_market_closure appends the cleared flags in live mode: listed, not under contract)."""
from pyvc import scan  # the driver runs with the verification project root on sys.path

M = "flumine/markets/market.py::Market."
K = "flumine/markets/markets.py::Markets."
ALLOWED = {
    "closed": {M + "close_market", M + "open_market"},
    "date_time_closed": {M + "close_market"},
    "orders_cleared": {M + "open_market", "flumine/worker.py::poll_market_closure"},
    "market_cleared": {M + "open_market", "flumine/worker.py::poll_market_closure"},
    "_markets": {K + "add_market", K + "remove_market"},
}


def run(repo, spec, ground, repo_root):
    return scan.run_scan("C20", repo, ALLOWED, "market closure flags, market registry")
