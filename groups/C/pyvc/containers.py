"""dict objects on the heap (MapOf).

A dict object d (an Int reference) has, per (key sort, value sort):
  dom  : K -> Bool        membership
  val  : K -> V           value (meaningful where dom holds)
  keys : ref of a heap List[K] giving the insertion order (python dicts are insertion ordered)
Well-formedness assumed of every dict of the pre-state and re-established by the operations here:
  the keys list has no duplicates and holds exactly the members of dom.
defaultdict(list): declared as MapOf(K, ListOf(T)) with .default = True in the schema (MapOfDefault).
"""
import z3

from .values import *  # noqa
from . import builtins_model as bm


def _E():
    from . import engine as E

    return E


class MapOfDefault(MapOf):
    """defaultdict(list)"""

    def __init__(self, key, val):
        MapOf.__init__(self, key, val)
        self.default = True


def ksorts(ms):
    return z3sorts(ms.key)


def _hkey(ms, what, i=0):
    return ("$Map", ms.key.name, ms.val.name, what, i)


def _arr(eng, ms, what, i, rng, heap=None):
    heap = eng.path.heap if heap is None else heap
    k = _hkey(ms, what, i)
    if k not in heap:
        heap[k] = z3.Array("H0_Map_%s_%s_%s_%d" % (ms.key.name, ms.val.name, what, i), z3.IntSort(), rng)
        if eng.opt("heap_axioms"):
            # quantified well-formedness of the ENTRY heap, only for contracts that ask for it (heap_axioms=True):
            # quantified hypotheses keep the solver from answering `sat`, so they are not added by default
            if what == "val" and isinstance(ms.val, (Ref, ListOf, MapOf)):
                initial_map_values_allocated(eng, ms, heap[k])
            if what == "keys":
                initial_key_lists_owned(eng, ms, heap[k])
    return heap[k]


def initial_key_lists_owned(eng, ms, keys0):
    """the insertion-order list of a dict is an internal part of that dict: two dicts (of any key/value sorts) that existed
    at entry never share it, and it is an object allocated at entry (model invariant of the dict encoding)"""
    p = eng.path
    if p is None:
        return
    done = p.ghost.setdefault("map_keys_owned", set())
    key = (ms.key.name, ms.val.name)
    if key in done:
        return
    done.add(key)
    owner = z3.Function("KEYLIST_OWNER", z3.IntSort(), z3.IntSort())
    tag = z3.Function("KEYLIST_FAMILY", z3.IntSort(), z3.IntSort())
    m = bvar("wm")
    alloc0 = z3.Int("alloc0")
    kl = z3.Select(keys0, m)
    fam = ATOMS.code("mapfamily:%s:%s" % key)
    fact = z3.ForAll([m], z3.Implies(z3.And(m > 0, m <= alloc0), z3.And(kl > 0, kl <= alloc0, owner(kl) == m, tag(kl) == fam)))
    p.assume(fact, check=False)
    p.ghost.setdefault("heap_facts", []).append(fact)


def initial_map_values_allocated(eng, ms, val0):
    """heap well-formedness of the ENTRY state, quantified: every value stored (under a present key) in a dict that
    existed at entry is an object allocated at entry.  (The per-read version of this fact is wf_assume.)"""
    p = eng.path
    if p is None:
        return
    done = p.ghost.setdefault("map_vals_alloc", set())
    key = (ms.key.name, ms.val.name)
    if key in done:
        return
    done.add(key)
    ks = ksorts(ms)
    dom0 = z3.Array("H0_Map_%s_%s_%s_%d" % (ms.key.name, ms.val.name, "dom", 0), z3.IntSort(), z3.ArraySort(*(ks + [z3.BoolSort()])))
    m = bvar("wm")
    kv = [bvar("wk", z) for z in ks]
    alloc0 = z3.Int("alloc0")
    v = z3.Select(z3.Select(val0, m), *kv)
    fact = z3.ForAll([m] + kv, z3.Implies(z3.And(m > 0, m <= alloc0, z3.Select(z3.Select(dom0, m), *kv)), z3.And(v > 0, v <= alloc0)))
    p.assume(fact, check=False)
    p.ghost.setdefault("heap_facts", []).append(fact)  # selectable in ground=True clauses: given=["@heap"]


def dom_arr(eng, mv):
    ms = mv.sort
    rng = z3.ArraySort(*(ksorts(ms) + [z3.BoolSort()]))
    return z3.Select(_arr(eng, ms, "dom", 0, rng), zr(mv.t))


def val_arrs(eng, mv):
    ms = mv.sort
    out = []
    for i, zs in enumerate(z3sorts(ms.val)):
        rng = z3.ArraySort(*(ksorts(ms) + [zs]))
        out.append(z3.Select(_arr(eng, ms, "val", i, rng), zr(mv.t)))
    return out


def keys_ref(eng, mv):
    ms = mv.sort
    r = z3.Select(_arr(eng, ms, "keys", 0, z3.IntSort()), zr(mv.t))
    if eng.opt("list_tags") and eng.path is not None and not has_bvar(r):
        reg = eng.path.ghost.setdefault("list_tags", set())
        if r.get_id() not in reg:
            reg.add(r.get_id())
            tag = z3.Function("KEYLIST_FAMILY", z3.IntSort(), z3.IntSort())
            owner = z3.Function("KEYLIST_OWNER", z3.IntSort(), z3.IntSort())
            fam = ATOMS.code("mapfamily:%s:%s" % (ms.key.name, ms.val.name))
            eng.path.assume(z3.And(tag(r) == fam, owner(r) == zr(mv.t)), check=False)  # see Engine.tag_plain_list
    return SV(ListOf(ms.key), r)


def _set(eng, mv, what, i, value):
    ms = mv.sort
    k = _hkey(ms, what, i)
    eng.path.heap[k] = z3.Store(eng.path.heap[k], zr(mv.t), value)


def kterms(eng, ms, key):
    return flatten(bm.coerce(eng, key, ms.key), ms.key)


def map_wf(eng, mv):
    """well-formedness facts of a dict (assumed for dicts read from the heap)"""
    ms = mv.sort
    kl = keys_ref(eng, mv)
    n = eng.list_len(kl.t, ms.key)
    d = dom_arr(eng, mv)
    i = bvar("wi")
    j = bvar("wj")
    ki = flatten(eng.list_get(kl.t, ms.key, i, heap=eng.path.heap), ms.key)
    kj = flatten(eng.list_get(kl.t, ms.key, j, heap=eng.path.heap), ms.key)
    same = z3.And(*[a == b for a, b in zip(ki, kj)])
    kv = [bvar("wk", s) for s in ksorts(ms)]
    pos = z3.Function(fresh_name("kpos"), *(ksorts(ms) + [z3.IntSort()]))
    kp = flatten(eng.list_get(kl.t, ms.key, pos(*kv), heap=eng.path.heap), ms.key)
    return z3.And(
        n >= 0,
        z3.ForAll([i], z3.Implies(z3.And(0 <= i, i < n), z3.Select(d, *ki))),
        z3.ForAll([i, j], z3.Implies(z3.And(0 <= i, i < j, j < n), z3.Not(same))),
        z3.ForAll(kv, z3.Implies(z3.Select(d, *kv), z3.And(0 <= pos(*kv), pos(*kv) < n, *[a == b for a, b in zip(kp, kv)]))),
    )


def assume_wf_once(eng, mv):
    p = eng.path
    done = p.ghost.setdefault("map_wf", set())
    key = (mv.sort.name, zr(mv.t).get_id(), id(p.heap.get(_hkey(mv.sort, "dom", 0))), id(p.heap.get(_hkey(mv.sort, "keys", 0))))
    if key in done:
        return
    done.add(key)
    p.assume(map_wf(eng, mv), check=False)


def map_size(eng, mv):
    kl = keys_ref(eng, mv)
    return eng.list_len(kl.t, mv.sort.key)


def map_new(eng, sort, items=()):
    r = eng.new_ref()
    mv = SV(sort, r)
    ms = sort
    ks = ksorts(ms)
    # touch arrays
    dom_arr(eng, mv)
    val_arrs(eng, mv)
    kl0 = keys_ref(eng, mv)
    empty = z3.K(ks[0], z3.BoolVal(False)) if len(ks) == 1 else z3.Lambda([bvar("mk", s) for s in ks], z3.BoolVal(False))
    _set(eng, mv, "dom", 0, empty)
    kl = eng.list_new(ms.key, [])
    _set(eng, mv, "keys", 0, zr(kl.t))
    for k, v in items:
        map_setitem(eng, mv, k, v, None)
    return mv


def map_contains(eng, mv, key):
    if isinstance(key, SV) and isinstance(key.sort, Opt):
        # None is never a key of the maps modelled here unless the key sort is optional
        if not isinstance(mv.sort.key, Opt):
            isn, inner = key.t
            return bm.and_(bm.not_(isn), z3.Select(dom_arr(eng, mv), *kterms(eng, mv.sort, inner)))
    if isinstance(key, SV) and key.sort == NONE and not isinstance(mv.sort.key, Opt):
        return False
    return z3.Select(dom_arr(eng, mv), *kterms(eng, mv.sort, key))


def map_value(eng, mv, kt):
    comps = [z3.Select(a, *kt) for a in val_arrs(eng, mv)]
    v = unflatten(mv.sort.val, comps)
    from .engine import is_initial_array

    eng.wf_assume(v, initial=all(is_initial_array(eng.path.heap.get(_hkey(mv.sort, "val", i))) for i in range(len(comps))))
    eng.tag_plain_list(v)
    return v


def map_getitem(eng, mv, key, line):
    E = _E()
    ms = mv.sort
    kt = kterms(eng, ms, key)
    if eng.spec_mode:
        return map_value(eng, mv, kt)
    present = z3.Select(dom_arr(eng, mv), *kt)
    if getattr(ms, "default", False) and join_maps(eng) and eng.decide(present) is None:
        # defaultdict(list) lookup without forking the path (contract option join_maps=True): the result is the stored
        # list when the key is present, else a new empty list which is inserted (an unused allocation is unobservable)
        cur = map_value_guarded(eng, mv, kt, present)
        new = eng.list_new(ms.val.elem, [])
        v = SV(ms.val, z3.If(present, zr(cur.t), zr(new.t)))
        keys_append_unless(eng, mv, kt, present)
        _set(eng, mv, "dom", 0, z3.Store(dom_arr(eng, mv), *(kt + [z3.BoolVal(True)])))
        for i, (a, c) in enumerate(zip(val_arrs(eng, mv), flatten(v, ms.val))):
            _set(eng, mv, "val", i, z3.Store(a, *(kt + [c])))
        return v
    if eng.branch(present, "haskey"):
        return map_value(eng, mv, kt)
    if getattr(ms, "default", False):
        v = eng.list_new(ms.val.elem, [])
        map_insert(eng, mv, kt, v)
        return v
    raise E.PyRaise("KeyError", None, line)


def join_maps(eng):
    return bool((getattr(eng, "cur_opts", None) or {}).get("join_maps")) and not eng.spec_mode


def map_value_guarded(eng, mv, kt, present):
    """value stored under kt; its heap well-formedness is assumed only when the key is present"""
    from .engine import is_initial_array

    comps = [z3.Select(a, *kt) for a in val_arrs(eng, mv)]
    v = unflatten(mv.sort.val, comps)
    if isinstance(v.sort, (Ref, ListOf, MapOf)) and not has_bvar(zr(v.t)):
        initial = all(is_initial_array(eng.path.heap.get(_hkey(mv.sort, "val", i))) for i in range(len(comps)))
        bound = z3.Int("alloc0") if initial else eng.alloc_term()
        eng.path.assume(z3.Implies(present, z3.And(zr(v.t) > 0, zr(v.t) <= bound)), check=False)
    return v


def keys_append_unless(eng, mv, kt, present):
    """insertion-order list of the dict: append the key unless it is already present"""
    ms = mv.sort
    kl = keys_ref(eng, mv)
    n = eng.list_len(kl.t, ms.key)
    arrs = eng.list_items(kl.t, ms.key)
    arrs = [z3.If(present, a, z3.Store(a, n, c)) for a, c in zip(arrs, kt)]
    eng.list_set_all(kl.t, ms.key, z3.If(present, n, n + 1), arrs)


def map_insert(eng, mv, kt, value):
    """insert a key known to be absent"""
    ms = mv.sort
    d = dom_arr(eng, mv)
    _set(eng, mv, "dom", 0, z3.Store(d, *(kt + [z3.BoolVal(True)])))
    comps = flatten(bm.coerce(eng, value, ms.val), ms.val)
    for i, (a, c) in enumerate(zip(val_arrs(eng, mv), comps)):
        _set(eng, mv, "val", i, z3.Store(a, *(kt + [c])))
    kl = keys_ref(eng, mv)
    eng.list_append(kl, unflatten(ms.key, kt))


def map_setitem(eng, mv, key, value, line):
    ms = mv.sort
    kt = kterms(eng, ms, key)
    present = z3.Select(dom_arr(eng, mv), *kt)
    if join_maps(eng) and eng.decide(present) is None:
        # d[k] = v without forking on "k already present" (contract option join_maps=True)
        comps = flatten(bm.coerce(eng, value, ms.val), ms.val)
        keys_append_unless(eng, mv, kt, present)
        _set(eng, mv, "dom", 0, z3.Store(dom_arr(eng, mv), *(kt + [z3.BoolVal(True)])))
        for i, (a, c) in enumerate(zip(val_arrs(eng, mv), comps)):
            _set(eng, mv, "val", i, z3.Store(a, *(kt + [c])))
        return
    if eng.branch(present, "setkey"):
        comps = flatten(bm.coerce(eng, value, ms.val), ms.val)
        for i, (a, c) in enumerate(zip(val_arrs(eng, mv), comps)):
            _set(eng, mv, "val", i, z3.Store(a, *(kt + [c])))
        return
    map_insert(eng, mv, kt, value)


def map_delitem(eng, mv, key, line):
    E = _E()
    ms = mv.sort
    kt = kterms(eng, ms, key)
    present = z3.Select(dom_arr(eng, mv), *kt)
    if not eng.branch(present, "delkey"):
        raise E.PyRaise("KeyError", None, line)
    assume_wf_once(eng, mv)
    d = dom_arr(eng, mv)
    kl = keys_ref(eng, mv)
    from . import builtins3 as b3

    b3.list_remove(eng, kl, unflatten(ms.key, kt), line)
    _set(eng, mv, "dom", 0, z3.Store(d, *(kt + [z3.BoolVal(False)])))


def map_havoc(eng, mv, prefix):
    ms = mv.sort
    ks = ksorts(ms)
    dom_arr(eng, mv)
    val_arrs(eng, mv)
    keys_ref(eng, mv)
    _set(eng, mv, "dom", 0, z3.Const(fresh_name(prefix + "_dom"), z3.ArraySort(*(ks + [z3.BoolSort()]))))
    for i, zs in enumerate(z3sorts(ms.val)):
        _set(eng, mv, "val", i, z3.Const(fresh_name(prefix + "_val"), z3.ArraySort(*(ks + [zs]))))
    kl = eng.list_new(ms.key, [])
    n = z3.Int(fresh_name(prefix + "_n"))
    arrs = [z3.Const(fresh_name(prefix + "_keys"), z3.ArraySort(z3.IntSort(), zs)) for zs in ks]
    eng.list_set_all(kl.t, ms.key, n, arrs)
    _set(eng, mv, "keys", 0, zr(kl.t))
    eng.path.ghost.setdefault("map_wf", set())
    eng.path.assume(map_wf(eng, mv), check=False)


def maps_havoc_all(eng, prefix):
    for k in list(eng.path.heap):
        if k[0] == "$Map":
            arr = eng.path.heap[k]
            eng.path.heap[k] = z3.Const(fresh_name(prefix + "_map"), arr.sort())


def map_method(eng, mv, name, args, kwargs, line):
    E = _E()
    ms = mv.sort
    if name == "get":
        kt = kterms(eng, ms, args[0])
        present = z3.Select(dom_arr(eng, mv), *kt)
        if eng.spec_mode:
            dflt = args[1] if len(args) > 1 else NONE_V
            return bm.ite(eng, present, map_value(eng, mv, kt), dflt)
        if eng.branch(present, "get"):
            return map_value(eng, mv, kt)
        return args[1] if len(args) > 1 else NONE_V
    if name in ("items", "keys", "values"):
        return PyVal("mapview", of=mv, what=name)
    if name == "copy":
        r = eng.new_ref()
        nv = SV(ms, r)
        d = dom_arr(eng, mv)
        vs = val_arrs(eng, mv)
        kl = keys_ref(eng, mv)
        dom_arr(eng, nv)
        val_arrs(eng, nv)
        keys_ref(eng, nv)
        _set(eng, nv, "dom", 0, d)
        for i, a in enumerate(vs):
            _set(eng, nv, "val", i, a)
        from . import builtins3 as b3

        _set(eng, nv, "keys", 0, zr(b3.list_copy(eng, kl).t))
        return nv
    if name == "clear":
        ks = ksorts(ms)
        dom_arr(eng, mv)
        empty = z3.K(ks[0], z3.BoolVal(False)) if len(ks) == 1 else z3.Lambda([bvar("mk", s) for s in ks], z3.BoolVal(False))
        _set(eng, mv, "dom", 0, empty)
        keys_ref(eng, mv)
        _set(eng, mv, "keys", 0, zr(eng.list_new(ms.key, []).t))
        return NONE_V
    if name == "pop":
        kt = kterms(eng, ms, args[0])
        present = z3.Select(dom_arr(eng, mv), *kt)
        if eng.branch(present, "pop"):
            v = map_value(eng, mv, kt)
            map_delitem(eng, mv, args[0], line)
            return v
        if len(args) > 1:
            return args[1]
        raise E.PyRaise("KeyError", None, line)
    raise EngineLimit("dict method %s" % name)


class MapViewSource:
    """iteration over d.items() / d.keys() / d.values() / d in insertion order"""

    def __init__(self, eng, view):
        self.eng = eng
        self.mv = view.of
        self.what = view.what
        assume_wf_once(eng, self.mv)
        self.kl = keys_ref(eng, self.mv)
        self.ks = self.mv.sort.key
        self.n0 = eng.list_len(self.kl.t, self.ks)
        self.items0 = eng.list_items(self.kl.t, self.ks)

    def length(self):
        return self.n0

    def key_at(self, i):
        return unflatten(self.ks, [z3.Select(a, i) for a in self.items0])

    def element(self, i):
        k = self.key_at(i)
        self.eng.wf_assume(k)
        if self.what == "keys":
            return k
        v = map_value(self.eng, self.mv, flatten(k, self.ks))
        if self.what == "values":
            return v
        return bm.make_tuple([k, v])

    def protect(self, ws):
        pass

    def check_unchanged(self, n, line):
        eng = self.eng
        cur = eng.list_len(keys_ref(eng, self.mv).t, self.ks)
        eng.oblige("%s/dict-not-resized-during-iteration@%d" % (eng.cur_short, line), cur == self.n0, "safety", line)


def view_to_list(eng, view):
    mv = view.of
    ms = mv.sort
    assume_wf_once(eng, mv)
    kl = keys_ref(eng, mv)
    from . import builtins3 as b3

    if view.what == "keys":
        return b3.list_copy(eng, kl)
    n = eng.list_len(kl.t, ms.key)
    i = bvar("vl")
    kt = flatten(eng.list_get(kl.t, ms.key, i), ms.key)
    if view.what == "values":
        arrs = [z3.Lambda([i], z3.Select(a, *kt)) for a in val_arrs(eng, mv)]
        r = eng.new_ref()
        eng.list_set_all(r, ms.val, n, arrs)
        return SV(ListOf(ms.val), r)
    raise EngineLimit("list(d.items())")


def map_comprehension(eng, node, g, view, fr, kind):
    # [f(k, v) for k, v in d.items()] : go through the list of keys
    raise EngineLimit("comprehension over a dict view")


def dict_comprehension(eng, node, fr):
    raise EngineLimit("dict comprehension (line %s): give the enclosing function a contract-level model" % node.lineno)
