"""Writer scan ("frame scan", DESIGN section 1): which functions of the repository write a given set of attributes.

A write is: an assignment / augmented assignment / del of  <expr>.<attr>,  a subscript store or del on it
(<expr>.<attr>[k] = v,  del <expr>.<attr>[k])  or a call of a mutating method on it (<expr>.<attr>.append(..) ...).
Writes inside any __init__ are attributed to the constructor of a fresh object and reported separately.
The scan is syntactic and name based (it over-approximates: any object with an attribute of that name counts)."""
import ast

MUTATORS = {"append", "remove", "clear", "pop", "extend", "insert", "sort", "update", "setdefault", "popitem", "add", "discard"}


def writers(repo, names):
    """-> {attr: set of 'relpath::Qual.name'}"""
    out = {n: set() for n in names}
    for mi in repo.modules.values():
        for qual, node in functions_of(mi):
            for n in ast.walk(node):
                attr = None
                if isinstance(n, ast.Attribute) and isinstance(n.ctx, (ast.Store, ast.Del)) and n.attr in out:
                    attr = n.attr
                elif isinstance(n, ast.Subscript) and isinstance(n.ctx, (ast.Store, ast.Del)) and isinstance(n.value, ast.Attribute) and n.value.attr in out:
                    attr = n.value.attr
                elif isinstance(n, ast.Call) and isinstance(n.func, ast.Attribute) and n.func.attr in MUTATORS and isinstance(n.func.value, ast.Attribute) and n.func.value.attr in out:
                    attr = n.func.value.attr
                elif isinstance(n, ast.Call) and isinstance(n.func, ast.Attribute) and n.func.attr in MUTATORS and isinstance(n.func.value, ast.Subscript) \
                        and isinstance(n.func.value.value, ast.Attribute) and n.func.value.value.attr in out:
                    attr = n.func.value.value.attr  # x._view[key].append(..)
                if attr is not None:
                    out[attr].add("%s::%s" % (mi.relpath, qual))
    return out


def functions_of(mi):
    for node in mi.tree.body:
        if isinstance(node, ast.FunctionDef):
            yield node.name, node
        elif isinstance(node, ast.ClassDef):
            for n in node.body:
                if isinstance(n, ast.FunctionDef):
                    yield "%s.%s" % (node.name, n.name), n


def run_scan(prop, repo, allowed, what):
    """allowed: {attr: set of permitted writers (relpath::Qual.name); any __init__ is always permitted}
    -> result dict for driver.run_extra_checks"""
    found = writers(repo, list(allowed))
    res = dict(obligations=0, discharged=0, violations=[], samples=[], assumptions=[], ground=[])
    for attr, ws in sorted(found.items()):
        res["obligations"] += 1
        extra = sorted(w for w in ws if not w.endswith(".__init__") and w not in allowed[attr])
        name = "%s/writer-scan:%s" % (prop, attr)
        if extra:
            res["violations"].append(dict(obligation=name, kind="writer-scan", unexpected_writers=extra, permitted=sorted(allowed[attr]),
                                          native=dict(confirmed=True, note="syntactic scan of the current source")))
        else:
            res["discharged"] += 1
        res["ground"].append("%s: writers of .%s = %s" % (name, attr, sorted(ws)))
    res["assumptions"].append("writer scan (%s): name-based, syntactic; writes through setattr()/__dict__ or aliases of the containers are not seen" % what)
    return res
