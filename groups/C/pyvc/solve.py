import sys
"""Discharge obligations: z3 (python API) on a process pool, cvc5 / z3-4.8 CLI for what it leaves unknown."""
import multiprocessing as mp
import os
import subprocess
import tempfile
import time

import z3


def _is_read_def(a):
    return z3.is_eq(a) and z3.is_const(a.arg(0)) and a.arg(0).decl().name().startswith("rd!")


def to_smt2(ob, order=0):
    """order 0: purification definitions (rd!k == select ..) AFTER the arithmetic facts and the goal - z3 5.1 and
    cvc5 leave integrality goals undecided when the definitions come first (measured; see DESIGN section 9);
    order 1: as generated; order 2: reversed"""
    s = z3.Solver()
    facts = list(ob.pc) + list(ob.extra.get("axioms", []))
    goal = z3.Not(ob.goal)
    if order == 0:
        defs = [a for a in facts if _is_read_def(a)]
        rest = [a for a in facts if not _is_read_def(a)]
        seq = rest + [goal] + defs
    elif order == 1:
        seq = facts + [goal]
    else:
        seq = [goal] + facts[::-1]
    for a in seq:
        s.add(a)
    return s.to_smt2()


def _work(job):
    name, smt, timeout_ms, want_model = job
    t0 = time.time()
    try:
        z3.set_param("memory_max_size", int(os.environ.get("PYVC_Z3_MEM_MB", "3000")))  # the machine is shared: a runaway query is cut off (-> unknown)
        s = z3.Solver()
        s.set("timeout", timeout_ms)
        s.from_string(smt)
        r = s.check()
        verdict = str(r)
        model = None
        if r == z3.sat and want_model:
            m = s.model()
            model = {}
            for d in m.decls():
                if d.arity() == 0:
                    v = m[d]
                    if z3.is_array(v):
                        continue
                    model[d.name()] = str(v)
            # arrays of the initial heap, evaluated lazily by the replay builder through 'eval' requests
            model["__full__"] = str(m)[:20000]
        reason = s.reason_unknown() if r == z3.unknown else ""
        return dict(name=name, verdict=verdict, solver="z3-%s" % z3.get_version_string(), time=time.time() - t0, model=model, reason=reason)
    except Exception as e:  # noqa
        return dict(name=name, verdict="error", solver="z3", time=time.time() - t0, model=None, reason=repr(e))


def cli_fallback(smt, timeout_s):
    """try cvc5 then /usr/bin/z3 on the SMT-LIB text; returns (verdict, solver)"""
    with tempfile.NamedTemporaryFile("w", suffix=".smt2", delete=False, dir=os.environ.get("PYVC_TMP", None)) as f:
        f.write("(set-logic ALL)\n" + smt + "\n")
        path = f.name
    try:
        for cmd, nm in (
            (["/usr/bin/cvc5", "--tlimit=%d" % int(timeout_s * 1000), path], "cvc5-1.0.3"),
            (["/usr/bin/z3", "-T:%d" % int(timeout_s), path], "z3-4.8.12"),
        ):
            try:
                out = subprocess.run(cmd, capture_output=True, text=True, timeout=timeout_s + 5).stdout.strip().splitlines()
            except Exception:
                continue
            if out and out[0] in ("sat", "unsat"):
                return out[0], nm
        return "unknown", None
    finally:
        os.unlink(path)


def _work_cli(job):
    name, smt, timeout_ms, _ = job
    t0 = time.time()
    v, nm = cli_fallback(smt, timeout_ms / 1000.0)
    return dict(name=name, verdict=v, solver=nm or "cli", time=time.time() - t0, model=None, reason="")


def _work_any(job):
    return _work_cli(job[1:]) if job[0] == "cli" else _work(job[1:])


def _discharge_base(obls, timeout_ms=20000, jobs=None, fallback=True):
    """stage 1: short budget, definitions-last order; stage 2: the other two assertion orders (solver heuristics are
    order sensitive); stage 3: full budget; stage 4: cvc5 / z3-4.8 on the SMT-LIB text"""
    jobs = jobs or int(os.environ.get("PYVC_JOBS", min(16, os.cpu_count() or 4)))
    if not obls:
        return []
    short = min(timeout_ms, 4000)
    ctx = mp.get_context("fork")

    def run(jobs_list):
        with ctx.Pool(jobs) as pool:
            return pool.map(_work, jobs_list, chunksize=1)

    def tmo(ob, t):
        return min(t, 3000) if ob.kind == "canary" else t

    results = run([("%d" % i, to_smt2(ob, 0), tmo(ob, short), ob.kind != "canary") for i, ob in enumerate(obls)])
    open_ = [i for i, (ob, r) in enumerate(zip(obls, results)) if r["verdict"] in ("unknown", "error") and ob.kind != "canary"]
    if open_:
        j2 = []
        for i in open_:
            for order in (1, 2):
                j2.append(("z3", "%d/%d" % (i, order), to_smt2(obls[i], order), short, True))
            j2.append(("cli", "%d/cli" % i, to_smt2(obls[i], 0), 2 * short, True))
        with ctx.Pool(jobs) as pool:
            r2 = pool.map(_work_any, j2, chunksize=1)
        for n, i in enumerate(open_):
            cands = r2[3 * n : 3 * n + 3]
            for k, x in enumerate(cands):
                if x["verdict"] in ("sat", "unsat"):
                    if k < 2:
                        x["solver"] += " (reordered)"
                    if x["verdict"] == "sat" and x.get("model") is None:
                        continue  # a CLI 'sat' carries no model: keep looking, the last stage re-derives it
                    results[i] = x
                    break
    open_ = [i for i in open_ if results[i]["verdict"] in ("unknown", "error")]
    if open_ and timeout_ms > short:
        r3 = run([("%d" % i, to_smt2(obls[i], 0), timeout_ms, True) for i in open_])
        for i, x in zip(open_, r3):
            if x["verdict"] in ("sat", "unsat"):
                results[i] = x
    left = [i for i, (ob, r) in enumerate(zip(obls, results)) if r["verdict"] in ("unknown", "error") and fallback and ob.kind != "canary"]
    if left:
        from concurrent.futures import ThreadPoolExecutor

        texts = {i: to_smt2(obls[i], 0) for i in left}  # z3's API is not thread safe: serialise first

        def fb(i):
            return i, cli_fallback(texts[i], min(timeout_ms / 1000.0, 20))

        with ThreadPoolExecutor(max_workers=jobs) as ex:
            for i, (v, nm) in ex.map(fb, left):
                if v in ("sat", "unsat"):
                    results[i] = dict(results[i], verdict=v, solver=nm)
    out = []
    for ob, r in zip(obls, results):
        r["obligation"] = ob
        out.append(r)
    return out


def discharge(obls, timeout_ms=20000, jobs=None, fallback=True):
    """all stages of _discharge_base, then the seed/order portfolio (pyvc/portfolio.py) on what is still unknown"""
    from . import portfolio

    out = _discharge_base(obls, timeout_ms, jobs, fallback)
    return portfolio.rescue(out, to_smt2, timeout_ms, jobs) if fallback else out
