"""developer tool: generate + discharge the obligations of ONE contract quickly (no CLI fall-backs, short timeout)
usage: python3-vt tools/dev.py <substring of qual> [substring of obligation]   env: TO=ms JOBS=n REPO=path MAXP=n DUMP=1"""
import sys, time, os
HERE = os.path.dirname(os.path.dirname(os.path.abspath(__file__)))
sys.path.insert(0, HERE)
from pyvc.repo import Repo; from pyvc.engine import Engine; from pyvc.contracts import Spec, verify_function; from pyvc import solve
import json
repo = Repo(os.environ.get('REPO', '/repo')); spec = Spec(); spec.load_dir(os.path.join(HERE, 'contracts'), {'PRICES': [1], 'BETDAQ_PRICES': [1]})
eng = Engine(repo, spec)
known = json.load(open(os.path.join(HERE, 'known_findings.json')))
eng.known_regions = {f["obligation"]: f for f in known.get("findings", []) if f.get("region")}
cs = [c for q, c in sorted(spec.contracts.items()) if sys.argv[1] in q]
filt = sys.argv[2] if len(sys.argv) > 2 else ''
for c in cs:
    t = time.time()
    r = verify_function(eng, c, max_paths=int(os.environ.get('MAXP', '3000')))
    print("==", c.qual, r.status, r.limit, "paths", r.paths, "obls", len(r.obligations), "gen %.1fs" % (time.time() - t), flush=True)
    obs = [o for o in r.obligations if filt in o.name]
    t = time.time()
    res = solve.discharge(obs, int(os.environ.get('TO', '5000')), jobs=int(os.environ.get('JOBS', '4')), fallback=bool(os.environ.get('FALLBACK')))
    agg = {}
    for x in res:
        ob = x['obligation']
        a = agg.setdefault(ob.name, dict(n=0, v={}, t=0.0, kind=ob.kind, ex=None))
        a['n'] += 1; a['v'][x['verdict']] = a['v'].get(x['verdict'], 0) + 1; a['t'] = max(a['t'], x['time'])
        if x['verdict'] != 'unsat' and a['ex'] is None and ob.kind != 'canary':
            a['ex'] = (ob, x)
    nd = 0
    for name, a in sorted(agg.items()):
        if a['kind'] == 'canary':
            ok = a['v'].get('unsat', 0) < a['n']
            if not ok: print("  VACUOUS canary", name)
            continue
        bad = {k: v for k, v in a['v'].items() if k != 'unsat'}
        if a['kind'] == 'known-region':
            print("  known-region", name, a['v']); continue
        if bad:
            ob, x = a['ex']
            print("  %-8s %s %s max %.1fs path %s labels %s %s" % ("FAILED" if 'sat' in bad else "UNKNOWN", name, a['v'], a['t'], ob.path, ob.extra['labels'][-8:], (x.get('reason') or '')[:100]))
            if os.environ.get('DUMP'):
                p = '/tmp/devdump_%d.smt2' % nd; nd += 1
                open(p, 'w').write("(set-logic ALL)\n" + solve.to_smt2(ob)); print("     dumped", p)
            if os.environ.get('MODEL') and x.get('model'):
                print("     ", {k: v for k, v in x['model'].items() if k.startswith('arg_')})
        elif os.environ.get('ALL'):
            print("  ok       %s x%d max %.1fs" % (name, a['n'], a['t']))
    print("   discharge %.1fs, %d names, %d not discharged" % (time.time() - t, len([a for a in agg.values() if a['kind'] not in ('canary', 'known-region')]),
          len([1 for a in agg.values() if a['kind'] not in ('canary', 'known-region') and set(a['v']) - {'unsat'}])), flush=True)
