"""developer tool: apply small hand-made mutants (one at a time) to the scratch worktrees /tmp/seed/Cxx and run the check
against them; prints the exit code (1 = VIOLATION = detected, 2 = undecided = NOT detected, 0 = not detected)."""
import subprocess, sys, os
HERE = os.path.dirname(os.path.dirname(os.path.abspath(__file__)))
M = [
 # (property, name, file, old, new, --only filter)
 ("C10", "place_appends_duplicates", "flumine/strategy/runnercontext.py", "        if trade_id not in self.live_trades:\n            self.live_trades.append(trade_id)", "        self.live_trades.append(trade_id)", "RunnerContext.place"),
 ("C10", "reset_removes_from_trades", "flumine/strategy/runnercontext.py", "            self.live_trades.remove(trade_id)", "            self.trades.remove(trade_id)", "RunnerContext.reset"),
 ("C10", "validate_order_eq_to_gt", "flumine/strategy/strategy.py", "            (runner_context.live_trade_count == self.max_live_trade_count)\n            and (order.trade.id not in runner_context.live_trades)", "            (runner_context.live_trade_count > self.max_live_trade_count)\n            and (order.trade.id not in runner_context.live_trades)", "validate_order"),
 ("C10", "order_status_ignores_own_completeness", "flumine/order/order.py", "        if self.complete and self.trade.complete and status != OrderStatus.VIOLATION:", "        if self.trade.complete and status != OrderStatus.VIOLATION:", "BaseOrder._update_status"),
 ("C10", "exit_does_not_restore_live_through_update_status", "flumine/order/trade.py", "        if exc_tb is None:\n            self._update_status(TradeStatus.LIVE)", "        if exc_tb is None:\n            self.status = TradeStatus.LIVE", "Trade.__exit__"),
 ("C10", "complete_trade_does_not_reset_context", "flumine/order/trade.py", "        runner_context.reset(self.id)", "        pass", "Trade.complete_trade"),
 ("C15", "drop_client_view_append", "flumine/markets/blotter.py", "        self._client_orders[client].append(order)", "        pass", "Blotter.__setitem__"),
 ("C15", "selection_view_keyed_without_handicap", "flumine/markets/blotter.py", "            (strategy, order.selection_id, order.handicap)\n        ].append(order)", "            (strategy, order.selection_id, 0.0)\n        ].append(order)", "Blotter.__setitem__"),
 ("C15", "complete_order_pops_last", "flumine/markets/blotter.py", "        self._live_orders.remove(order)", "        self._live_orders.pop()", "Blotter.complete_order"),
 ("C15", "get_order_swallows_wrong_exception", "flumine/markets/markets.py", "            return self.markets[market_id].blotter[order_id]\n        except KeyError:", "            return self.markets[market_id].blotter[order_id]\n        except IndexError:", "Markets.get_order"),
 ("C15", "matched_only_filter_ge_zero", "flumine/markets/blotter.py", "        orders = self._strategy_orders[strategy]\n        if order_status:\n            orders = [o for o in orders if o.status in order_status]\n        if matched_only:\n            orders = [o for o in orders if o.size_matched > 0]", "        orders = self._strategy_orders[strategy]\n        if order_status:\n            orders = [o for o in orders if o.status in order_status]\n        if matched_only:\n            orders = [o for o in orders if o.size_matched >= 0]", "Blotter.strategy_orders"),
 ("C15", "place_order_files_under_wrong_key", "flumine/execution/transaction.py", "            self.market.blotter[order.id] = order", "            self.market.blotter[order.trade.id] = order", "Transaction.place_order"),
 ("C20", "open_market_keeps_orders_cleared", "flumine/markets/market.py", "        self.closed = False\n        self.orders_cleared = []\n        self.market_cleared = []", "        self.closed = False\n        self.market_cleared = []", "Market.open_market"),
 ("C20", "add_market_does_not_reopen", "flumine/markets/markets.py", "            self._markets[market_id].open_market()", "            pass", "Markets.add_market"),
 ("C20", "remove_market_keeps_registry_entry", "flumine/markets/markets.py", "        del self._markets[market_id]\n", "", "Markets.remove_market"),
 ("C20", "call_keeps_the_old_book", "flumine/markets/market.py", "            self.update_market_catalogue = True\n        self.market_book = market_book", "            self.update_market_catalogue = True\n            self.market_book = market_book", "Market.__call__"),
 ("C20", "new_writer_of_closed_flag", "flumine/markets/markets.py", "        market = self._markets[market_id]\n        market.close_market()", "        market = self._markets[market_id]\n        market.closed = True\n        market.close_market()", ""),
]
sel = sys.argv[1:] 
for prop, name, f, old, new, only in M:
    if sel and prop not in sel and name not in sel:
        continue
    wt = "/tmp/seed/%s" % prop
    subprocess.run(["git", "-C", wt, "checkout", "-q", "--", "flumine"], check=True)
    p = os.path.join(wt, f); s = open(p).read()
    assert old in s, (name, "pattern not found")
    open(p, "w").write(s.replace(old, new, 1))
    cmd = [os.path.join(HERE, "check"), prop, "--repo", wt, "--no-evidence", "-v"] + (["--only", only] if only else [])
    r = subprocess.run(cmd, capture_output=True, text=True, env=dict(os.environ, PYVC_JOBS="4"))
    lines = [l for l in r.stdout.splitlines() if l.startswith(("VIOLATION", "UNDECIDED", "  FAILED", "  UNDECIDED", "ENGINE"))]
    print("%s %-48s exit %d  %s" % (prop, name, r.returncode, "DETECTED" if r.returncode == 1 else "not detected"), flush=True)
    for l in lines[:4]:
        print("      " + l[:230], flush=True)
    subprocess.run(["git", "-C", wt, "checkout", "-q", "--", "flumine"], check=True)
