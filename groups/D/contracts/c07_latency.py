"""C07 - simulated latency and bet delay: no look-ahead and no free speed (flumine/simulation/simulation.py,
flumine/order/orderpackage.py, flumine/events/events.py, flumine/simulation/utils.py).

Datetimes are REAL seconds; the simulated clock is the module variable flumine.config.current_time
(`datetime.datetime.utcnow()` while the simulation has patched datetime.datetime: clock(...) declaration).

A request (order package) k made at k._time_created with k.simulated_delay is DUE at an update of market m processed
at clock time `now` iff  k.market_id == m  and  now - k._time_created > k.simulated_delay   (strictly: "more than the
configured latency").  Ghost field BaseOrderPackage.sim_handled counts the times the package was handed to the
execution handler (written only by the assumed contract of the handler call).
"""

clock("flumine.config", "current_time")

schema(
    "BaseEvent",
    _time_created=REAL,
    exchange=ATOM,
    event=Opt(ListOf(Ref("MarketBook"))),  # MarketBookEvent: the list of books of one update; None for order packages
)
schema(
    "BaseOrderPackage",
    client=Ref("BaseClient"),
    market_id=ATOM,
    _orders=ListOf(Ref("BetfairOrder")),  # Betfair / simulated packages hold BetfairOrder objects; the element class also keeps the package's private list apart from the BaseOrder lists of trades and blotters (typed frames)
    package_type=ATOM,
    async_=BOOL,
    _market_version=Opt(INT),
    customer_strategy_ref=ATOM,
    _retry=BOOL,
    _max_retries=INT,
    _retry_count=INT,
    processed=BOOL,
    bet_delay=REAL,
    simulated_delay=Opt(REAL),
    EXCHANGE=ATOM,
    sim_handled=INT,  # GHOST: number of times handed to client.execution.handler
)
schema("BaseExecution", flumine=Ref("BaseFlumine"), EXCHANGE=ATOM, _bet_id=INT)
schema("FlumineSimulation", handler_queue=ListOf(Ref("BaseOrderPackage")), simulated_datetime=Ref("SimulatedDateTime"))
schema("SimulatedDateTime", _real_datetime=Opt(ATOM))

inline("flumine/events/events.py::BaseEvent.elapsed_seconds")


# ----------------------------------------------------------------------------- the delay of a request (statement: "the configured
# latency (plus the market's bet delay for placements and replacements)")
def latency_of(kind):
    if kind == OrderPackageType.PLACE:
        return module_attr("flumine.config", "place_latency")
    if kind == OrderPackageType.CANCEL:
        return module_attr("flumine.config", "cancel_latency")
    if kind == OrderPackageType.UPDATE:
        return module_attr("flumine.config", "update_latency")
    return module_attr("flumine.config", "replace_latency")


def bet_delay_applies(kind):
    return kind == OrderPackageType.PLACE or kind == OrderPackageType.REPLACE


def known_kind(kind):
    return (kind == OrderPackageType.PLACE or kind == OrderPackageType.CANCEL or kind == OrderPackageType.UPDATE
            or kind == OrderPackageType.REPLACE)


def due(k, market_id, t):
    """the request takes effect at an update of market_id processed at clock time t"""
    return k.market_id == market_id and k.simulated_delay is not None and t - k._time_created > k.simulated_delay


@contract("flumine/order/orderpackage.py::BaseOrderPackage.calc_simulated_delay", tags=["C07"])
def _(self) -> Opt(REAL):
    requires("known_request_kind", known_kind(self.package_type))
    ensures("latency_plus_bet_delay_for_place_and_replace",
            implies(self.client.execution.EXCHANGE == ExchangeType.SIMULATED,
                    result is not None and result == latency_of(self.package_type) + (self.bet_delay if bet_delay_applies(self.package_type) else 0)))
    ensures("only_simulated_requests_are_delayed", implies(self.client.execution.EXCHANGE != ExchangeType.SIMULATED, result is None))


@contract("flumine/events/events.py::BaseEvent.elapsed_seconds", tags=["C07"])
def _(self) -> REAL:
    ensures("simulated_time_since_the_request", result == now() - self._time_created)


@contract("flumine/events/events.py::BaseEvent.__init__", tags=["C07"])
def _(self, event: Opt(ListOf(Ref("MarketBook"))), exchange: ATOM):
    modifies(self, "_time_created")
    modifies(self, "event")
    modifies(self, "exchange")
    ensures("request_time_is_the_simulated_clock", self._time_created == now())


# ----------------------------------------------------------------------------- the simulated clock
@contract("flumine/simulation/utils.py::SimulatedDateTime.__call__", tags=["C07", "C14"])
def _(self, pt: REAL):
    modifies_module("flumine.config", "current_time")
    ensures("clock_is_the_publish_time", now() == pt)


@contract("flumine/simulation/utils.py::NewDateTime.utcnow", tags=["C07", "C14"])
def _(cls: ATOM) -> REAL:
    ensures("patched_utcnow_reads_the_simulated_clock", result == now())


# ----------------------------------------------------------------------------- the execution handler as an event (assumed)
@contract("flumine/execution/baseexecution.py::BaseExecution.handler", tags=["C07-assumed"])
def _(self, order_package: Ref("BaseOrderPackage")):
    trusted("stands for the dynamically dispatched execution handler (SimulatedExecution.handler in a simulation): its effect "
            "on orders/trades/blotter is the subject of C12/C03; for C07 it is the EVENT 'the request takes effect now' "
            "(ghost counter sim_handled) and it writes neither the pending queue, nor the clock, nor any Market.market_book")
    requires("no_free_speed", implies(self.EXCHANGE == ExchangeType.SIMULATED,
                                      order_package.simulated_delay is not None and now() - order_package._time_created > order_package.simulated_delay))
    modifies(order_package, "sim_handled")
    ensures("handled_once_more", order_package.sim_handled == old(order_package.sim_handled) + 1)


# ----------------------------------------------------------------------------- the pending queue
def distinct_queue(q):
    return forall_int(lambda a, b: implies(0 <= a and a < b and b < len(q), q[a] != q[b]))


def in_list(lst, x, n):
    return exists(lambda j: lst[j] == x, 0, n)


@contract("flumine/simulation/simulation.py::FlumineSimulation.process_order_package", tags=["C07"])
def _(self, order_package: Ref("BaseOrderPackage")):
    modifies_list(self.handler_queue)
    ensures("request_only_joins_the_pending_queue", len(self.handler_queue) == old(len(self.handler_queue)) + 1
            and self.handler_queue[len(self.handler_queue) - 1] == order_package
            and forall(lambda j: self.handler_queue[j] == old(self.handler_queue[j]), 0, old(len(self.handler_queue))))
    # frame: sim_handled of every package unchanged => the request does NOT take effect inside the requesting callback


@contract("flumine/simulation/simulation.py::FlumineSimulation._check_pending_packages", tags=["C07"])
def _(self, market_id: ATOM):
    requires("queue_holds_each_request_once", distinct_queue(self.handler_queue))
    requires("queued_requests_are_simulated", forall(lambda j: self.handler_queue[j].simulated_delay is not None, 0, len(self.handler_queue)))
    local(processed=ListOf(Ref("BaseOrderPackage")))
    modifies_list(self.handler_queue)
    modifies_all("BaseOrderPackage.sim_handled")
    # loop 0: scan of the pending queue in queue order
    invariant(0, "queue_untouched_by_scan", len(self.handler_queue) == old(len(self.handler_queue))
              and forall(lambda j: self.handler_queue[j] == old(self.handler_queue[j]), 0, len(self.handler_queue)))
    invariant(0, "due_requests_so_far_handled_exactly_once", forall(
        lambda j: self.handler_queue[j].sim_handled == old(self.handler_queue[j].sim_handled) + (1 if (j < _i0 and due(self.handler_queue[j], market_id, now())) else 0),
        0, len(self.handler_queue)))
    invariant(0, "nothing_else_handled", forall_ref(lambda p: implies(not in_list(self.handler_queue, p, len(self.handler_queue)), p.sim_handled == old(p.sim_handled)), "BaseOrderPackage"))
    invariant(0, "processed_is_the_due_prefix", forall(lambda j: in_list(processed, self.handler_queue[j], len(processed)) == (j < _i0 and due(self.handler_queue[j], market_id, now())), 0, len(self.handler_queue))
              and forall(lambda a: in_list(self.handler_queue, processed[a], _i0), 0, len(processed))
              and distinct_queue(processed))
    # loop 1: the handled requests leave the queue
    invariant(1, "removed_so_far_are_the_first_processed", forall(
        lambda j: in_list(self.handler_queue, old(self.handler_queue[j]), len(self.handler_queue)) == (not in_list(processed, old(self.handler_queue[j]), _i1)),
        0, old(len(self.handler_queue))))
    invariant(1, "queue_only_shrinks", forall(lambda a: old(in_list(self.handler_queue, self.handler_queue[a], len(self.handler_queue))), 0, len(self.handler_queue))
              and distinct_queue(self.handler_queue))
    ensures("due_requests_leave_the_queue_all_others_stay", forall(
        lambda j: in_list(self.handler_queue, old(self.handler_queue[j]), len(self.handler_queue)) == (not old(due(self.handler_queue[j], market_id, now()))),
        0, old(len(self.handler_queue))))
    ensures("queue_only_shrinks", forall(lambda a: old(in_list(self.handler_queue, self.handler_queue[a], len(self.handler_queue))), 0, len(self.handler_queue))
            and distinct_queue(self.handler_queue))
    ensures("due_requests_take_effect_exactly_once_others_not", forall(
        lambda j: old(self.handler_queue[j]).sim_handled == old(self.handler_queue[j].sim_handled) + (1 if old(due(self.handler_queue[j], market_id, now())) else 0),
        0, old(len(self.handler_queue))))
    ensures("requests_outside_the_queue_untouched", forall_ref(lambda p: implies(not old(in_list(self.handler_queue, p, len(self.handler_queue))), p.sim_handled == old(p.sim_handled)), "BaseOrderPackage"))
