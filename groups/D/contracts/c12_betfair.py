"""C12 - BetfairExecution (flumine/execution/betfairexecution.py): the live handlers against an ASSUMED contract of the
exchange API (betfairlightweight `betting.place_orders / cancel_orders / update_orders / replace_orders`, A7 / I-11).

Assumed API contract (written from the exchange documentation, not from the handlers):
  * a call either raises a BetfairError (transport / API error; nothing is known about its effect), or is ANSWERED;
  * an answered call carries one report per instruction sent, in instruction order, each with status SUCCESS / FAILURE /
    TIMEOUT (place, update, replace);  cancel reports may be re-ordered or missing and carry instruction.bet_id;
  * an answered call may instead be rejected AS A WHOLE (report-level errorCode such as DUPLICATE_TRANSACTION /
    TOO_MANY_INSTRUCTIONS, empty instruction report list).  Whether that happens is decided by the exchange: oracle field
    BettingEndpoint.rejects_whole_request (assumption: not changed by anything flumine does).
Ghost counters of the endpoint: calls_received (every call), calls_answered (calls that returned).
"""

schema("BaseClient", betting_client=Ref("APIClient"))
schema("APIClient", betting=Ref("BettingEndpoint"))
schema("BettingEndpoint", rejects_whole_request=BOOL, calls_received=INT, calls_answered=INT)
schema("APIResponse", status=ATOM, error_code=Opt(ATOM),
       place_instruction_reports=ListOf(Ref("InstructionReport")), cancel_instruction_reports=ListOf(Ref("InstructionReport")),
       update_instruction_reports=ListOf(Ref("InstructionReport")), replace_instruction_reports=ListOf(Ref("ReplaceInstructionReport")))
schema("BetfairExecution", flumine=Ref("BaseFlumine"), EXCHANGE=ATOM, _sessions=ListOf(Ref("Session")), _max_workers=INT)
inline("flumine/order/orderpackage.py::BaseOrderPackage.market_version")


def report_status_ok(s):
    return s == "SUCCESS" or s == "FAILURE" or s == "TIMEOUT"


def endpoint(op):
    return op.client.betting_client.betting


def one_report_per_instruction(reports, n, rejected):
    """answered: one report per instruction in order - or none at all when the request is rejected as a whole"""
    return len(reports) == (0 if rejected else n) and forall(lambda j: report_status_ok(reports[j].status), 0, len(reports))


def one_replace_report_per_instruction(reports, n, rejected):
    return len(reports) == (0 if rejected else n) and forall(
        lambda j: report_status_ok(reports[j].cancel_instruction_reports.status) and report_status_ok(reports[j].place_instruction_reports.status), 0, len(reports))


# ----------------------------------------------------------------------------- the assumed API
@virtual("BettingEndpoint", "place_orders", tags=["C12-assumed"], allocates=True)
def _(self, market_id: ATOM, instructions: ListOf(Ref("PlaceInstruction")), customer_ref: ATOM, market_version, customer_strategy_ref: ATOM, async_: BOOL, session) -> Ref("APIResponse"):
    modifies(self, "calls_received")
    modifies(self, "calls_answered")
    raises(BetfairError, label="transport_or_api_error", modifies=[(self, "calls_received")], ensures=self.calls_received == old(self.calls_received) + 1)
    ensures("counted", self.calls_received == old(self.calls_received) + 1 and self.calls_answered == old(self.calls_answered) + 1)
    ensures("new_response", fresh(result) and fresh(result.place_instruction_reports)
            and forall(lambda j: fresh(result.place_instruction_reports[j]), 0, len(result.place_instruction_reports)))
    ensures("one_report_per_instruction", one_report_per_instruction(result.place_instruction_reports, len(instructions), self.rejects_whole_request))


@virtual("BettingEndpoint", "update_orders", tags=["C12-assumed"], allocates=True)
def _(self, market_id: ATOM, instructions: ListOf(Rec(betId=Opt(ATOM), newPersistenceType=Opt(ATOM))), customer_ref: ATOM, session) -> Ref("APIResponse"):
    modifies(self, "calls_received")
    modifies(self, "calls_answered")
    raises(BetfairError, label="transport_or_api_error", modifies=[(self, "calls_received")], ensures=self.calls_received == old(self.calls_received) + 1)
    ensures("counted", self.calls_received == old(self.calls_received) + 1 and self.calls_answered == old(self.calls_answered) + 1)
    ensures("new_response", fresh(result) and fresh(result.update_instruction_reports))
    ensures("one_report_per_instruction", one_report_per_instruction(result.update_instruction_reports, len(instructions), self.rejects_whole_request))


@virtual("BettingEndpoint", "replace_orders", tags=["C12-assumed"], allocates=True)
def _(self, market_id: ATOM, instructions: ListOf(Rec(betId=Opt(ATOM), newPrice=Opt(REAL))), customer_ref: ATOM, market_version, async_: BOOL, session) -> Ref("APIResponse"):
    modifies(self, "calls_received")
    modifies(self, "calls_answered")
    raises(BetfairError, label="transport_or_api_error", modifies=[(self, "calls_received")], ensures=self.calls_received == old(self.calls_received) + 1)
    ensures("counted", self.calls_received == old(self.calls_received) + 1 and self.calls_answered == old(self.calls_answered) + 1)
    ensures("new_response", fresh(result) and fresh(result.replace_instruction_reports))
    ensures("one_report_per_instruction", one_replace_report_per_instruction(result.replace_instruction_reports, len(instructions), self.rejects_whole_request))


# ----------------------------------------------------------------------------- the four trading functions (verified against the API)
def answered_place(r, op):
    return one_report_per_instruction(r.place_instruction_reports, len(pkg(op)), endpoint(op).rejects_whole_request)


@contract("flumine/execution/betfairexecution.py::BetfairExecution.place", tags=["C12"], allocates=True)
def _(self, order_package: Ref("BaseOrderPackage"), session: Opt(Ref("Session"))) -> Ref("APIResponse"):
    modifies(endpoint(order_package), "calls_received")
    modifies(endpoint(order_package), "calls_answered")
    raises(BetfairError, label="transport_or_api_error", modifies=[(endpoint(order_package), "calls_received")],
           ensures=endpoint(order_package).calls_received == old(endpoint(order_package).calls_received) + 1)
    ensures("one_call", endpoint(order_package).calls_received == old(endpoint(order_package).calls_received) + 1
            and endpoint(order_package).calls_answered == old(endpoint(order_package).calls_answered) + 1)
    ensures("new_response", fresh(result) and fresh(result.place_instruction_reports))
    ensures("answered", old(answered_place(result, order_package)))


def answered_update(r, op):
    return one_report_per_instruction(r.update_instruction_reports, len(pkg(op)), endpoint(op).rejects_whole_request)


def answered_replace(r, op):
    return one_replace_report_per_instruction(r.replace_instruction_reports, len(live_pkg(op)), endpoint(op).rejects_whole_request)


@contract("flumine/execution/betfairexecution.py::BetfairExecution.update", tags=["C12"], allocates=True)
def _(self, order_package: Ref("BaseOrderPackage"), session: Opt(Ref("Session"))) -> Ref("APIResponse"):
    modifies(endpoint(order_package), "calls_received")
    modifies(endpoint(order_package), "calls_answered")
    raises(BetfairError, label="transport_or_api_error", modifies=[(endpoint(order_package), "calls_received")],
           ensures=endpoint(order_package).calls_received == old(endpoint(order_package).calls_received) + 1)
    ensures("one_call", endpoint(order_package).calls_received == old(endpoint(order_package).calls_received) + 1
            and endpoint(order_package).calls_answered == old(endpoint(order_package).calls_answered) + 1)
    ensures("new_response", fresh(result) and fresh(result.update_instruction_reports))
    ensures("answered", old(answered_update(result, order_package)))


@contract("flumine/execution/betfairexecution.py::BetfairExecution.replace", tags=["C12"], allocates=True)
def _(self, order_package: Ref("BaseOrderPackage"), session: Opt(Ref("Session"))) -> Ref("APIResponse"):
    modifies(endpoint(order_package), "calls_received")
    modifies(endpoint(order_package), "calls_answered")
    raises(BetfairError, label="transport_or_api_error", modifies=[(endpoint(order_package), "calls_received")],
           ensures=endpoint(order_package).calls_received == old(endpoint(order_package).calls_received) + 1)
    ensures("one_call", endpoint(order_package).calls_received == old(endpoint(order_package).calls_received) + 1
            and endpoint(order_package).calls_answered == old(endpoint(order_package).calls_answered) + 1)
    ensures("new_response", fresh(result) and fresh(result.replace_instruction_reports))
    ensures("answered", old(answered_replace(result, order_package)))


# ----------------------------------------------------------------------------- _execution_helper: one attempt, retry within the budget, reset on exhaustion
@virtual("TradingFunction", "__call__", tags=["C12-assumed"], allocates=True)
def _(self, order_package: Ref("BaseOrderPackage"), session: Opt(Ref("Session"))) -> Ref("APIResponse"):
    # the callable handed to _execution_helper is self.place / self.cancel / self.update / self.replace of the matching
    # execute_* (each verified above against the API): their common contract, keyed by the package type
    modifies(endpoint(order_package), "calls_received")
    modifies(endpoint(order_package), "calls_answered")
    raises(BetfairError, label="transport_or_api_error", modifies=[(endpoint(order_package), "calls_received")],
           ensures=endpoint(order_package).calls_received == old(endpoint(order_package).calls_received) + 1)
    ensures("one_call", endpoint(order_package).calls_received == old(endpoint(order_package).calls_received) + 1
            and endpoint(order_package).calls_answered == old(endpoint(order_package).calls_answered) + 1)
    ensures("new_response", fresh(result) and fresh(result.place_instruction_reports) and fresh(result.update_instruction_reports)
            and fresh(result.replace_instruction_reports) and fresh(result.cancel_instruction_reports))
    ensures("answered", old(answered(result, order_package)))


def answered(r, op):
    return (implies(op.package_type == OrderPackageType.PLACE, answered_place(r, op))
            and implies(op.package_type == OrderPackageType.UPDATE, answered_update(r, op))
            and implies(op.package_type == OrderPackageType.REPLACE, answered_replace(r, op)))


@contract("flumine/execution/baseexecution.py::BaseExecution._return_http_session", tags=["C12-assumed"])
def _(self, http_session: Opt(Ref("Session")), err: BOOL = False):
    trusted("http session pool bookkeeping (time.time(), requests.Session): outside the property; assumed to write only the pool")
    modifies_all_lists_of(Ref("Session"))
    modifies_all("Session.time_returned")


schema("Session", time_returned=REAL, time_created=REAL)


def reset_status(op):
    return OrderStatus.EXECUTION_COMPLETE if op.package_type == OrderPackageType.PLACE else OrderStatus.EXECUTABLE


def budget_ok(op):
    return 0 <= op._retry_count and op._retry_count <= op._max_retries


def orders_untouched():
    return forall_ref(lambda o: o.status == old(o.status) and o.complete == old(o.complete) and o.bet_id == old(o.bet_id)
                      and o.responses.place_response == old(o.responses.place_response), "BaseOrder")


def trades_untouched():
    return forall_ref(lambda t: t.status == old(t.status), "Trade")


@contract("flumine/execution/betfairexecution.py::BetfairExecution._execution_helper", tags=["C12"], allocates=True)
def _(self, trading_function: Ref("TradingFunction"), order_package: Ref("BaseOrderPackage"), http_session: Opt(Ref("Session"))) -> Opt(Ref("APIResponse")):
    requires("live_exchange", self.EXCHANGE == ExchangeType.BETFAIR)
    requires("known_kind", is_kind(order_package.package_type))
    requires("budget_invariant", budget_ok(order_package))
    requires("package_orders_distinct", distinct_list(order_package._orders))
    requires("no_response_being_applied", trades_not_pending(order_package._orders))
    modifies(order_package, "_retry_count")
    modifies(order_package, "sim_handled")
    modifies(endpoint(order_package), "calls_received")
    modifies(endpoint(order_package), "calls_answered")
    modifies_all("BaseOrder.status")
    modifies_all("BaseOrder.complete")
    modifies_all("BaseOrder.date_time_status_update")
    modifies_all("BaseOrder.date_time_execution_complete")
    modifies_all("UpdateData.size_reduction")
    modifies_all("UpdateData.new_price")
    modifies_all("Trade.status")
    modifies_all("Trade.date_time_complete")
    modifies_all("RunnerContext.datetime_last_reset")
    modifies_all("Session.time_returned")
    modifies_all_lists_of(ATOM)
    modifies_all_lists_of(Ref("Session"))
    modifies_all_maps()
    ensures("at_most_one_call_per_attempt", endpoint(order_package).calls_received - old(endpoint(order_package).calls_received)
            == (1 if old(len(pkg(order_package))) > 0 else 0))
    ensures("answered_iff_a_response_is_returned", endpoint(order_package).calls_answered - old(endpoint(order_package).calls_answered)
            == (1 if result is not None else 0))
    ensures("answer_is_well_formed_and_nothing_else_happened", implies(
        result is not None, old(answered(result, order_package)) and old(len(pkg(order_package))) > 0 and orders_untouched() and trades_untouched()
        and order_package._retry_count == old(order_package._retry_count) and order_package.sim_handled == old(order_package.sim_handled)))
    ensures("new_response", implies(result is not None, fresh(result) and fresh(result.place_instruction_reports) and fresh(result.update_instruction_reports)
                                    and fresh(result.replace_instruction_reports) and fresh(result.cancel_instruction_reports)))
    ensures("retry_budget", budget_ok(order_package) and (order_package._retry_count == old(order_package._retry_count)
                                                          or order_package._retry_count == old(order_package._retry_count) + 1))
    ensures("resubmitted_exactly_when_a_retry_was_granted", order_package.sim_handled - old(order_package.sim_handled)
            == (1 if order_package._retry_count == old(order_package._retry_count) + 1 else 0))
    ensures("a_retry_is_only_granted_after_an_api_error", implies(order_package._retry_count == old(order_package._retry_count) + 1,
                                                                 result is None and orders_untouched() and trades_untouched()
                                                                 and endpoint(order_package).calls_received == old(endpoint(order_package).calls_received) + 1))
    ensures("empty_package_is_not_sent", implies(old(len(pkg(order_package))) == 0, result is None and orders_untouched() and trades_untouched()
                                                 and order_package._retry_count == old(order_package._retry_count)))
    ensures("retries_exhausted_every_order_is_reset", implies(
        result is None and old(len(pkg(order_package))) > 0 and order_package._retry_count == old(order_package._retry_count),
        forall(lambda j: old(pkg(order_package))[j].status == reset_status(order_package), 0, len(old(pkg(order_package))))
        and (not order_package._retry or old(order_package._retry_count) >= order_package._max_retries)))
    ensures("other_orders_untouched", forall_ref(lambda o: implies(not in_list12(old(pkg(order_package)), o, len(old(pkg(order_package)))), o.status == old(o.status)), "BaseOrder"))
    ensures("no_trade_left_pending", forall_ref(lambda t: implies(old(t.status) != TradeStatus.PENDING, t.status != TradeStatus.PENDING), "Trade"))


# ----------------------------------------------------------------------------- execute_place
inline("flumine/order/order.py::BaseOrder.current_order")


def calls_answered_delta(op):
    return endpoint(op).calls_answered - old(endpoint(op).calls_answered)


def place_report_applied(o):
    """the order's status after its own placement report r (recorded in o.responses.place_response) was applied:
    EXECUTABLE / EXECUTION_COMPLETE, or still PENDING only when the exchange may yet have accepted the bet (async PENDING, TIMEOUT)"""
    return ((o.status == old(o.status) if o.responses.place_response.order_status == "PENDING"
             else (o.status == OrderStatus.EXECUTION_COMPLETE if o.responses.place_response.order_status == "EXPIRED" else o.status == OrderStatus.EXECUTABLE))
            if o.responses.place_response.status == "SUCCESS"
            else (o.status == OrderStatus.EXECUTION_COMPLETE if o.responses.place_response.status == "FAILURE" else o.status == old(o.status)))


def live_common_pre(ex, op):
    return (ex.EXCHANGE == ExchangeType.BETFAIR and is_kind(op.package_type) and budget_ok(op) and distinct_list(op._orders) and trades_not_pending(op._orders)
            and distinct_controls(op.client) and forall(lambda j: not op._orders[j]._simulated, 0, len(op._orders))
            and forall_ref(lambda a, b: implies(a != b, a.responses != b.responses), "BaseOrder"))  # each order has its own Responses object (BaseOrder.__init__)


@contract("flumine/execution/betfairexecution.py::BetfairExecution.execute_place", tags=["C12", "C18"])
def _(self, order_package: Ref("BaseOrderPackage"), http_session: Opt(Ref("Session"))):
    requires("place_package", order_package.package_type == OrderPackageType.PLACE)
    requires("live_step", live_common_pre(self, order_package))
    requires("orders_not_yet_acknowledged", forall(lambda j: order_package._orders[j].responses.place_response is None, 0, len(order_package._orders)))
    modifies(order_package, "_retry_count")
    modifies(order_package, "sim_handled")
    modifies(endpoint(order_package), "calls_received")
    modifies(endpoint(order_package), "calls_answered")
    modifies_all("BaseOrder.status")
    modifies_all("BaseOrder.complete")
    modifies_all("BaseOrder.bet_id")
    modifies_all("BaseOrder.date_time_status_update")
    modifies_all("BaseOrder.date_time_execution_complete")
    modifies_all("UpdateData.size_reduction")
    modifies_all("UpdateData.new_price")
    modifies_all("Trade.status")
    modifies_all("Trade.date_time_complete")
    modifies_all("RunnerContext.datetime_last_reset")
    modifies_all("Responses.place_response")
    modifies_all("Responses._date_time_placed")
    modifies_all("size_remaining")  # order.current_order.size_remaining = 0.0 on the exchange record of a failed placement
    modifies_all("Session.time_returned")
    modifies_all("MaxTransactionCount.transaction_count")
    modifies_all("MaxTransactionCount.current_transaction_count")
    modifies_all("MaxTransactionCount.failed_transaction_count")
    modifies_all("MaxTransactionCount.current_failed_transaction_count")
    modifies_all_lists_of(ATOM)
    modifies_all_lists_of(Ref("Session"))
    modifies_all_lists_of(Ref("RecordedReport"))
    modifies_all_maps()
    invariant(0, "report_j_applied_to_order_j", forall(
        lambda j: old(pkg(order_package))[j].responses.place_response == response.place_instruction_reports[j] and place_report_applied(old(pkg(order_package))[j]), 0, _i0))
    invariant(0, "other_orders_untouched", forall_ref(
        lambda o: implies(not in_list12(old(pkg(order_package)), o, _i0), o.status == old(o.status) and o.responses.place_response == old(o.responses.place_response)), "BaseOrder"))
    invariant(0, "no_trade_left_pending", forall_ref(lambda t: implies(old(t.status) != TradeStatus.PENDING, t.status != TradeStatus.PENDING), "Trade"))
    invariant(0, "nothing_charged_yet", forall_ref(
        lambda c: c.transaction_count == old(c.transaction_count) and c.current_transaction_count == old(c.current_transaction_count)
        and c.failed_transaction_count == old(c.failed_transaction_count) and c.current_failed_transaction_count == old(c.current_failed_transaction_count),
        "MaxTransactionCount"))
    ensures("every_order_can_progress_or_may_yet_be_accepted", forall(lambda j: place_outcome_ok(old(pkg(order_package))[j], order_package), 0, len(old(pkg(order_package)))))
    ensures("other_orders_untouched", forall_ref(lambda o: implies(not in_list12(old(pkg(order_package)), o, len(old(pkg(order_package)))), o.status == old(o.status)), "BaseOrder"))
    ensures("no_trade_left_pending", forall_ref(lambda t: implies(old(t.status) != TradeStatus.PENDING, t.status != TradeStatus.PENDING), "Trade"))
    ensures("retried_within_the_budget", budget_ok(order_package) and order_package.sim_handled - old(order_package.sim_handled)
            == (1 if order_package._retry_count == old(order_package._retry_count) + 1 else 0)
            and endpoint(order_package).calls_received - old(endpoint(order_package).calls_received) <= 1)
    ensures("charged_the_bets_submitted_when_answered", charged_exactly(order_package.client, old(len(pkg(order_package))) * calls_answered_delta(order_package), 0))


def place_outcome_ok(o, op):
    """after the step: the answer was applied to the order; or the request is in flight again (retry); or it was given up
    (budget exhausted) and the order completed"""
    return ((calls_answered_delta(op) == 1 and o.responses.place_response is not None and place_report_applied(o))
            or (calls_answered_delta(op) == 0 and op._retry_count == old(op._retry_count) + 1 and o.status == old(o.status))
            or (calls_answered_delta(op) == 0 and op._retry_count == old(op._retry_count) and o.status == OrderStatus.EXECUTION_COMPLETE))


# ----------------------------------------------------------------------------- execute_update
def own_parts():
    """objects own their parts (constructors create them): distinct orders have distinct Responses, distinct Responses have
    distinct report logs"""
    return (forall_ref(lambda a, b: implies(a != b, a.responses != b.responses), "BaseOrder")
            and forall_ref(lambda a, b: implies(a != b, a.update_responses is not b.update_responses and a.cancel_responses is not b.cancel_responses)
                           and a.cancel_responses is not b.update_responses, "Responses"))


def last_update_report(o):
    return as_class(o.responses.update_responses[len(o.responses.update_responses) - 1], "InstructionReport")


def update_failures_reported(op, n):
    """number of FAILURE reports among the update reports recorded on the first n orders of the package"""
    return sum_(lambda j: (1 if last_update_report(old(pkg(op))[j]).status == "FAILURE" else 0), 0, n)


def update_outcome_ok(o, op):
    return ((calls_answered_delta(op) == 1 and o.status == OrderStatus.EXECUTABLE)
            or (calls_answered_delta(op) == 0 and op._retry_count == old(op._retry_count) + 1 and o.status == old(o.status))
            or (calls_answered_delta(op) == 0 and op._retry_count == old(op._retry_count) and o.status == OrderStatus.EXECUTABLE))


@contract("flumine/execution/betfairexecution.py::BetfairExecution.execute_update", tags=["C12-wip", "C18-wip"])  # discharges when checked alone; two loop obligations time out in loaded full runs
def _(self, order_package: Ref("BaseOrderPackage"), http_session: Opt(Ref("Session"))):
    requires("update_package", order_package.package_type == OrderPackageType.UPDATE)
    requires("live_step", live_common_pre(self, order_package))
    requires("own_parts", own_parts())
    modifies(order_package, "_retry_count")
    modifies(order_package, "sim_handled")
    modifies(endpoint(order_package), "calls_received")
    modifies(endpoint(order_package), "calls_answered")
    modifies_all("BaseOrder.status")
    modifies_all("BaseOrder.complete")
    modifies_all("BaseOrder.bet_id")
    modifies_all("BaseOrder.date_time_status_update")
    modifies_all("BaseOrder.date_time_execution_complete")
    modifies_all("UpdateData.size_reduction")
    modifies_all("UpdateData.new_price")
    modifies_all("Trade.status")
    modifies_all("Trade.date_time_complete")
    modifies_all("RunnerContext.datetime_last_reset")
    modifies_all("Responses.place_response")
    modifies_all("Responses._date_time_placed")
    modifies_all("Session.time_returned")
    modifies_all("MaxTransactionCount.transaction_count")
    modifies_all("MaxTransactionCount.current_transaction_count")
    modifies_all("MaxTransactionCount.failed_transaction_count")
    modifies_all("MaxTransactionCount.current_failed_transaction_count")
    modifies_all_lists_of(ATOM)
    modifies_all_lists_of(Ref("Session"))
    modifies_all_lists_of(Ref("RecordedReport"))
    modifies_all_maps()
    invariant(0, "report_j_recorded_on_order_j", forall(
        lambda j: len(old(pkg(order_package))[j].responses.update_responses) >= 1
        and last_update_report(old(pkg(order_package))[j]) == response.update_instruction_reports[j], 0, _i0))
    invariant(0, "answered_orders_executable", forall(lambda j: old(pkg(order_package))[j].status == OrderStatus.EXECUTABLE, 0, _i0))
    invariant(0, "other_orders_untouched", forall_ref(lambda o: implies(not in_list12(old(pkg(order_package)), o, _i0), o.status == old(o.status)), "BaseOrder"))
    invariant(0, "no_trade_left_pending", forall_ref(lambda t: implies(old(t.status) != TradeStatus.PENDING, t.status != TradeStatus.PENDING), "Trade"))
    invariant(0, "failures_counted", failed_transaction_count == update_failures_reported(order_package, _i0))
    invariant(0, "nothing_charged_yet", forall_ref(
        lambda c: c.transaction_count == old(c.transaction_count) and c.current_transaction_count == old(c.current_transaction_count)
        and c.failed_transaction_count == old(c.failed_transaction_count) and c.current_failed_transaction_count == old(c.current_failed_transaction_count),
        "MaxTransactionCount"))
    ensures("every_order_can_progress", forall(lambda j: update_outcome_ok(old(pkg(order_package))[j], order_package), 0, len(old(pkg(order_package)))))
    ensures("other_orders_untouched", forall_ref(lambda o: implies(not in_list12(old(pkg(order_package)), o, len(old(pkg(order_package)))), o.status == old(o.status)), "BaseOrder"))
    ensures("no_trade_left_pending", forall_ref(lambda t: implies(old(t.status) != TradeStatus.PENDING, t.status != TradeStatus.PENDING), "Trade"))
    ensures("retried_within_the_budget", budget_ok(order_package) and order_package.sim_handled - old(order_package.sim_handled)
            == (1 if order_package._retry_count == old(order_package._retry_count) + 1 else 0)
            and endpoint(order_package).calls_received - old(endpoint(order_package).calls_received) <= 1)
    ensures("charged_the_failed_instructions_reported", charged_exactly(
        order_package.client, 0,
        (update_failures_reported(order_package, len(old(pkg(order_package))))
         if (calls_answered_delta(order_package) == 1 and not endpoint(order_package).rejects_whole_request) else 0)))
