"""C12 (base layer) - order / trade status setters, order package retry / reset / iteration (flumine/order/order.py,
flumine/order/trade.py, flumine/order/orderpackage.py).

"Can progress" (DESIGN section 6: the safety reading of C12): an order is not CANCELLING / UPDATING / REPLACING, a trade is
not PENDING.  The order-status LEGALITY of the individual transitions is C03's subject (group B); here the setters only
get the functional contracts the C12 loops need.
"""

clock("flumine.config", "current_time")
dispatch("BaseOrderPackage", "BetfairOrderPackage")  # Betdaq is outside C12 by the statement; simulated and Betfair clients use BetfairOrderPackage

schema("BaseStrategy", _invested=MapOf(Tup(ATOM, INT, REAL), Ref("RunnerContext")), name_hash=ATOM)
schema("RunnerContext", selection_id=INT, live_trades=ListOf(ATOM), datetime_last_reset=Opt(REAL), trades=ListOf(ATOM))
schema("UUID", hex=ATOM)
schema("BaseOrderPackage", id=Ref("UUID"))

inline(
    "flumine/order/order.py::BaseOrder._is_complete",
    "flumine/order/orderpackage.py::BaseOrderPackage.orders",
    "flumine/order/orderpackage.py::BaseOrderPackage.__iter__",
    "flumine/order/orderpackage.py::BaseOrderPackage.__len__",
    "flumine/order/orderpackage.py::BaseOrderPackage.retry_count",
    "flumine/order/orderpackage.py::BaseOrderPackage.date_time_created",
)

ST_EXECUTABLE = "OrderStatus.EXECUTABLE"


def is_complete_status(st):
    return st == OrderStatus.EXECUTION_COMPLETE or st == OrderStatus.EXPIRED or st == OrderStatus.VIOLATION


def in_flight(st):
    """transient states an order must not be left in once its request has been answered or given up"""
    return st == OrderStatus.CANCELLING or st == OrderStatus.UPDATING or st == OrderStatus.REPLACING


def can_progress(st):
    return st == OrderStatus.EXECUTABLE or st == OrderStatus.EXECUTION_COMPLETE


def trade_completes(t):
    """Trade.complete: live, no further orders announced, every order complete"""
    return t.status == TradeStatus.LIVE and not t.pending_orders and forall(lambda j: t.orders[j].complete, 0, len(t.orders))


def pkg(op):
    """the orders of a package as iterated by the handlers: BaseOrderPackage.orders"""
    return [o for o in op._orders if o.status != OrderStatus.VIOLATION]


# ----------------------------------------------------------------------------- assumed (C10's subject): strategy runner context
@contract("flumine/strategy/strategy.py::BaseStrategy.get_runner_context", tags=["C12-assumed"])
def _(self, market_id: ATOM, selection_id: INT, handicap: REAL) -> Ref("RunnerContext"):
    trusted("runner-context bookkeeping is C10's subject; assumed here: returns the (possibly new) context, writes only strategy._invested")
    modifies_all_maps()


@contract("flumine/strategy/runnercontext.py::RunnerContext.reset", tags=["C12-assumed"])
def _(self, trade_id: ATOM):
    trusted("runner-context bookkeeping is C10's subject; assumed here: writes only the context's own fields")
    modifies(self, "datetime_last_reset")
    modifies_list(self.live_trades)


# ----------------------------------------------------------------------------- Trade
@contract("flumine/order/trade.py::Trade.complete", tags=["C12", "C10"])
def _(self) -> BOOL:
    invariant(0, "all_complete_so_far", forall(lambda j: self.orders[j].complete, 0, _i0))
    ensures("complete_iff_live_and_all_orders_complete", result == trade_completes(self))


@contract("flumine/order/trade.py::Trade.complete_trade", tags=["C12", "C10"])
def _(self):
    modifies(self, "status")
    modifies(self, "date_time_complete")
    modifies_all("RunnerContext.datetime_last_reset")
    modifies_all_lists_of(ATOM)
    modifies_all_maps()
    ensures("trade_is_complete", self.status == TradeStatus.COMPLETE)


@contract("flumine/order/trade.py::Trade._update_status", tags=["C12", "C10"])
def _(self, status: ATOM):
    requires("a_trade_status", status == TradeStatus.PENDING or status == TradeStatus.LIVE or status == TradeStatus.COMPLETE)
    modifies(self, "status")
    modifies(self, "date_time_complete")
    modifies_all("RunnerContext.datetime_last_reset")
    modifies_all_lists_of(ATOM)
    modifies_all_maps()
    ensures("status_set_or_completed", self.status == (TradeStatus.COMPLETE if (status == TradeStatus.LIVE and not self.pending_orders
                                                                                and forall(lambda j: self.orders[j].complete, 0, len(self.orders))) else status))


@contract("flumine/order/trade.py::Trade.__enter__", tags=["C12", "C10"])
def _(self):
    modifies(self, "status")
    modifies(self, "date_time_complete")
    modifies_all("RunnerContext.datetime_last_reset")
    modifies_all_lists_of(ATOM)
    modifies_all_maps()
    ensures("pending_while_the_response_is_applied", self.status == TradeStatus.PENDING)


@contract("flumine/order/trade.py::Trade.__exit__", tags=["C12", "C10"])
def _(self, exc_type: Opt(ATOM), exc_val: Opt(ATOM), exc_tb: Opt(ATOM)):
    modifies(self, "status")
    modifies(self, "date_time_complete")
    modifies_all("RunnerContext.datetime_last_reset")
    modifies_all_lists_of(ATOM)
    modifies_all_maps()
    ensures("normal_exit_leaves_the_pending_state", implies(exc_tb is None, self.status == TradeStatus.LIVE or self.status == TradeStatus.COMPLETE))
    ensures("normal_exit_live_or_complete", implies(exc_tb is None, self.status == (TradeStatus.COMPLETE if (not self.pending_orders and forall(lambda j: self.orders[j].complete, 0, len(self.orders))) else TradeStatus.LIVE)))
    ensures("exceptional_exit_changes_nothing", implies(exc_tb is not None, self.status == old(self.status)))


# ----------------------------------------------------------------------------- BaseOrder status setters
def trade_effect(order):
    """a status update of an order touches its trade only when the trade is LIVE (it may then complete it); inside
    `with order.trade:` the trade is PENDING and is left alone"""
    return (implies(old(order.trade.status) != TradeStatus.LIVE, order.trade.status == old(order.trade.status))
            and (order.trade.status == old(order.trade.status) or order.trade.status == TradeStatus.COMPLETE))


@contract("flumine/order/order.py::BaseOrder._update_status", tags=["C12", "C03"])
def _(self, status: ATOM):
    modifies(self, "status")
    modifies(self, "complete")
    modifies(self, "date_time_status_update")
    modifies(self.trade, "status")
    modifies(self.trade, "date_time_complete")
    modifies_all("RunnerContext.datetime_last_reset")
    modifies_all_lists_of(ATOM)
    modifies_all_maps()
    ensures("status_set", self.status == status)
    ensures("complete_flag_follows_status", self.complete == is_complete_status(status))
    ensures("stamped_with_the_clock", self.date_time_status_update == now())
    ensures("trade_only_completed_when_live", trade_effect(self))


@contract("flumine/order/order.py::BaseOrder.executable", tags=["C12", "C03"])
def _(self):
    modifies(self, "status")
    modifies(self, "complete")
    modifies(self, "date_time_status_update")
    modifies(self.update_data, "size_reduction")
    modifies(self.update_data, "new_price")
    modifies(self.trade, "status")
    modifies(self.trade, "date_time_complete")
    modifies_all("RunnerContext.datetime_last_reset")
    modifies_all_lists_of(ATOM)
    modifies_all_maps()
    ensures("executable", self.status == OrderStatus.EXECUTABLE and not self.complete)
    ensures("request_data_cleared", self.update_data["size_reduction"] is None and self.update_data["new_price"] is None)
    ensures("trade_only_completed_when_live", trade_effect(self))


@contract("flumine/order/order.py::BaseOrder.execution_complete", tags=["C12", "C03"])
def _(self):
    modifies(self, "status")
    modifies(self, "complete")
    modifies(self, "date_time_status_update")
    modifies(self, "date_time_execution_complete")
    modifies(self.update_data, "size_reduction")
    modifies(self.update_data, "new_price")
    modifies(self.trade, "status")
    modifies(self.trade, "date_time_complete")
    modifies_all("RunnerContext.datetime_last_reset")
    modifies_all_lists_of(ATOM)
    modifies_all_maps()
    ensures("execution_complete", self.status == OrderStatus.EXECUTION_COMPLETE and self.complete)
    ensures("request_data_cleared", self.update_data["size_reduction"] is None and self.update_data["new_price"] is None)
    ensures("completion_time_is_the_clock", self.date_time_execution_complete == now())
    ensures("trade_only_completed_when_live", trade_effect(self))


# ----------------------------------------------------------------------------- order package: retry budget, reset on exhaustion
@contract("flumine/order/orderpackage.py::BaseOrderPackage.retry", tags=["C12"])
def _(self) -> BOOL:
    requires("budget_invariant", 0 <= self._retry_count and self._retry_count <= self._max_retries)
    modifies(self, "_retry_count")
    ensures("retry_spends_one_unit_of_the_budget", implies(result, self._retry_count == old(self._retry_count) + 1 and self._retry_count <= self._max_retries))
    ensures("refusal_changes_nothing", implies(not result, self._retry_count == old(self._retry_count)))
    ensures("retried_iff_budget_left", result == (self._retry and old(self._retry_count) < self._max_retries))
    ensures("budget_invariant", 0 <= self._retry_count and self._retry_count <= self._max_retries)


def in_list12(lst, x, n):
    return exists(lambda j: lst[j] == x, 0, n)


def distinct_list(lst):
    return forall_int(lambda a, b: implies(0 <= a and a < b and b < len(lst), lst[a] != lst[b]))


def trades_not_pending(lst):
    return forall(lambda j: lst[j].trade.status != TradeStatus.PENDING, 0, len(lst))


ORDER_FRAME = ("status", "complete", "date_time_status_update", "date_time_execution_complete")


@contract("flumine/order/orderpackage.py::BaseOrderPackage.reset_orders", tags=["C12"])
def _(self, complete: BOOL = False):
    requires("package_orders_distinct", distinct_list(self._orders))
    requires("no_response_being_applied", trades_not_pending(self._orders))  # A6: the step starts outside any `with trade:` block
    modifies_all("BaseOrder.status")
    modifies_all("BaseOrder.complete")
    modifies_all("BaseOrder.date_time_status_update")
    modifies_all("BaseOrder.date_time_execution_complete")
    modifies_all("UpdateData.size_reduction")
    modifies_all("UpdateData.new_price")
    modifies_all("Trade.status")
    modifies_all("Trade.date_time_complete")
    modifies_all("RunnerContext.datetime_last_reset")
    modifies_all_lists_of(ATOM)
    modifies_all_maps()
    invariant(0, "processed_orders_reset_others_untouched", forall_ref(
        lambda o: o.status == ((OrderStatus.EXECUTION_COMPLETE if complete else OrderStatus.EXECUTABLE) if in_list12(old(pkg(self)), o, _i0) else old(o.status)),
        "BaseOrder"))
    invariant(0, "no_trade_left_pending", forall_ref(lambda t: implies(old(t.status) != TradeStatus.PENDING, t.status != TradeStatus.PENDING), "Trade"))
    invariant(0, "orders_keep_their_trade", True)
    ensures("every_order_can_progress", forall(
        lambda j: old(pkg(self))[j].status == (OrderStatus.EXECUTION_COMPLETE if complete else OrderStatus.EXECUTABLE), 0, len(old(pkg(self)))))
    ensures("other_orders_untouched", forall_ref(lambda o: implies(not in_list12(old(pkg(self)), o, len(old(pkg(self)))), o.status == old(o.status)), "BaseOrder"))
    ensures("no_trade_left_pending", forall_ref(lambda t: implies(old(t.status) != TradeStatus.PENDING, t.status != TradeStatus.PENDING), "Trade"))
