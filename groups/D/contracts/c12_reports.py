"""C12 - recording an instruction report on the order it belongs to (flumine/execution/baseexecution.py::_order_logger,
flumine/order/responses.py).

Reports are duck typed: live betfairlightweight *InstructionReport resources and the simulator's Simulated*Response
objects are accessed through the same attribute names (status, error_code, bet_id, order_status, size_cancelled ..).
The generic class "InstructionReport" stands for the live resources (assumed schema: A7).
"""

schema(
    "InstructionReport",
    status=ATOM,  # SUCCESS / FAILURE / TIMEOUT  (ExecutionReportStatus)
    order_status=Opt(ATOM),  # PENDING / EXECUTION_COMPLETE / EXECUTABLE / EXPIRED
    error_code=Opt(ATOM),
    bet_id=Opt(ATOM),
    size_cancelled=Opt(REAL),
    size_remaining=Opt(REAL),
    size_matched=Opt(REAL),
    average_price_matched=Opt(REAL),
    instruction=Ref("ReportedInstruction"),
)
schema("ReportedInstruction", bet_id=Opt(ATOM), limit_order=Ref("ReportedLimitOrder"))
schema("ReportedLimitOrder", price=REAL, size=MONEY)
schema("ReplaceInstructionReport", status=ATOM, error_code=Opt(ATOM),
       cancel_instruction_reports=Ref("InstructionReport"), place_instruction_reports=Ref("InstructionReport"))
schema("CurrentOrder", bet_id=Opt(ATOM), size_remaining=Opt(REAL), size_matched=Opt(REAL), status=ATOM)
schema(
    "Responses",
    date_time_created=REAL,
    current_order=Opt(Ref("CurrentOrder")),
    place_response=Opt(Ref("InstructionReport")),
    cancel_responses=ListOf(Ref("RecordedReport")),  # same objects as the reports; a separate element class keeps the response
    replace_responses=ListOf(Ref("RecordedReport")),  # log lists apart from the report lists the handlers iterate (typed frames)
    update_responses=ListOf(Ref("RecordedReport")),
    _date_time_placed=Opt(REAL),
)
schema("BaseFlumine", markets=Ref("Markets"), _logging_controls=ListOf(Ref("LoggingControl")))
abstract_bool("SimulatedOrder", "is_simulated")  # SimulatedOrder.__bool__: config.simulated or the client paper trades

inline("flumine/events/events.py::OrderEvent.__init__")


@contract("flumine/baseflumine.py::BaseFlumine.log_control", tags=["C12-assumed"])
def _(self, event: Ref("BaseEvent")):
    trusted("logging queue hand-off (LoggingControl is user code, A4): assumed not to touch orders, trades, packages or counters")


@contract("flumine/order/responses.py::Responses.placed", tags=["C12"])
def _(self, response: Opt(Ref("InstructionReport")) = None, dt: BOOL = True):
    modifies(self, "place_response")
    modifies(self, "_date_time_placed")
    ensures("report_recorded", implies(response is not None, self.place_response == response))
    ensures("no_report_keeps_previous", implies(response is None, self.place_response == old(self.place_response)))
    ensures("placed_time_is_the_clock", implies(dt, self._date_time_placed == now()) and implies(not dt, self._date_time_placed == old(self._date_time_placed)))


@contract("flumine/order/responses.py::Responses.cancelled", tags=["C12"])
def _(self, response: Ref("InstructionReport")):
    modifies_list(self.cancel_responses)
    ensures("report_appended", len(self.cancel_responses) == old(len(self.cancel_responses)) + 1 and self.cancel_responses[len(self.cancel_responses) - 1] == response)


@contract("flumine/order/responses.py::Responses.updated", tags=["C12"])
def _(self, response: Ref("InstructionReport")):
    modifies_list(self.update_responses)
    ensures("report_appended", len(self.update_responses) == old(len(self.update_responses)) + 1 and self.update_responses[len(self.update_responses) - 1] == response)


def is_kind(k):
    return k == OrderPackageType.PLACE or k == OrderPackageType.CANCEL or k == OrderPackageType.UPDATE or k == OrderPackageType.REPLACE


@contract("flumine/execution/baseexecution.py::BaseExecution._order_logger", tags=["C12"])
def _(self, order: Ref("BaseOrder"), instruction_report: Ref("InstructionReport"), package_type: ATOM):
    requires("known_kind", is_kind(package_type))
    modifies(order, "bet_id")
    modifies(order.responses, "place_response")
    modifies(order.responses, "_date_time_placed")
    modifies_list(order.responses.cancel_responses)
    modifies_list(order.responses.update_responses)
    ensures("placement_report_recorded_on_this_order",
            (order.responses.place_response == instruction_report
             and order.bet_id == (instruction_report.bet_id if (instruction_report.bet_id is not None and instruction_report.bet_id != "") else old(order.bet_id)))
            if package_type == OrderPackageType.PLACE else True)
    ensures("replacement_report_recorded_on_this_order",
            (order.responses.place_response == instruction_report and order.bet_id == instruction_report.bet_id)
            if package_type == OrderPackageType.REPLACE else True)
    ensures("update_report_recorded_on_this_order", implies(package_type == OrderPackageType.UPDATE,
            len(order.responses.update_responses) == old(len(order.responses.update_responses)) + 1
            and order.responses.update_responses[len(order.responses.update_responses) - 1] == instruction_report))
    ensures("cancel_report_recorded_on_this_order", implies(package_type == OrderPackageType.CANCEL,
            len(order.responses.cancel_responses) == old(len(order.responses.cancel_responses)) + 1
            and order.responses.cancel_responses[len(order.responses.cancel_responses) - 1] == instruction_report))
    ensures("cancel_and_update_reports_keep_the_bet_id",
            implies(package_type == OrderPackageType.CANCEL or package_type == OrderPackageType.UPDATE,
                    order.bet_id == old(order.bet_id) and order.responses.place_response == old(order.responses.place_response)))
