"""C12 - SimulatedExecution.execute_* (flumine/execution/simulatedexecution.py): every answer of the simulated exchange
leaves each order of the request able to progress, no trade pending, and charges exactly the bets submitted plus the
failed instructions reported.

Assumed (C04/C05's subject, DESIGN A7-style contracts): SimulatedOrder.place / update answer SUCCESS or FAILURE and write
only the simulated order's own figures; SimulatedOrder.cancel has its verified C04 contract.
"""

schema("Markets", _markets=MapOf(ATOM, Ref("Market")))
schema("SimulatedExecution", flumine=Ref("BaseFlumine"), _bet_id=INT, EXCHANGE=ATOM)
schema("SimulatedOrder", update_accepted=BOOL)  # ORACLE (assumption): would the simulated exchange accept a persistence update of this order now
schema("BaseOrderType", persistence_type=Opt(ATOM))
inline("flumine/markets/markets.py::Markets.markets")

SIM_ORDER_FIELDS = ("size_matched", "average_price_matched", "size_cancelled", "size_lapsed", "size_voided", "market_version", "_piq")


@contract("flumine/simulation/simulatedorder.py::SimulatedOrder.place", tags=["C12-assumed"])
def _(self, order_package: Ref("BaseOrderPackage"), market_book: Opt(Ref("MarketBook")), instruction: Ref("PlaceInstruction"), bet_id: INT) -> Ref("SimulatedPlaceResponse"):
    trusted("matching at placement is C04/C05's subject; assumed for C12: the simulated exchange answers SUCCESS or FAILURE and "
            "writes only this simulated order's own figures (read from the code: every return goes through _create_place_response "
            "with status SUCCESS or FAILURE)")
    modifies(self, "size_matched")
    modifies(self, "average_price_matched")
    modifies(self, "size_cancelled")
    modifies(self, "size_lapsed")
    modifies(self, "size_voided")
    modifies(self, "market_version")
    modifies(self, "_piq")
    modifies_list(self.matched)
    ensures("answers_success_or_failure", result.status == "SUCCESS" or result.status == "FAILURE")


@contract("flumine/order/orderpackage.py::BetfairOrderPackage.place_instructions", tags=["C12-assumed"], fresh_result=True)
def _(self) -> ListOf(Ref("PlaceInstruction")):
    trusted("[order.create_place_instruction() for order in self]: the instruction dictionaries are built by type-dependent "
            "branches the engine does not execute under a comprehension; assumed: exactly one instruction per iterated order")
    ensures("one_instruction_per_order", len(result) == len(pkg(self)))


def market_known(ex, op):
    return op.market_id in ex.flumine.markets._markets


def sim_place_final(st):
    return st == OrderStatus.EXECUTABLE or st == OrderStatus.EXECUTION_COMPLETE


@contract("flumine/execution/simulatedexecution.py::SimulatedExecution.execute_place", tags=["C12", "C18"])
def _(self, order_package: Ref("BaseOrderPackage"), http_session: Opt(Ref("Session"))):
    requires("place_package", order_package.package_type == OrderPackageType.PLACE)
    requires("market_of_the_package_exists", market_known(self, order_package))
    requires("package_orders_distinct", distinct_list(order_package._orders))
    requires("no_response_being_applied", trades_not_pending(order_package._orders))
    requires("controls_distinct", distinct_controls(order_package.client))
    modifies(self, "_bet_id")
    modifies_all("BaseOrder.status")
    modifies_all("BaseOrder.complete")
    modifies_all("BaseOrder.bet_id")
    modifies_all("BaseOrder.date_time_status_update")
    modifies_all("BaseOrder.date_time_execution_complete")
    modifies_all("UpdateData.size_reduction")
    modifies_all("UpdateData.new_price")
    modifies_all("Trade.status")
    modifies_all("Trade.date_time_complete")
    modifies_all("RunnerContext.datetime_last_reset")
    modifies_all("Responses.place_response")
    modifies_all("Responses._date_time_placed")
    modifies_all("SimulatedOrder.size_matched")
    modifies_all("SimulatedOrder.average_price_matched")
    modifies_all("SimulatedOrder.size_cancelled")
    modifies_all("SimulatedOrder.size_lapsed")
    modifies_all("SimulatedOrder.size_voided")
    modifies_all("SimulatedOrder.market_version")
    modifies_all("SimulatedOrder._piq")
    modifies_all("MaxTransactionCount.transaction_count")
    modifies_all("MaxTransactionCount.current_transaction_count")
    modifies_all("MaxTransactionCount.failed_transaction_count")
    modifies_all("MaxTransactionCount.current_failed_transaction_count")
    modifies_all_lists_of(ATOM)
    modifies_all_lists_of(Ref("RecordedReport"))
    modifies_all_lists_of(Ref("Fragment"))
    modifies_all_maps()
    invariant(0, "answered_orders_can_progress_others_untouched", forall_ref(
        lambda o: (sim_place_final(o.status) if in_list12(old(pkg(order_package)), o, _i0) else o.status == old(o.status)), "BaseOrder"))
    invariant(0, "no_trade_left_pending", forall_ref(lambda t: implies(old(t.status) != TradeStatus.PENDING, t.status != TradeStatus.PENDING), "Trade"))
    invariant(0, "nothing_charged_yet", forall_ref(
        lambda c: c.transaction_count == old(c.transaction_count) and c.current_transaction_count == old(c.current_transaction_count)
        and c.failed_transaction_count == old(c.failed_transaction_count) and c.current_failed_transaction_count == old(c.current_failed_transaction_count),
        "MaxTransactionCount"))
    ensures("every_order_can_progress", forall(lambda j: sim_place_final(old(pkg(order_package))[j].status), 0, len(old(pkg(order_package)))))
    ensures("other_orders_untouched", forall_ref(lambda o: implies(not in_list12(old(pkg(order_package)), o, len(old(pkg(order_package)))), o.status == old(o.status)), "BaseOrder"))
    ensures("no_trade_left_pending", forall_ref(lambda t: implies(old(t.status) != TradeStatus.PENDING, t.status != TradeStatus.PENDING), "Trade"))
    ensures("charged_the_bets_submitted", charged_exactly(order_package.client, len(old(pkg(order_package))), 0))


# ----------------------------------------------------------------------------- cancel
def book_of(ex, op):
    return ex.flumine.markets._markets[op.market_id].market_book


def sim_cancel_pre(so):
    """precondition of the (C04-verified) SimulatedOrder.cancel: the class invariant Inv4 of simulated limit orders and a
    size reduction on the penny grid"""
    return (implies(is_limit_so(so), Inv4(so))
            and implies(so.order.update_data["size_reduction"] is not None,
                        on_grid(so.order.update_data["size_reduction"]) and so.order.update_data["size_reduction"] >= 0))


def sim_cancel_fails(o, book):
    """the simulated exchange refuses a cancel: market not open or not a limit order (SimulatedOrder.cancel, C04)"""
    return book.status != "OPEN" or not is_limit_so(o.simulated)


def pkg_at(op, j):
    return pkg(op)[j]


def pkg_len(op):
    return len(pkg(op))


@contract("flumine/execution/simulatedexecution.py::SimulatedExecution.execute_cancel", tags=["C12", "C18"])
def _(self, order_package: Ref("BaseOrderPackage"), http_session: Opt(Ref("Session"))):
    requires("cancel_package", order_package.package_type == OrderPackageType.CANCEL)
    requires("market_of_the_package_exists", market_known(self, order_package) and book_of(self, order_package) is not None)
    requires("no_response_being_applied", trades_not_pending(order_package._orders))
    requires("controls_distinct", distinct_controls(order_package.client))
    requires("simulated_orders_invariant", forall_ref(lambda so: sim_cancel_pre(so), "SimulatedOrder"))  # C04 class invariant
    modifies_all("BaseOrder.status")
    modifies_all("BaseOrder.complete")
    modifies_all("BaseOrder.bet_id")
    modifies_all("BaseOrder.date_time_status_update")
    modifies_all("BaseOrder.date_time_execution_complete")
    modifies_all("UpdateData.size_reduction")
    modifies_all("UpdateData.new_price")
    modifies_all("Trade.status")
    modifies_all("Trade.date_time_complete")
    modifies_all("RunnerContext.datetime_last_reset")
    modifies_all("Responses.place_response")
    modifies_all("Responses._date_time_placed")
    modifies_all("SimulatedOrder.size_cancelled")
    modifies_all("MaxTransactionCount.transaction_count")
    modifies_all("MaxTransactionCount.current_transaction_count")
    modifies_all("MaxTransactionCount.failed_transaction_count")
    modifies_all("MaxTransactionCount.current_failed_transaction_count")
    modifies_all_lists_of(ATOM)
    modifies_all_lists_of(Ref("RecordedReport"))
    modifies_all_maps()
    invariant(0, "answered_orders_can_progress_others_untouched", forall_ref(
        lambda o: (can_progress(o.status) if in_list12(old(pkg(order_package)), o, _i0) else o.status == old(o.status)), "BaseOrder"))
    invariant(0, "no_trade_left_pending", forall_ref(lambda t: implies(old(t.status) != TradeStatus.PENDING, t.status != TradeStatus.PENDING), "Trade"))
    invariant(0, "simulated_orders_invariant", forall_ref(lambda so: sim_cancel_pre(so), "SimulatedOrder"))
    invariant(0, "failures_counted", failed_transaction_count == sum_(lambda j: (1 if old(sim_cancel_fails(pkg_at(order_package, j), book_of(self, order_package))) else 0), 0, _i0))
    invariant(0, "nothing_charged_yet", forall_ref(
        lambda c: c.transaction_count == old(c.transaction_count) and c.current_transaction_count == old(c.current_transaction_count)
        and c.failed_transaction_count == old(c.failed_transaction_count) and c.current_failed_transaction_count == old(c.current_failed_transaction_count),
        "MaxTransactionCount"))
    ensures("every_order_can_progress", forall(lambda j: can_progress(old(pkg(order_package))[j].status), 0, len(old(pkg(order_package)))))
    ensures("other_orders_untouched", forall_ref(lambda o: implies(not in_list12(old(pkg(order_package)), o, len(old(pkg(order_package)))), o.status == old(o.status)), "BaseOrder"))
    ensures("no_trade_left_pending", forall_ref(lambda t: implies(old(t.status) != TradeStatus.PENDING, t.status != TradeStatus.PENDING), "Trade"))
    ensures("charged_the_failed_instructions_only", charged_exactly(
        order_package.client, 0,
        sum_(lambda j: (1 if old(sim_cancel_fails(pkg_at(order_package, j), book_of(self, order_package))) else 0), 0, old(pkg_len(order_package)))))


# ----------------------------------------------------------------------------- instruction lists (verified: pairing with the orders)
inline(
    "flumine/order/order.py::BetfairOrder.create_update_instruction",
    "flumine/order/order.py::BetfairOrder.create_replace_instruction",
    "flumine/order/order.py::BetfairOrder.create_cancel_instruction",
)


def live_pkg(op):
    """orders of the package that still need the replace request: not completed in the meantime"""
    return [o for o in pkg(op) if o.status != OrderStatus.EXECUTION_COMPLETE]


@contract("flumine/order/orderpackage.py::BetfairOrderPackage.update_instructions", tags=["C12"], fresh_result=True)
def _(self) -> ListOf(Rec(betId=Opt(ATOM), newPersistenceType=Opt(ATOM))):
    ensures("one_instruction_per_order", len(result) == len(pkg(self)))
    ensures("instruction_j_belongs_to_order_j", forall(lambda j: result[j]["betId"] == pkg(self)[j].bet_id
                                                       and result[j]["newPersistenceType"] == pkg(self)[j].order_type.persistence_type, 0, len(result)))


@contract("flumine/order/orderpackage.py::BetfairOrderPackage.cancel_instructions", tags=["C12"], fresh_result=True)
def _(self) -> ListOf(Rec(betId=Opt(ATOM), sizeReduction=Opt(REAL))):
    ensures("one_instruction_per_order", len(result) == len(pkg(self)))
    ensures("instruction_j_belongs_to_order_j", forall(lambda j: result[j]["betId"] == pkg(self)[j].bet_id, 0, len(result)))


def nothing_completed(op):
    return forall(lambda j: pkg(op)[j].status != OrderStatus.EXECUTION_COMPLETE, 0, len(pkg(op)))


@contract("flumine/order/orderpackage.py::BetfairOrderPackage.replace_instructions", tags=["C12"], fresh_result=True, filter_identity=True)
def _(self) -> ListOf(Rec(betId=Opt(ATOM), newPrice=Opt(REAL))):
    ensures("nothing_skipped_when_nothing_completed_in_the_meantime", implies(nothing_completed(self), len(live_pkg(self)) == len(pkg(self))))
    ensures("one_per_order_when_nothing_completed_in_the_meantime", implies(nothing_completed(self), len(result) == len(pkg(self))
            and forall(lambda j: result[j]["betId"] == pkg(self)[j].bet_id and result[j]["newPrice"] == pkg(self)[j].update_data["new_price"], 0, len(result))))
    ensures("one_instruction_per_order_still_to_be_replaced", len(result) == len(live_pkg(self)))
    ensures("instruction_j_belongs_to_live_order_j", forall(lambda j: result[j]["betId"] == live_pkg(self)[j].bet_id
                                                            and result[j]["newPrice"] == live_pkg(self)[j].update_data["new_price"], 0, len(result)))


# ----------------------------------------------------------------------------- update
@contract("flumine/simulation/simulatedorder.py::SimulatedOrder.update", tags=["C12-assumed"])
def _(self, market_book: Opt(Ref("MarketBook")), instruction: Rec(betId=Opt(ATOM), newPersistenceType=Opt(ATOM))) -> Ref("SimulatedUpdateResponse"):
    trusted("the simulated persistence update is outside C12; assumed (read from the code): answers SUCCESS or FAILURE, writes only the "
            "order type's persistence_type; the outcome is a function of the market book and the order's own figures, neither of which "
            "an update handler changes - represented by the oracle field SimulatedOrder.update_accepted")
    modifies(self.order.order_type, "persistence_type")
    ensures("answers_success_or_failure", result.status == ("SUCCESS" if self.update_accepted else "FAILURE"))


@contract("flumine/execution/simulatedexecution.py::SimulatedExecution.execute_update", tags=["C12", "C18"])
def _(self, order_package: Ref("BaseOrderPackage"), http_session: Opt(Ref("Session"))):
    requires("update_package", order_package.package_type == OrderPackageType.UPDATE)
    requires("market_of_the_package_exists", market_known(self, order_package))
    requires("no_response_being_applied", trades_not_pending(order_package._orders))
    requires("controls_distinct", distinct_controls(order_package.client))
    modifies_all("BaseOrder.status")
    modifies_all("BaseOrder.complete")
    modifies_all("BaseOrder.bet_id")
    modifies_all("BaseOrder.date_time_status_update")
    modifies_all("BaseOrder.date_time_execution_complete")
    modifies_all("BaseOrderType.persistence_type")
    modifies_all("UpdateData.size_reduction")
    modifies_all("UpdateData.new_price")
    modifies_all("Trade.status")
    modifies_all("Trade.date_time_complete")
    modifies_all("RunnerContext.datetime_last_reset")
    modifies_all("Responses.place_response")
    modifies_all("Responses._date_time_placed")
    modifies_all("MaxTransactionCount.transaction_count")
    modifies_all("MaxTransactionCount.current_transaction_count")
    modifies_all("MaxTransactionCount.failed_transaction_count")
    modifies_all("MaxTransactionCount.current_failed_transaction_count")
    modifies_all_lists_of(ATOM)
    modifies_all_lists_of(Ref("RecordedReport"))
    modifies_all_maps()
    local(failed_transaction_count=INT)
    invariant(0, "answered_orders_can_progress_others_untouched", forall_ref(
        lambda o: (o.status == OrderStatus.EXECUTABLE if in_list12(old(pkg(order_package)), o, _i0) else o.status == old(o.status)), "BaseOrder"))
    invariant(0, "no_trade_left_pending", forall_ref(lambda t: implies(old(t.status) != TradeStatus.PENDING, t.status != TradeStatus.PENDING), "Trade"))
    invariant(0, "failures_counted", failed_transaction_count == sum_(lambda j: (0 if old(pkg_at(order_package, j).simulated.update_accepted) else 1), 0, _i0))
    invariant(0, "nothing_charged_yet", forall_ref(
        lambda c: c.transaction_count == old(c.transaction_count) and c.current_transaction_count == old(c.current_transaction_count)
        and c.failed_transaction_count == old(c.failed_transaction_count) and c.current_failed_transaction_count == old(c.current_failed_transaction_count),
        "MaxTransactionCount"))
    ensures("every_order_can_progress", forall(lambda j: old(pkg(order_package))[j].status == OrderStatus.EXECUTABLE, 0, len(old(pkg(order_package)))))
    ensures("other_orders_untouched", forall_ref(lambda o: implies(not in_list12(old(pkg(order_package)), o, len(old(pkg(order_package)))), o.status == old(o.status)), "BaseOrder"))
    ensures("no_trade_left_pending", forall_ref(lambda t: implies(old(t.status) != TradeStatus.PENDING, t.status != TradeStatus.PENDING), "Trade"))
    ensures("charged_the_failed_instructions_only", charged_exactly(
        order_package.client, 0, sum_(lambda j: (0 if old(pkg_at(order_package, j).simulated.update_accepted) else 1), 0, old(pkg_len(order_package)))))


# ----------------------------------------------------------------------------- replace
schema("BaseOrder", replaced_by=Opt(Ref("BaseOrder")))  # GHOST (history variable, written only by the assumed contract of Trade.create_order_replacement): the order created to replace this one
schema("BaseFlumine", clients=Ref("Clients"))
schema("Clients", _clients=ListOf(Ref("BaseClient")))


def default_client(market):
    """Clients.get_default(): the first client registered with the framework"""
    return market.flumine.clients._clients[0]


@contract("flumine/order/trade.py::Trade.create_order_replacement", tags=["C12-assumed"], fresh_result=True)
def _(self, order: Ref("BaseOrder"), new_price: Opt(REAL), size: Opt(REAL), date_time_created: REAL) -> Ref("BetfairOrder"):
    trusted("order construction is C19/C10's subject; assumed (read from the code): a NEW BetfairOrder (with its own new SimulatedOrder, "
            "Responses, update data and a new LimitOrder(price=new_price, size=size)) of this trade, bound to the client of the replaced "
            "order (update_client(order.client)), appended to trade.orders, never placed (status None); the ghost field "
            "order.replaced_by records the new order")
    # C10 (from the statement, an OBLIGATION at every call site): a trade never completes while an order of it is live - so a trade
    # that gets a further order must not have been completed; the handler has to hold the trade open (with trade:) across both legs
    requires("a_completed_trade_gets_no_further_order", self.status != TradeStatus.COMPLETE)
    modifies_list(self.orders)
    modifies(order, "replaced_by")
    ensures("new_order_of_this_trade", result.trade == self and result.client == order.client and result.status is None and not result.complete)
    ensures("size_and_price_as_given", result.order_type.size == size and result.order_type.price == new_price)
    ensures("recorded_as_the_replacement", order.replaced_by == result)
    ensures("own_new_parts", fresh(result.simulated) and fresh(result.responses) and fresh(result.update_data) and fresh(result.order_type) and result.simulated.order == result)
    ensures("appended_to_the_trade", len(self.orders) == old(len(self.orders)) + 1 and self.orders[len(self.orders) - 1] == result
            and forall(lambda j: self.orders[j] == old(self.orders[j]), 0, old(len(self.orders))))


@contract("flumine/markets/market.py::Market.place_order", tags=["C12-assumed"])
def _(self, order: Ref("BaseOrder"), market_version: Opt(INT) = None, execute: BOOL = True, force: BOOL = False, client: Opt(Ref("BaseClient")) = None) -> BOOL:
    trusted("Transaction.place_order is C02/C15's subject; assumed for the call with execute=False (registration of a replacement order "
            "in the blotter): the order is (re)bound to the transaction's client - the `client` argument, or the framework's default "
            "client when none is given (Market.transaction / Transaction.place_order: order.update_client(self._client)) - and becomes "
            "PENDING; only this order, the blotter views and its trade's notes are written, no package is created, nothing is charged, "
            "and the call does not raise (the order id is new: C19)")
    requires("registration_only", not execute)
    modifies(order, "client")
    modifies(order, "_simulated")
    modifies(order, "status")
    modifies(order, "complete")
    modifies(order, "date_time_status_update")
    modifies(order, "publish_time")
    modifies(order, "market_version")
    modifies(order, "async_")
    modifies(order, "market_notes")
    modifies(order.trade, "market_notes")
    modifies(self, "_transaction_id")
    modifies_all_lists_of(ATOM)
    modifies_all_lists_of(Ref("BaseOrder"))
    modifies_all_maps()
    ensures("pending", order.status == OrderStatus.PENDING and not order.complete)
    ensures("filed_under_the_given_client_or_the_default", order.client == (client if client is not None else default_client(self)))


def cancel_ok(o, book):
    """the simulated exchange accepts the cancel leg (SimulatedOrder.cancel, C04): open market, limit order"""
    return book.status == "OPEN" and is_limit_so(o.simulated)


def replaced_by_new_order(o):
    """o (an order of the package whose cancel leg succeeded) has a replacement: a new order of the same trade"""
    return o.replaced_by is not None and fresh(o.replaced_by) and o.replaced_by.trade == o.trade


def replacement_same_client(o):
    """C18 / C08: the replacement is filed under the SAME client as the order it replaces"""
    return o.replaced_by is not None and o.replaced_by.client == old(o.client)


def replacement_size_is_size_cancelled(o):
    """C01: the size of the replacement is exactly the size cancelled from o - what was still unmatched, never more"""
    return (o.replaced_by is not None and o.replaced_by.order_type.size == o.simulated.size_cancelled - old(o.simulated.size_cancelled)
            and implies(old(is_limit_so(o.simulated)), o.replaced_by.order_type.size <= old(R(o.simulated))))


def same_sim_figures(so):
    return (so.size_cancelled == old(so.size_cancelled) and so.size_matched == old(so.size_matched)
            and so.size_lapsed == old(so.size_lapsed) and so.size_voided == old(so.size_voided))


def sims_owned():
    """representation invariant (BetfairOrder.__init__: self.simulated = SimulatedOrder(self)): a simulated order belongs to one order"""
    return forall_ref(lambda o: o.simulated.order == o, "BaseOrder")


@contract("flumine/execution/simulatedexecution.py::SimulatedExecution.execute_replace", tags=["C12", "C18"])
def _(self, order_package: Ref("BaseOrderPackage"), http_session: Opt(Ref("Session"))):
    requires("replace_package", order_package.package_type == OrderPackageType.REPLACE)
    requires("market_of_the_package_exists", market_known(self, order_package) and book_of(self, order_package) is not None)
    requires("no_response_being_applied", trades_not_pending(order_package._orders))
    requires("controls_distinct", distinct_controls(order_package.client))
    requires("simulated_orders_invariant", forall_ref(lambda so: sim_cancel_pre(so), "SimulatedOrder"))  # C04 class invariant
    requires("package_orders_distinct", distinct_list(pkg(order_package)))
    requires("simulated_order_belongs_to_its_order", sims_owned())
    # Transaction.replace_order refuses an order of another client; the package is built from that transaction's orders with its client
    requires("orders_of_the_package_belong_to_its_client", forall(lambda j: pkg(order_package)[j].client == order_package.client, 0, len(pkg(order_package))))
    modifies(self, "_bet_id")
    modifies_all("BaseOrder.status")
    modifies_all("BaseOrder.complete")
    modifies_all("BaseOrder.bet_id")
    modifies_all("BaseOrder.date_time_status_update")
    modifies_all("BaseOrder.date_time_execution_complete")
    modifies_all("BaseOrder.publish_time")
    modifies_all("BaseOrder.market_version")
    modifies_all("BaseOrder.async_")
    modifies_all("BaseOrder.market_notes")
    modifies_all("BaseOrder.replaced_by")
    modifies_all("BaseOrder.client")  # only the NEW replacement orders are (re)bound; for existing orders see ensures orders_keep_their_client (an Opt field: the raw frame compares payloads of None)
    modifies_all("UpdateData.size_reduction")
    modifies_all("UpdateData.new_price")
    modifies_all("Trade.status")
    modifies_all("Trade.date_time_complete")
    modifies_all("Trade.market_notes")
    modifies_all("Market._transaction_id")
    modifies_all("RunnerContext.datetime_last_reset")
    modifies_all("Responses.place_response")
    modifies_all("Responses._date_time_placed")
    modifies_all("SimulatedOrder.size_matched")
    modifies_all("SimulatedOrder.average_price_matched")
    modifies_all("SimulatedOrder.size_cancelled")
    modifies_all("SimulatedOrder.size_lapsed")
    modifies_all("SimulatedOrder.size_voided")
    modifies_all("SimulatedOrder.market_version")
    modifies_all("SimulatedOrder._piq")
    modifies_all("MaxTransactionCount.transaction_count")
    modifies_all("MaxTransactionCount.current_transaction_count")
    modifies_all("MaxTransactionCount.failed_transaction_count")
    modifies_all("MaxTransactionCount.current_failed_transaction_count")
    modifies_all_lists_of(ATOM)
    modifies_all_lists_of(Ref("RecordedReport"))
    modifies_all_lists_of(Ref("Fragment"))
    modifies_all_lists_of(Ref("BaseOrder"))
    modifies_all_maps()
    invariant(0, "answered_orders_can_progress_others_untouched", forall_ref(
        lambda o: (can_progress(o.status) if in_list12(old(pkg(order_package)), o, _i0) else o.status == old(o.status)), "BaseOrder"))
    invariant(0, "no_trade_left_pending", forall_ref(lambda t: implies(old(t.status) != TradeStatus.PENDING, t.status != TradeStatus.PENDING), "Trade"))
    invariant(0, "simulated_orders_invariant", forall_ref(lambda so: sim_cancel_pre(so), "SimulatedOrder"))
    invariant(0, "failures_counted", failed_transaction_count == sum_(lambda j: (1 if old(sim_cancel_fails(pkg_at(order_package, j), book_of(self, order_package))) else 0), 0, _i0))
    invariant(0, "nothing_charged_yet", forall_ref(
        lambda c: c.transaction_count == old(c.transaction_count) and c.current_transaction_count == old(c.current_transaction_count)
        and c.failed_transaction_count == old(c.failed_transaction_count) and c.current_failed_transaction_count == old(c.current_failed_transaction_count),
        "MaxTransactionCount"))
    # stepping stone for the charged clause: the handler moves no order in or out of VIOLATION, so len(order_package) is still the
    # number of orders the package had at entry (the filter of BaseOrderPackage.orders selects the same elements)
    invariant(0, "no_order_enters_or_leaves_violation", forall_ref(lambda o: (o.status == OrderStatus.VIOLATION) == (old(o.status) == OrderStatus.VIOLATION), "BaseOrder"))
    invariant(0, "orders_keep_their_client", forall_ref(lambda o: o.client == old(o.client) and o._simulated == old(o._simulated), "BaseOrder"))
    invariant(0, "replaced_so_far_by_new_orders", forall(
        lambda j: implies(old(cancel_ok(pkg_at(order_package, j), book_of(self, order_package))), replaced_by_new_order(old(pkg(order_package))[j])), 0, _i0))
    invariant(0, "replacements_so_far_same_client", forall(
        lambda j: implies(old(cancel_ok(pkg_at(order_package, j), book_of(self, order_package))), replacement_same_client(old(pkg(order_package))[j])), 0, _i0))
    invariant(0, "replacements_so_far_size_cancelled", forall(
        lambda j: implies(old(cancel_ok(pkg_at(order_package, j), book_of(self, order_package))), replacement_size_is_size_cancelled(old(pkg(order_package))[j])), 0, _i0))
    invariant(0, "orders_not_yet_answered_keep_their_simulated_figures", forall(
        lambda j: same_sim_figures(old(pkg(order_package))[j].simulated), _i0, len(old(pkg(order_package)))))
    ensures("every_order_can_progress", forall(lambda j: can_progress(old(pkg(order_package))[j].status), 0, len(old(pkg(order_package)))))
    ensures("other_orders_untouched", forall_ref(lambda o: implies(not in_list12(old(pkg(order_package)), o, len(old(pkg(order_package)))), o.status == old(o.status)), "BaseOrder"))
    ensures("no_trade_left_pending", forall_ref(lambda t: implies(old(t.status) != TradeStatus.PENDING, t.status != TradeStatus.PENDING), "Trade"))
    ensures("each_instruction_is_applied_to_the_order_it_belongs_to", old(forall(
        lambda j: order_package.replace_instructions[j]["betId"] == pkg(order_package)[j].bet_id, 0, min(len(pkg(order_package)), len(order_package.replace_instructions)))))
    ensures("charged_the_instructions_submitted_plus_failures", charged_exactly(
        order_package.client, old(len(live_pkg(order_package))),
        sum_(lambda j: (1 if old(sim_cancel_fails(pkg_at(order_package, j), book_of(self, order_package))) else 0), 0, old(len(live_pkg(order_package))))))
    # C18 / C08: orders stay with their client; C01 + C18: every order whose cancel leg succeeded is replaced by a new order of the same
    # client whose size is the size cancelled from it (stated outside finding P7: when an order of the package completed in the meantime
    # the instructions are mis-paired and the last orders are not answered at all - recorded under every_order_can_progress)
    ensures("orders_keep_their_client", forall_ref(lambda o: o.client == old(o.client), "BaseOrder"))
    ensures("cancelled_orders_are_replaced_by_new_orders", implies(old(nothing_completed(order_package)), forall(
        lambda j: implies(old(cancel_ok(pkg_at(order_package, j), book_of(self, order_package))), replaced_by_new_order(old(pkg(order_package))[j])),
        0, len(old(pkg(order_package))))))
    ensures("replacement_is_filed_under_the_client_of_the_order_it_replaces", implies(old(nothing_completed(order_package)), forall(
        lambda j: implies(old(cancel_ok(pkg_at(order_package, j), book_of(self, order_package))), replacement_same_client(old(pkg(order_package))[j])),
        0, len(old(pkg(order_package))))))
    ensures("replacement_size_is_the_size_cancelled_from_the_original", implies(old(nothing_completed(order_package)), forall(
        lambda j: implies(old(cancel_ok(pkg_at(order_package, j), book_of(self, order_package))), replacement_size_is_size_cancelled(old(pkg(order_package))[j])),
        0, len(old(pkg(order_package))))))
