"""C18 - MaxTransactionCount (flumine/controls/clientcontrols.py): counts exactly, blocks when exceeded, restarts on a new clock hour.

Datetimes are REAL seconds.  A *clock hour* is an interval [3600k, 3600(k+1)).  Representation invariant InvHour of the
control: `_next_hour` is None (before the first check) or a whole hour; after every hour check it is the END of the
clock hour that contains `now` - written from the property statement ("until the first request made in a new clock
hour, which restarts the hourly counters from zero"), not from the date()/hour comparison of the code.
"""

schema(
    "MaxTransactionCount",
    client=Ref("BaseClient"),
    _next_hour=Opt(REAL),
    current_transaction_count=INT,
    current_failed_transaction_count=INT,
    transaction_count=INT,
    failed_transaction_count=INT,
    _lock=Ref("ThreadingLock"),
)
lock("ThreadingLock")  # assumption (DESIGN C18 / section 6): `with self._lock:` makes the body atomic; sequentially it is a no-op
clock("flumine.config", "current_time")

inline(
    "flumine/controls/clientcontrols.py::MaxTransactionCount.current_transaction_count_total",
    "flumine/controls/clientcontrols.py::MaxTransactionCount.transaction_count_total",
    "flumine/controls/clientcontrols.py::MaxTransactionCount.transaction_limit",
)

HOUR = 3600



def whole_hour(t):
    return exists_int(lambda k: t == 3600 * k)


def inv_hour(c):
    return implies(c._next_hour is not None, whole_hour(c._next_hour))


def in_current_hour(c, now):
    """`now` lies in the clock hour that ends at c._next_hour"""
    return c._next_hour is not None and c._next_hour - 3600 <= now and now < c._next_hour


def hourly(c):
    return c.current_transaction_count + c.current_failed_transaction_count


def total(c):
    return c.transaction_count + c.failed_transaction_count


def hourly_after_check(c, now):
    """the hourly figure a request made at `now` is judged on: restarted from zero by the first request of a new clock hour"""
    return hourly(c) if in_current_hour(c, now) else 0


def over_limit(c, now):
    return c.client.transaction_limit is not None and hourly_after_check(c, now) > c.client.transaction_limit


# ----------------------------------------------------------------------------- counting
@contract("flumine/controls/clientcontrols.py::MaxTransactionCount.add_transaction", tags=["C18", "C12"])
def _(self, count: INT, failed: BOOL = False):
    modifies(self, "transaction_count")
    modifies(self, "current_transaction_count")
    modifies(self, "failed_transaction_count")
    modifies(self, "current_failed_transaction_count")
    ensures("placed_counted", implies(not failed, self.transaction_count == old(self.transaction_count) + count
                                      and self.current_transaction_count == old(self.current_transaction_count) + count
                                      and self.failed_transaction_count == old(self.failed_transaction_count)
                                      and self.current_failed_transaction_count == old(self.current_failed_transaction_count)))
    ensures("failed_counted", implies(failed, self.failed_transaction_count == old(self.failed_transaction_count) + count
                                      and self.current_failed_transaction_count == old(self.current_failed_transaction_count) + count
                                      and self.transaction_count == old(self.transaction_count)
                                      and self.current_transaction_count == old(self.current_transaction_count)))
    ensures("totals_exact", total(self) == old(total(self)) + count and hourly(self) == old(hourly(self)) + count)


# ----------------------------------------------------------------------------- the hour
@contract("flumine/controls/clientcontrols.py::MaxTransactionCount._set_next_hour", tags=["C18"])
def _(self):
    modifies(self, "_next_hour")
    modifies(self, "current_transaction_count")
    modifies(self, "current_failed_transaction_count")
    ensures("end_of_current_clock_hour", self._next_hour is not None and whole_hour(self._next_hour)
            and in_current_hour(self, now()))
    ensures("hourly_restarted_from_zero", self.current_transaction_count == 0 and self.current_failed_transaction_count == 0)


@contract("flumine/controls/clientcontrols.py::MaxTransactionCount._check_hour", tags=["C18"])
def _(self):
    requires("inv_hour", inv_hour(self))
    modifies(self, "_next_hour")
    modifies(self, "current_transaction_count")
    modifies(self, "current_failed_transaction_count")
    ensures("inv_hour", self._next_hour is not None and whole_hour(self._next_hour))
    ensures("next_hour_ends_the_current_clock_hour", in_current_hour(self, now()))
    ensures("same_hour_keeps_counting", implies(old(in_current_hour(self, now())),
                                                self.current_transaction_count == old(self.current_transaction_count)
                                                and self.current_failed_transaction_count == old(self.current_failed_transaction_count)
                                                and self._next_hour == old(self._next_hour)))
    ensures("new_hour_restarts_from_zero", implies(not old(in_current_hour(self, now())),
                                                   self.current_transaction_count == 0 and self.current_failed_transaction_count == 0))
    ensures("hourly_figure", hourly(self) == old(hourly_after_check(self, now())))


# ----------------------------------------------------------------------------- blocking
@contract("flumine/controls/clientcontrols.py::MaxTransactionCount.safe", tags=["C18"])
def _(self) -> BOOL:
    ensures("safe_iff_unlimited_or_within_limit", result == (self.client.transaction_limit is None or hourly(self) <= self.client.transaction_limit))


@contract("flumine/controls/clientcontrols.py::MaxTransactionCount._validate", tags=["C18"])
def _(self, order: Ref("BaseOrder"), package_type: ATOM):
    requires("inv_hour", inv_hour(self))
    modifies(self, "_next_hour")
    modifies(self, "current_transaction_count")
    modifies(self, "current_failed_transaction_count")
    raises(ControlError, when=over_limit(self, now()), iff=True, label="refused_iff_over_limit",
           modifies=[(self, "_next_hour"), (self, "current_transaction_count"), (self, "current_failed_transaction_count"),
                     (order, "status"), (order, "complete"), (order, "violation_msg"), (order, "date_time_status_update"),
                     (order.update_data, "size_reduction"), (order.update_data, "new_price")],
           ensures=self._next_hour is not None and whole_hour(self._next_hour) and in_current_hour(self, now())
           and hourly(self) == old(hourly_after_check(self, now())))
    ensures("inv_hour", self._next_hour is not None and whole_hour(self._next_hour) and in_current_hour(self, now()))
    ensures("hourly_figure", hourly(self) == old(hourly_after_check(self, now())))
    ensures("unlimited_or_within_limit", self.client.transaction_limit is None or hourly(self) <= self.client.transaction_limit)


# ----------------------------------------------------------------------------- the client forwards to its OWN counting controls only
# client.trading_controls holds BaseControl instances of unknown dynamic class (A4: the classes of the repository);
# `hasattr(control, "add_transaction")` is decided on the dynamic class (class tag).  InvControls: the list has no
# duplicates (BaseFlumine.add_client_control appends a freshly constructed control).
class_tag("BaseControl", "dyn_class")


def is_counter(ctrl):
    return isinstance(ctrl, MaxTransactionCount)


def in_prefix(lst, c, n):
    return exists(lambda j: lst[j] == c, 0, n)


def counts_of(client, c):
    """c is one of the client's counting controls"""
    return in_prefix(client.trading_controls, c, len(client.trading_controls))


def distinct_controls(client):
    return forall_int(lambda a, b: implies(0 <= a and a < b and b < len(client.trading_controls), client.trading_controls[a] != client.trading_controls[b]))


def charged_exactly(client, n_placed, n_failed):
    """every counting control of `client` grew by exactly (n_placed, n_failed) in its total and its hourly counters;
    every other counting control in the system (other clients) is untouched"""
    return forall_ref(lambda c: c.transaction_count == old(c.transaction_count) + (n_placed if counts_of(client, c) else 0)
                      and c.current_transaction_count == old(c.current_transaction_count) + (n_placed if counts_of(client, c) else 0)
                      and c.failed_transaction_count == old(c.failed_transaction_count) + (n_failed if counts_of(client, c) else 0)
                      and c.current_failed_transaction_count == old(c.current_failed_transaction_count) + (n_failed if counts_of(client, c) else 0),
                      "MaxTransactionCount")


@contract("flumine/clients/baseclient.py::BaseClient.add_transaction", tags=["C18", "C12"])
def _(self, count: INT, failed: BOOL = False):
    requires("controls_distinct", distinct_controls(self))
    modifies_all("MaxTransactionCount.transaction_count")
    modifies_all("MaxTransactionCount.current_transaction_count")
    modifies_all("MaxTransactionCount.failed_transaction_count")
    modifies_all("MaxTransactionCount.current_failed_transaction_count")
    invariant(0, "charged_so_far", forall_ref(
        lambda c: c.transaction_count == old(c.transaction_count) + (count if (not failed and in_prefix(self.trading_controls, c, _i0)) else 0)
        and c.current_transaction_count == old(c.current_transaction_count) + (count if (not failed and in_prefix(self.trading_controls, c, _i0)) else 0)
        and c.failed_transaction_count == old(c.failed_transaction_count) + (count if (failed and in_prefix(self.trading_controls, c, _i0)) else 0)
        and c.current_failed_transaction_count == old(c.current_failed_transaction_count) + (count if (failed and in_prefix(self.trading_controls, c, _i0)) else 0),
        "MaxTransactionCount"))
    ensures("own_controls_charged_others_untouched", charged_exactly(self, 0 if failed else count, count if failed else 0))
