"""C07 - scan obligations over the current AST (DESIGN C07: "all time seen by strategies during a run is the publish time").

S1  the simulated clock flumine.config.current_time is written only by SimulatedDateTime.__call__/__enter__/reset_real_datetime
S2  no flumine module binds the datetime class early (`from datetime import datetime`): an early-bound class is not
    replaced by SimulatedDateTime's patch of the module attribute datetime.datetime, its utcnow() is the wall clock
S3  time.time() / time.monotonic() / datetime.now() are used only in the live-only functions listed below
Each scan is one obligation; a hit is reported as a VIOLATION with the file and line.
"""
import ast

CLOCK_WRITERS = {
    ("flumine/simulation/utils.py", "SimulatedDateTime.__call__"),
    ("flumine/simulation/utils.py", "SimulatedDateTime.__enter__"),
    ("flumine/simulation/utils.py", "SimulatedDateTime.reset_real_datetime"),
}
WALL_CLOCK_ALLOWED = {
    ("flumine/baseflumine.py", "BaseFlumine._process_market_books"),  # overridden by FlumineSimulation._process_market_books
    ("flumine/streams/orderstream.py", "OrderStream.handle_output"),  # live order stream (never started by FlumineSimulation)
    ("flumine/execution/baseexecution.py", "BaseExecution._get_http_session"),  # live http sessions
    ("flumine/execution/baseexecution.py", "BaseExecution._create_new_session"),
    ("flumine/execution/baseexecution.py", "BaseExecution._return_http_session"),
}


def _functions(tree):
    """yield (qualified name, node) for every function / method"""
    for n in tree.body:
        if isinstance(n, ast.FunctionDef):
            yield n.name, n
        elif isinstance(n, ast.ClassDef):
            for m in n.body:
                if isinstance(m, ast.FunctionDef):
                    yield "%s.%s" % (n.name, m.name), m


def run(repo, spec, ground, repo_root):
    out = dict(obligations=3, discharged=0, violations=[], samples=[], assumptions=[], ground=[])
    s1, s2, s3 = [], [], []
    for mi in repo.modules.values():
        rel = mi.relpath
        # S2: early binding of the datetime class (module level or anywhere)
        for n in ast.walk(mi.tree):
            if isinstance(n, ast.ImportFrom) and n.module == "datetime" and n.level == 0:
                for a in n.names:
                    if a.name == "datetime" and rel != "flumine/simulation/utils.py":
                        s2.append("%s:%d from datetime import datetime" % (rel, n.lineno))
        funcs = dict(_functions(mi.tree))
        covered = set()
        for qn, fn in funcs.items():
            for n in ast.walk(fn):
                covered.add(id(n))
                # S1: store to <something>.current_time where the base is the config module
                if isinstance(n, ast.Attribute) and isinstance(n.ctx, ast.Store) and n.attr == "current_time":
                    if (rel, qn) not in CLOCK_WRITERS:
                        s1.append("%s:%d %s writes .current_time" % (rel, n.lineno, qn))
                if isinstance(n, ast.Call) and isinstance(n.func, ast.Attribute):
                    f = n.func
                    if isinstance(f.value, ast.Name) and f.value.id == "time" and f.attr in ("time", "monotonic", "perf_counter"):
                        if (rel, qn) not in WALL_CLOCK_ALLOWED:
                            s3.append("%s:%d %s calls time.%s()" % (rel, n.lineno, qn, f.attr))
                    if f.attr in ("now", "today") and isinstance(f.value, ast.Attribute) and f.value.attr == "datetime":
                        s3.append("%s:%d %s calls datetime.%s()" % (rel, n.lineno, qn, f.attr))
        for n in ast.walk(mi.tree):
            if id(n) in covered:
                continue
            if isinstance(n, ast.Attribute) and isinstance(n.ctx, ast.Store) and n.attr == "current_time":
                s1.append("%s:%d module level write of .current_time" % (rel, n.lineno))
    for name, hits, what in (
        ("scan:simulated_clock_written_only_by_SimulatedDateTime", s1, "another writer of config.current_time"),
        ("scan:datetime_class_never_bound_early", s2, "early-bound datetime class: utcnow() is the wall clock, not the simulated clock"),
        ("scan:wall_clock_only_in_live_only_functions", s3, "wall clock read outside the live-only functions"),
    ):
        if hits:
            out["violations"].append(dict(obligation="C07/" + name, function="(scan)", kind="scan", hits=hits, what=what, native=dict(confirmed=False)))
        else:
            out["discharged"] += 1
        out["samples"].append(dict(obligation="C07/" + name, verdict="holds" if not hits else "fails", hits=hits[:5]))
    out["assumptions"].append("C07 scans are syntactic (AST of flumine/**): aliases such as `c = config; c.current_time = x` or `import time as t` are not seen")
    return out
