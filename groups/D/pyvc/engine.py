"""pyvc: verification-condition generator over the real flumine source.

Symbolic execution of the *AST read from /repo on this run*, one path at a time
(decision replay), loops cut by sidecar invariants, calls replaced by sidecar
contracts (modular), obligations collected as (path condition => goal).
"""
import ast
import copy
import re
from fractions import Fraction

import z3

from .values import *  # noqa
from .values import _fresh_counter
from . import builtins_model as bm


class Infeasible(Exception):
    pass


class PathEnd(Exception):
    pass


class PyRaise(Exception):
    def __init__(self, exc, msg=None, line=None):
        self.exc = exc
        self.msg = msg
        self.line = line


class ReturnEx(Exception):
    def __init__(self, value):
        self.value = value


class BreakEx(Exception):
    pass


class ContinueEx(Exception):
    pass


BUILTIN_EXC = {
    "BaseException": None,
    "Exception": "BaseException",
    "ArithmeticError": "Exception",
    "ZeroDivisionError": "ArithmeticError",
    "LookupError": "Exception",
    "KeyError": "LookupError",
    "IndexError": "LookupError",
    "ValueError": "Exception",
    "TypeError": "Exception",
    "AttributeError": "Exception",
    "RuntimeError": "Exception",
    "NotImplementedError": "RuntimeError",
    "StopIteration": "Exception",
    "AssertionError": "Exception",
    "BetfairError": "Exception",
    "APIError": "BetfairError",
}


class Obligation:
    def __init__(self, name, pc, goal, kind, line=None, path=None, func=None, tags=()):
        self.name = name
        self.pc = list(pc)
        self.goal = goal
        self.kind = kind
        self.line = line
        self.path = path
        self.func = func
        self.tags = tuple(tags)
        self.extra = {}


class Path:
    def __init__(self, prefix, engine):
        self.prefix = list(prefix)
        self.taken = []
        self.labels = []
        self.pc = []
        self.engine = engine
        self.solver = z3.Solver()
        self.solver.set("timeout", engine.feas_timeout_ms)
        self.heap = {}
        self.heap0 = None
        self.nalloc = 0
        self.alloc_sym = []  # symbolic numbers of objects allocated by callees whose contract says allocates=True
        self.obligations = []
        self.covers = []
        self.ghost = {}
        self.notes = []

    def choose(self, n, label=""):
        i = len(self.taken)
        c = self.prefix[i] if i < len(self.prefix) else 0
        self.taken.append((c, n))
        self.labels.append("%s=%d" % (label, c))
        return c

    def assume(self, cond, check=True):
        if cond is True:
            return
        if cond is False:
            raise Infeasible()
        if z3.is_true(cond):
            return
        self.pc.append(cond)
        if not is_light(cond):
            # hard facts (quantifiers, rounding, non-linear terms) are kept out of the feasibility solver:
            # it then over-approximates feasibility, which only costs pruning, never soundness
            if z3.is_and(cond):
                light = [c for c in cond.children() if is_light(c)]
                if light:
                    self.solver.add(*light)
            return
        self.solver.add(cond)
        if check and self.engine.prune:
            r = self.solver.check()
            if r == z3.unsat:
                raise Infeasible()

    def feasible_with(self, cond):
        """quick test: is pc /\\ cond satisfiable (unknown counts as yes)"""
        if cond is True:
            return True
        if cond is False:
            return False
        self.solver.push()
        self.solver.add(cond)
        r = self.solver.check()
        self.solver.pop()
        return r != z3.unsat

    def pathid(self):
        return ".".join(str(c) for c, _ in self.taken)


_LIGHT_CACHE = {}


def is_light(f, budget=4000):
    k = f.get_id()
    hit = _LIGHT_CACHE.get(k)
    if hit is not None and hit[0].eq(f):
        return hit[1]
    r = _is_light(f, budget)
    if len(_LIGHT_CACHE) > 200000:
        _LIGHT_CACHE.clear()
    _LIGHT_CACHE[k] = (f, r)
    return r


def _is_light(f, budget=4000):
    todo = [f]
    seen = set()
    n = 0
    while todo:
        t = todo.pop()
        i = t.get_id()
        if i in seen:
            continue
        seen.add(i)
        n += 1
        if n > budget:
            return False
        if z3.is_quantifier(t):
            return False
        if z3.is_app(t):
            k = t.decl().kind()
            if k == z3.Z3_OP_UNINTERPRETED and t.num_args() > 0:
                nm = t.decl().name()
                if nm.startswith("RND") or nm.startswith("SUM"):
                    return False
            if k in (z3.Z3_OP_MUL, z3.Z3_OP_DIV, z3.Z3_OP_IDIV, z3.Z3_OP_MOD):
                nonconst = [c for c in t.children() if not (z3.is_rational_value(c) or z3.is_int_value(c))]
                if k == z3.Z3_OP_MUL and len(nonconst) >= 2:
                    return False
                if k != z3.Z3_OP_MUL and not (z3.is_rational_value(t.arg(1)) or z3.is_int_value(t.arg(1))):
                    return False
            todo.extend(t.children())
    return True


class Frame:
    def __init__(self, module, cls, func, locals_):
        self.module = module
        self.cls = cls
        self.func = func
        self.locals = locals_
        self.entry = {}
        self.contract = None
        self.loop_ordinal = 0
        self.depth = 0
        self.old_heap = None
        self.old_locals = None

    def spec_frame_extra(self):
        return None


class Engine:
    def __init__(self, repo, spec, feas_timeout_ms=150, prune=True):
        self.repo = repo
        self.spec = spec  # loaded sidecars (contracts.Spec)
        self.feas_timeout_ms = feas_timeout_ms
        self.prune = prune
        self.path = None
        self.const_cache = {}
        self.inlined = set()
        self.called_contracts = set()
        self.max_inline_depth = 6

    # ------------------------------------------------------------------ exploration
    def explore(self, run, max_paths=4000):
        stack = [[]]
        results = []
        npaths = 0
        while stack:
            prefix = stack.pop()
            npaths += 1
            if npaths > max_paths:
                raise EngineLimit("more than %d paths" % max_paths)
            _fresh_counter[0] = 0
            p = Path(prefix, self)
            self.path = p
            status = "done"
            try:
                run(p)
            except Infeasible:
                status = "infeasible"
            except PathEnd:
                status = "end"
            except EngineLimit:
                # the feasibility solver only sees the quantifier-free facts: a path that hits an engine limit may be
                # excluded by a quantified precondition / invariant - decide that with the full path condition first
                if not self.path_infeasible_full(p):
                    raise
                status = "infeasible"
            for i in range(len(prefix), len(p.taken)):
                c, n = p.taken[i]
                for alt in range(c + 1, n):
                    stack.append([t[0] for t in p.taken[:i]] + [alt])
            results.append((p, status))
        return results

    def path_infeasible_full(self, p):
        """True when the complete path condition (quantified facts included) is unsatisfiable (z3 5.1, then z3 4.8 CLI)"""
        from . import solve

        try:
            s = z3.Solver()
            s.set("timeout", 3000)
            for a in p.pc:
                s.add(solve.skolemize(a))
            if s.check() == z3.unsat:
                return True
            v, _ = solve.cli_z3_old(s.to_smt2(), 10)
            return v == "unsat"
        except z3.Z3Exception:
            return False

    # ------------------------------------------------------------------ heap
    def field_info(self, clsname, field):
        return self.spec.field_sort(self.repo, clsname, field)

    def heap_arrays(self, key, sort, heap=None):
        heap = self.path.heap if heap is None else heap
        arrs = []
        for i, zs in enumerate(z3sorts(sort)):
            k = key + (i,)
            if k not in heap:
                heap[k] = z3.Array("H0_%s_%d" % (".".join(str(x) for x in key), i), z3.IntSort(), zs)
            arrs.append(heap[k])
        return arrs

    bound_depth = 0

    def purify(self, terms):
        """real-valued heap reads are named by fresh real constants (v == select(..)): z3 / cvc5 do not decide
        integrality (to_int) goals over array-select terms in practice, over constants they do"""
        p = self.path
        if p is None or self.bound_depth > 0:
            return terms
        reg = p.ghost.setdefault("pure_reads", {})
        out = []
        for t in terms:
            if z3.is_real(t) and not z3.is_const(t):
                t = z3.simplify(t)  # select over store at the same index collapses to the stored term
            if z3.is_real(t) and z3.is_app(t) and t.decl().kind() == z3.Z3_OP_SELECT and not has_bvar(t):
                hit = reg.get(t.get_id())
                if hit is None or not hit[0].eq(t):
                    hit = (t, z3.Real(fresh_name("rd")))
                    reg[t.get_id()] = hit
                    p.assume(hit[1] == t, check=False)
                out.append(hit[1])
            else:
                out.append(t)
        return out

    def read_field(self, ref, owner, field, sort, heap=None, assume_wf=True):
        arrs = self.heap_arrays((owner, field), sort, heap)
        terms = self.purify([z3.Select(a, zr(ref)) for a in arrs])
        v = unflatten(sort, terms)
        if assume_wf and heap is None:
            self.wf_assume(v)
            if all(is_initial_array(a) for a in arrs):
                self.wf_assume_entry(v, zr(ref), owner)
                if self.bound_depth > 0:
                    self.wf_entry_closed(owner, field, sort, arrs)
        return v

    def wf_entry_closed(self, owner, field, sort, arrs):
        """the entry heap is closed under references: a field (as at entry) of an object that existed at entry refers to an
        object that existed at entry - the quantified form of wf_assume_entry, stated once per field when the field is read
        under a binder (where the per-read fact cannot be stated)"""
        s = sort
        opt = isinstance(s, Opt)
        inner = s.inner if opt else s
        if not isinstance(inner, (Ref, ListOf, MapOf)) or self.path is None:
            return
        reg = self.path.ghost.setdefault("wf_closed", set())
        if (owner, field) in reg:
            return
        reg.add((owner, field))
        r = bvar("wfc")
        a0 = self.alloc0(self.space_of_key((owner,)))
        av = self.alloc0(self.space_of_sort(inner))
        if opt:
            isn, val = z3.Select(arrs[0], r), z3.Select(arrs[1], r)
            body = z3.Or(isn, z3.And(val > 0, val <= av))
        else:
            val = z3.Select(arrs[0], r)
            body = z3.And(val > 0, val <= av)
        self.path.assume(z3.ForAll([r], z3.Implies(z3.And(r > 0, r <= a0), body)), check=False)

    def wf_assume_entry(self, v, base, owner=None):
        """a reference read from a field that has not been written since entry, of an object that existed at entry, is an
        object that existed at entry (objects allocated later are only reachable through later writes)"""
        s = v.sort
        if self.bound_depth > 0:
            return
        ab = self.alloc0(self.space_of_key((owner,)) if owner is not None else "?")
        if isinstance(s, (Ref, ListOf, MapOf)):
            self.path.assume(z3.Implies(base <= ab, zr(v.t) <= self.alloc0(self.space_of_sort(s))), check=False)
        elif isinstance(s, Opt) and isinstance(s.inner, (Ref, ListOf, MapOf)):
            isn, inner = v.t
            self.path.assume(z3.Implies(z3.And(base <= ab, z3.Not(zb(isn))), zr(inner.t) <= self.alloc0(self.space_of_sort(s))), check=False)

    def wf_assume(self, v):
        """type invariants of a value read from the (well-formed) heap"""
        p = self.path
        s = v.sort
        if self.bound_depth > 0:
            # under a binder the read may be at an out-of-range index of a list (default 0): asserting well-formedness
            # of a term over the bound variable as a path fact is unsound (it made the loop-head state of C07
            # _check_pending_packages vacuous); closed terms are fine
            t0 = v.t[1].t if isinstance(s, Opt) and isinstance(s.inner, (Ref, ListOf, MapOf)) else v.t
            if not isinstance(s, (Ref, ListOf, MapOf, Opt)) or not hasattr(t0, "get_id") or has_bvar(zr(t0)):
                return
            if isinstance(s, Opt) and has_bvar(zb(v.t[0])):
                return
        if isinstance(s, (Ref, ListOf, MapOf)):
            p.assume(z3.And(zr(v.t) > 0, zr(v.t) <= self.alloc_term(self.space_of_sort(s))), check=False)
            if isinstance(s, ListOf):
                self.wf_list_elems(v)
        elif isinstance(s, Opt) and isinstance(s.inner, (Ref, ListOf, MapOf)):
            isn, inner = v.t
            p.assume(z3.Or(zb(isn), z3.And(zr(inner.t) > 0, zr(inner.t) <= self.alloc_term(self.space_of_sort(s)))), check=False)

    def wf_list_elems(self, lv):
        """the elements of a heap list of references are allocated objects (no dangling references): a quantified
        well-formedness fact, stated once per (list, state of the list arrays)"""
        elem = lv.sort.elem
        if not isinstance(elem, (Ref, ListOf, MapOf)):
            return
        p = self.path
        items = self.list_items(lv.t, elem)[0]
        n = self.list_len(lv.t, elem)
        reg = p.ghost.setdefault("wf_lists", set())
        key = (items.get_id(), n.get_id())
        if key in reg:
            return
        reg.add(key)
        i = bvar("wfl")
        e = z3.Select(items, i)
        hi = self.alloc_term(self.space_of_sort(elem))
        if is_initial_select(items) and is_initial_select(n):
            # list untouched since entry: its elements existed at entry (when the list itself did)
            hi = z3.If(zr(lv.t) <= self.alloc0(self.space_of_sort(lv.sort)), self.alloc0(self.space_of_sort(elem)), hi)
        p.assume(z3.ForAll([i], z3.Implies(z3.And(0 <= i, i < n), z3.And(e > 0, e <= hi))), check=False)
        p.assume(n >= 0, check=False)

    # Typed address spaces: references of unrelated classes / lists of different element sorts live in different heap
    # arrays and are never compared, so each class hierarchy and each container sort gets its OWN entry allocation
    # bound alloc0!<space>.  (With one shared bound, "every Responses object owns two distinct report lists" and "the
    # entry heap is closed under references" are contradictory by a pigeonhole argument - every integer <= alloc0 would
    # be a Responses object AND a list.)  The counters of objects allocated since entry are shared by all spaces.
    def space_of_sort(self, sort):
        if isinstance(sort, Opt):
            sort = sort.inner
        if isinstance(sort, Ref):
            m = self.repo.mro(sort.cls)
            return "C:" + (m[-1] if m else sort.cls)
        if isinstance(sort, MapOf):
            return "M:%s,%s" % (sort.key.name, sort.val.name)
        if isinstance(sort, ListOf):
            return "L:" + sort.elem.name
        return "?"

    def space_of_key(self, k):
        if k[0] == "$List":
            return "L:" + str(k[1])
        if k[0] == "$Map":
            return "M:%s,%s" % (k[1], k[2])
        if str(k[0]).startswith("$mod:"):
            return "?"
        m = self.repo.mro(k[0])
        return "C:" + (m[-1] if m else k[0])

    def alloc0(self, space="?"):
        return z3.Int("alloc0" if space in (None, "?") else "alloc0!" + space)

    def alloc_snapshot(self):
        return (self.path.nalloc, len(self.path.alloc_sym))

    def alloc_at(self, space, snap=None):
        """allocation bound of a space at a snapshot (None: function entry)"""
        b = self.alloc0(space)
        if snap is None:
            return b
        n, ns = snap
        for a in self.path.alloc_sym[:ns]:
            b = b + a
        return b + n if n else b

    def alloc_base(self, space="?"):
        b = self.alloc0(space)
        for a in self.path.alloc_sym:
            b = b + a
        return b

    def alloc_term(self, space="?"):
        return self.alloc_base(space) + self.path.nalloc

    def callee_allocates(self):
        """a callee may have allocated an unknown number of objects: later references lie above them"""
        a = z3.Int(fresh_name("nalloc"))
        self.path.assume(a >= 0, check=False)
        self.path.alloc_sym.append(a)

    def write_field(self, ref, owner, field, sort, value):
        arrs = self.heap_arrays((owner, field), sort)
        terms = flatten(value, sort)
        for i, (a, t) in enumerate(zip(arrs, terms)):
            self.path.heap[(owner, field, i)] = z3.Store(a, zr(ref), t)

    def havoc_field_at(self, ref, owner, field, sort, prefix="hv"):
        v = fresh_value(sort, "%s_%s_%s" % (prefix, owner, field))
        self.write_field(ref, owner, field, sort, v)
        return v

    def havoc_field_all(self, owner, field, sort, prefix="hva"):
        for i, zs in enumerate(z3sorts(sort)):
            self.path.heap[(owner, field, i)] = z3.Array(fresh_name("%s_%s_%s_%d" % (prefix, owner, field, i)), z3.IntSort(), zs)

    def new_ref(self, sort=None):
        self.path.nalloc += 1
        return self.alloc_base(self.space_of_sort(sort) if sort is not None else "?") + self.path.nalloc

    # lists ------------------------------------------------------------
    def list_len(self, lref, elem, heap=None):
        arr = self.heap_arrays(("$List", elem.name, "len"), INT, heap)[0]
        return sel_simplify(arr, zr(lref), self)

    def list_items(self, lref, elem, heap=None):
        """-> list of z3 arrays (Int -> comp) for the components of elem"""
        heap = self.path.heap if heap is None else heap
        out = []
        for i, zs in enumerate(z3sorts(elem)):
            k = ("$List", elem.name, "items", i)
            if k not in heap:
                heap[k] = z3.Array("H0_List_%s_items_%d" % (elem.name, i), z3.IntSort(), z3.ArraySort(z3.IntSort(), zs))
            out.append(sel_simplify(heap[k], zr(lref), self))
        return out

    def touch_list_arrays(self, elem):
        """materialise the (lazily created) heap arrays of lists with this element sort, so that a later havoc replaces them"""
        self.heap_arrays(("$List", elem.name, "len"), INT)
        self.list_items(z3.IntVal(0), elem)

    def list_get(self, lref, elem, idx, heap=None):
        comps = self.purify([z3.Select(a, zr(idx)) for a in self.list_items(lref, elem, heap)])
        v = unflatten(elem, comps)
        if heap is None:
            self.wf_assume(v)
        return v

    def list_set_all(self, lref, elem, length, item_arrays):
        h = self.path.heap
        lk = ("$List", elem.name, "len", 0)
        self.heap_arrays(("$List", elem.name, "len"), INT)
        h[lk] = z3.Store(h[lk], zr(lref), zr(length))
        self.list_items(lref, elem)
        for i, a in enumerate(item_arrays):
            k = ("$List", elem.name, "items", i)
            h[k] = z3.Store(h[k], zr(lref), a)

    def list_new(self, elem, values=()):
        r = self.new_ref(ListOf(elem))
        arrs = []
        for i, zs in enumerate(z3sorts(elem)):
            arrs.append(z3.K(z3.IntSort(), default_term(zs)))
        for j, v in enumerate(values):
            comps = flatten(v, elem)
            arrs = [z3.Store(a, z3.IntVal(j), c) for a, c in zip(arrs, comps)]
        self.list_set_all(r, elem, len(values), arrs)
        return SV(ListOf(elem), r)

    def list_append(self, lv, value):
        elem = lv.sort.elem
        n = self.list_len(lv.t, elem)
        arrs = self.list_items(lv.t, elem)
        comps = flatten(value, elem)
        arrs = [z3.Store(a, n, c) for a, c in zip(arrs, comps)]
        self.list_set_all(lv.t, elem, n + 1, arrs)

    # ------------------------------------------------------------------ obligations
    def oblige(self, name, goal, kind, line=None, extra=None):
        p = self.path
        if goal is True or (not isinstance(goal, bool) and z3.is_true(goal)):
            goal = z3.BoolVal(True)
        if goal is False:
            goal = z3.BoolVal(False)
        pc = p.pc
        if kind != "canary":
            goal, pc = self.subst_pinned(goal, pc)
        kf = self.known_regions.get(re.sub(r"@\d+", "", name)) if kind != "canary" else None
        if kf and self.region_frame is not None:
            saved = self.spec_mode
            self.spec_mode = True
            try:
                reg = zb(self.truth(self.eval(ast.parse(kf["region"], mode="eval").body, self.region_frame)))
            finally:
                self.spec_mode = saved
            inside = Obligation(name + "#known-region", pc + [reg], goal, "known-region", line, p.pathid(), self.cur_func, self.cur_tags)
            inside.extra = dict(extra or {}, labels=list(p.labels), axioms=list(self.sum_axioms()), what=kf["what"])
            p.obligations.append(inside)
            pc = pc + [z3.Not(reg)]
        ob = Obligation(name, pc, goal, kind, line, p.pathid(), self.cur_func, self.cur_tags)
        ob.extra = dict(extra or {})
        ob.extra["labels"] = list(p.labels)
        ob.extra["axioms"] = list(self.sum_axioms())
        p.obligations.append(ob)
        return ob

    def subst_pinned(self, goal, pc):
        """integer terms under non-linear operators that the path pins to a single value are replaced by it
        (in the goal and in the path condition) - the path condition still carries the pinning facts"""
        cands = {}
        todo = [goal] + [c for c in pc if not is_light(c)]
        seen = set()
        while todo:
            t = todo.pop()
            if t.get_id() in seen or z3.is_quantifier(t):
                continue
            seen.add(t.get_id())
            if z3.is_app(t):
                if t.decl().kind() in (z3.Z3_OP_MUL, z3.Z3_OP_DIV):
                    for ch in t.children():
                        u = ch
                        if z3.is_app(u) and u.decl().kind() == z3.Z3_OP_TO_REAL:
                            u = u.arg(0)
                        if z3.is_int(u) and not z3.is_int_value(u):
                            cands[u.get_id()] = u
                todo.extend(t.children())
        if not cands:
            return goal, pc
        from . import builtins_model as bm2

        subs = []
        for u in cands.values():
            v = bm2.pinned_int(self, u)
            if isinstance(v, int):
                subs.append((u, z3.IntVal(v)))
        if not subs:
            return goal, pc
        goal = z3.simplify(z3.substitute(goal, *subs))
        facts = [u == v for u, v in subs]
        pc = [c if is_light(c) else z3.substitute(c, *subs) for c in pc] + facts
        return goal, pc

    # ------------------------------------------------------------------ sums (spec level)
    def sum_axioms(self):
        return bm.sum_axioms(self)

    # ------------------------------------------------------------------ name resolution
    def lookup_name(self, name, frame):
        if name in frame.locals:
            return frame.locals[name]
        return self.lookup_global(name, frame.module)

    def lookup_global(self, name, module):
        if module is not None:
            if name in module.functions:
                return PyVal("func", module=module, cls=None, node=module.functions[name], name=name)
            if name in module.classes:
                return PyVal("class", ci=module.classes[name])
            if name in module.assigns:
                return self.module_const(module, name)
            if name in module.imports:
                r = self.repo.resolve_import(module, name)
                return self.import_value(r, name)
        sp = self.spec.lookup(name)
        if sp is not None:
            return sp
        if (module is None or self.spec_mode) and name in self.repo.classes:
            # specifications may name any class of the repository (enum members, isinstance) whatever the verified module imports
            return PyVal("class", ci=self.repo.classes[name])
        if name in bm.BUILTINS:
            return PyVal("builtin", name=name)
        if name in BUILTIN_EXC:
            return PyVal("excclass", name=name)
        if name in ("True", "False", "None"):
            return {"True": TRUE_V, "False": FALSE_V, "None": NONE_V}[name]
        raise EngineLimit("unresolved name %s" % name)

    def import_value(self, r, name):
        if r is None:
            raise EngineLimit("unresolved import %s" % name)
        if r[0] == "module":
            return PyVal("module", module=r[1])
        if r[0] == "extmodule":
            return PyVal("extmodule", name=r[1])
        if r[0] == "ext":
            if r[2] in BUILTIN_EXC:
                return PyVal("excclass", name=r[2])
            # `from mod import name`: the object is bound at import time (early); attribute access through the module
            # object (`import mod; mod.name`) is looked up at call time (late) - matters for run-time patched attributes
            return PyVal("ext", module=r[1], name=r[2], early=True)
        if r[0] == "func":
            return PyVal("func", module=r[1], cls=None, node=r[2], name=r[2].name)
        if r[0] == "class":
            return PyVal("class", ci=r[1])
        if r[0] == "const":
            return self.module_const(r[1], r[2])
        raise EngineLimit("import %s" % (r,))

    def module_const(self, module, name):
        key = (module.modname, name)
        if key in self.const_cache:
            return self.const_cache[key]
        declared = self.spec.const_spec(module, name)
        if declared is not None:
            self.const_cache[key] = declared
            return declared
        node = module.assigns[name]
        fr = Frame(module, None, None, {})
        saved = self.path
        try:
            v = self.eval(node, fr)
        finally:
            self.path = saved
        self.const_cache[key] = v
        return v

    # ------------------------------------------------------------------ truthiness / comparison
    def truth(self, v):
        """-> python bool or z3 Bool (no forking)"""
        if isinstance(v, PyVal):
            if v.kind in ("tuple", "list", "set"):
                return len(v.items) > 0
            if v.kind == "dictlit":
                return len(v.items) > 0
            if v.kind == "str":
                return len(v.s) > 0
            return True
        s = v.sort
        if s == NONE:
            return False
        if s == BOOL:
            return v.t
        if s in (REAL, INT):
            if is_conc_num(v.t):
                return v.t != 0
            return v.t != 0
        if s == ATOM:
            if isinstance(v.t, Atom):
                return v.t.name != "str:"
            return v.t != ATOMS.code("str:")
        if isinstance(s, Opt):
            isn, inner = v.t
            return bm.and_(bm.not_(isn), self.truth(inner))
        if isinstance(s, Tup):
            return len(v.t) > 0
        if isinstance(s, ListOf):
            return self.list_len(v.t, s.elem) > 0
        if isinstance(s, MapOf):
            return bm.map_size(self, v) > 0
        if isinstance(s, Ref):
            mem = self.repo.lookup_member(s.cls, "__bool__") or self.repo.lookup_member(s.cls, "__len__")
            if mem:
                ab = self.spec.abstract_bool(s.cls)
                if ab is not None:
                    return self.read_field(v.t, ab[0], ab[1], BOOL).t
                raise EngineLimit("truthiness of %s (defines __bool__/__len__)" % s.cls)
            return True
        if s == CHARS:
            return zr(v.t[0]) > 0
        raise EngineLimit("truthiness of %s" % s)

    def eq(self, a, b):
        return bm.equal(self, a, b)

    # ------------------------------------------------------------------ branching helper
    def branch(self, cond, label="if"):
        """fork on a (python or z3) boolean; returns python bool for this path"""
        if isinstance(cond, bool):
            return cond
        cond = z3.simplify(cond)
        if z3.is_true(cond):
            return True
        if z3.is_false(cond):
            return False
        p = self.path
        c = p.choose(2, label)
        if c == 0:
            p.assume(cond)
            return True
        p.assume(z3.Not(cond))
        return False

    def decide(self, cond):
        """True / False when the path condition settles cond, else None (used to simplify spec terms)"""
        if isinstance(cond, bool):
            return cond
        p = self.path
        if p is None:
            return None
        cond = z3.simplify(cond)
        if z3.is_true(cond):
            return True
        if z3.is_false(cond):
            return False
        if z3.is_quantifier(cond):
            return None
        if not p.feasible_with(cond):
            return False
        if not p.feasible_with(z3.Not(cond)):
            return True
        return None

    def deref(self, v, exc="AttributeError", line=None):
        """Opt value -> inner (forks a None path raising exc)"""
        while isinstance(v, SV) and isinstance(v.sort, Opt):
            isn, inner = v.t
            if self.spec_mode:
                return inner
            if self.branch(isn, "isnone"):
                raise PyRaise(exc, "None dereference", line)
            v = inner
        if isinstance(v, SV) and v.sort == NONE:
            if self.spec_mode:
                raise EngineLimit("None dereference in spec")
            raise PyRaise(exc, "None dereference", line)
        return v

    spec_mode = False
    known_regions = {}
    region_frame = None
    cur_func = None
    cur_short = "?"
    cur_tags = ()

    # ------------------------------------------------------------------ expressions
    def eval(self, node, fr):
        m = getattr(self, "e_" + type(node).__name__, None)
        if m is None:
            raise EngineLimit("expression %s at line %s" % (type(node).__name__, getattr(node, "lineno", "?")))
        return m(node, fr)

    def e_Constant(self, node, fr):
        return bm.const_value(node.value)

    def e_Name(self, node, fr):
        return self.lookup_name(node.id, fr)

    def e_Tuple(self, node, fr):
        items = [self.eval(e, fr) for e in node.elts]
        return bm.make_tuple(items)

    def e_List(self, node, fr):
        items = [self.eval(e, fr) for e in node.elts]
        return PyVal("list", items=items)

    def e_Set(self, node, fr):
        items = [self.eval(e, fr) for e in node.elts]
        return PyVal("set", items=items)

    def e_Dict(self, node, fr):
        items = []
        for k, v in zip(node.keys, node.values):
            if k is None:
                continue  # **spread (only in logging extras)
            items.append((self.eval(k, fr), self.eval(v, fr)))
        return PyVal("dictlit", items=items)

    def e_JoinedStr(self, node, fr):
        return bm.opaque_string(self, "fstring")

    def e_UnaryOp(self, node, fr):
        v = self.eval(node.operand, fr)
        if isinstance(node.op, ast.Not):
            return SV(BOOL, bm.not_(self.truth(v)))
        v = self.deref(v, "TypeError", node.lineno)
        if isinstance(node.op, ast.USub):
            return bm.arith(self, "neg", v, None, node.lineno)
        if isinstance(node.op, ast.UAdd):
            return v
        raise EngineLimit("unary op")

    def e_BinOp(self, node, fr):
        a = self.eval(node.left, fr)
        b = self.eval(node.right, fr)
        return self.binop(node.op, a, b, node.lineno)

    def binop(self, op, a, b, line):
        opn = type(op).__name__
        if opn == "Mod" and ((isinstance(a, PyVal) and a.kind == "str") or (isinstance(a, SV) and a.sort == ATOM)):
            return bm.str_format(self, a, b)
        if isinstance(a, PyVal) or isinstance(b, PyVal) or (isinstance(a, SV) and isinstance(a.sort, (ListOf, Tup))):
            return bm.container_binop(self, opn, a, b, line)
        if isinstance(a, SV) and a.sort == CHARS or isinstance(b, SV) and b.sort == CHARS:
            return bm.chars_binop(self, opn, a, b)
        a = self.deref(a, "TypeError", line)
        b = self.deref(b, "TypeError", line)
        return bm.arith(self, opn, a, b, line)

    def e_BoolOp(self, node, fr):
        isand = isinstance(node.op, ast.And)
        if self.spec_mode:
            vals = [self.eval(v, fr) for v in node.values]
            ts = [self.truth(v) for v in vals]
            if all(isinstance(v, SV) and v.sort == BOOL for v in vals):
                return SV(BOOL, bm.and_(*ts) if isand else bm.or_(*ts))
            # value semantics: fold from the right with ite
            res = vals[-1]
            for v, t in zip(reversed(vals[:-1]), reversed(ts[:-1])):
                res = bm.ite(self, t, res, v) if isand else bm.ite(self, t, v, res)
            return res
        v = None
        for i, e in enumerate(node.values):
            v = self.eval(e, fr)
            if i == len(node.values) - 1:
                return v
            t = self.truth(v)
            tb = self.branch(t, "and" if isand else "or")
            if isand and not tb:
                return v
            if (not isand) and tb:
                return v
        return v

    def e_IfExp(self, node, fr):
        c = self.eval(node.test, fr)
        t = self.truth(c)
        if self.spec_mode:
            d = self.decide(t)
            if d is not None:
                return self.eval(node.body if d else node.orelse, fr)
            return bm.ite(self, t, self.eval(node.body, fr), self.eval(node.orelse, fr))
        if self.branch(t, "ifexp"):
            return self.eval(node.body, fr)
        return self.eval(node.orelse, fr)

    def e_Compare(self, node, fr):
        left = self.eval(node.left, fr)
        res = []
        for op, rn in zip(node.ops, node.comparators):
            right = self.eval(rn, fr)
            res.append(self.compare(op, left, right, node.lineno))
            left = right
        if len(res) == 1:
            return SV(BOOL, res[0])
        return SV(BOOL, bm.and_(*res))

    def compare(self, op, a, b, line):
        opn = type(op).__name__
        if opn in ("Is", "IsNot") and isinstance(a, SV) and isinstance(b, SV) and isinstance(a.sort, (ListOf, MapOf)) and isinstance(b.sort, (ListOf, MapOf)):
            same = zr(a.t) == zr(b.t)  # identity of container objects (== on containers is structural)
            return same if opn == "Is" else z3.Not(same)
        if opn in ("Eq", "Is"):
            return self.eq(a, b)
        if opn in ("NotEq", "IsNot"):
            return bm.not_(self.eq(a, b))
        if opn == "In":
            return bm.contains(self, b, a, line)
        if opn == "NotIn":
            return bm.not_(bm.contains(self, b, a, line))
        a = self.deref(a, "TypeError", line)
        b = self.deref(b, "TypeError", line)
        return bm.order_compare(self, opn, a, b, line)

    def e_Attribute(self, node, fr):
        base = self.eval(node.value, fr)
        return self.getattr(base, node.attr, node.lineno, fr)

    def getattr(self, base, attr, line, fr=None):
        if isinstance(base, PyVal):
            return bm.pyval_getattr(self, base, attr, line)
        base = self.deref(base, "AttributeError", line)
        s = base.sort
        if isinstance(s, Ref):
            fi = self.field_info(s.cls, attr)
            if fi is not None:
                owner, fsort = fi
                return self.read_field(base.t, owner, attr, fsort)
            if self.spec.is_struct(s.cls) or self.spec.is_record(s.cls):
                return bm.value_getattr(self, base, attr, line)
            mem = self.repo.lookup_member(self.spec.dispatch.get(s.cls, s.cls), attr)
            if mem is None:
                vm = self.spec.virtual_member(s.cls, attr)
                if vm is not None:
                    return PyVal("vmethod", self_=base, cls=s.cls, name=attr)
                dyn = self.dynamic_member(base, attr, line)
                if dyn is not None:
                    return dyn
                raise EngineLimit("unknown attribute %s.%s (line %s)" % (s.cls, attr, line))
            kind, ci, n = mem
            if kind == "property":
                return self.call_function(ci.module, ci, n, [base], {}, line, qual="%s::%s.%s" % (ci.module.relpath, ci.name, attr))
            if kind == "method":
                if attr in ci.staticmethods:
                    return PyVal("func", module=ci.module, cls=ci, node=n, name=attr)
                return PyVal("bound", self_=base, module=ci.module, cls=ci, node=n, name=attr)
            if kind == "attr":
                frc = Frame(ci.module, ci, None, {})
                return self.eval(n, frc)
        return bm.value_getattr(self, base, attr, line)

    # ------------------------------------------------------------------ dynamic classes (A4: classes present in the repository)
    def subclasses_of(self, clsname):
        return sorted(c for c in self.repo.classes if self.repo.is_subclass(c, clsname))

    def subclass_members(self, clsname, attr):
        """repo subclasses of clsname that define/inherit attr although clsname itself does not: [(subclass, (kind, ci, node))]"""
        out = []
        for c in self.subclasses_of(clsname):
            if c == clsname:
                continue
            mem = self.repo.lookup_member(c, attr)
            if mem is not None:
                out.append((c, mem))
        return out

    def class_tag_term(self, v):
        return self.spec.class_tag(self, v)

    def tag_in(self, tag, names):
        return bm.or_(*[tag == z3.IntVal(ATOMS.code("cls:" + n)) for n in names])

    def assume_class_tag(self, v):
        """a reference of static class C whose hierarchy carries a class tag denotes an instance of a repo subclass of C"""
        if not (isinstance(v, SV) and isinstance(v.sort, Ref)) or self.path is None:
            return
        if not self.spec.class_tags:
            return
        tag = self.spec.class_tag(self, v)
        if tag is None:
            return
        self.path.assume(zb(self.tag_in(tag, self.subclasses_of(v.sort.cls))), check=False)

    def dynamic_member(self, base, attr, line):
        """attribute that only subclasses of the receiver's static class have: resolved by a case split on the dynamic
        class (class tag); the receiver is re-typed to the defining subclass. AttributeError when no subclass matches."""
        s = base.sort
        subs = self.subclass_members(s.cls, attr)
        if not subs:
            return None
        if self.spec_mode:
            raise EngineLimit("dynamic attribute %s.%s in a specification: cast with as_class()" % (s.cls, attr))
        tag = self.spec.class_tag(self, base)
        if tag is None:
            raise EngineLimit("attribute %s of a subclass of %s: declare class_tag(%r, ...) (line %s)" % (attr, s.cls, s.cls, line))
        groups = []
        for c, mem in subs:
            for g in groups:
                if g[0][2] is mem[2]:
                    g[1].append(c)
                    break
            else:
                groups.append((mem, [c]))
        for (kind, ci, n), names in groups:
            if self.branch(zb(self.tag_in(tag, names)), "dyncls:%s" % ci.name):
                target = ci.name if self.repo.is_subclass(ci.name, s.cls) else names[0]
                recv = SV(Ref(target), base.t)
                if kind == "property":
                    return self.call_function(ci.module, ci, n, [recv], {}, line, qual="%s::%s.%s" % (ci.module.relpath, ci.name, attr))
                if kind == "method":
                    if attr in ci.staticmethods:
                        return PyVal("func", module=ci.module, cls=ci, node=n, name=attr)
                    return PyVal("bound", self_=recv, module=ci.module, cls=ci, node=n, name=attr)
                return self.eval(n, Frame(ci.module, ci, None, {}))
        raise PyRaise("AttributeError", "no attribute %s" % attr, line)

    def e_Subscript(self, node, fr):
        base = self.eval(node.value, fr)
        if isinstance(node.slice, ast.Slice):
            lo = self.eval(node.slice.lower, fr) if node.slice.lower else None
            hi = self.eval(node.slice.upper, fr) if node.slice.upper else None
            if node.slice.step is not None:
                raise EngineLimit("slice step")
            return bm.slice_(self, base, lo, hi, node.lineno)
        idx = self.eval(node.slice, fr)
        return bm.subscript(self, base, idx, node.lineno)

    def e_Call(self, node, fr):
        # drop logging (A5)
        if bm.is_logging_call(node):
            if isinstance(node.func, ast.Attribute) and node.func.attr == "isEnabledFor":
                return fresh_value(BOOL, "isEnabledFor")
            return NONE_V
        if isinstance(node.func, ast.Name) and node.func.id in bm.SPEC_FORMS:
            return bm.spec_form(self, node, fr)
        f = self.eval(node.func, fr)
        args = []
        for a in node.args:
            if isinstance(a, ast.Starred):
                v = self.eval(a.value, fr)
                args += bm.iter_concrete(self, v)
            else:
                args.append(self.eval(a, fr))
        kwargs = {}
        for k in node.keywords:
            if k.arg is None:
                raise EngineLimit("**kwargs call")
            kwargs[k.arg] = self.eval(k.value, fr)
        return self.call(f, args, kwargs, node.lineno, fr)

    def e_Lambda(self, node, fr):
        return PyVal("lambda", node=node, frame=fr)

    def e_ListComp(self, node, fr):
        return bm.comprehension(self, node, fr, "list")

    def e_GeneratorExp(self, node, fr):
        return bm.comprehension(self, node, fr, "list")

    def e_SetComp(self, node, fr):
        return bm.comprehension(self, node, fr, "set")

    def e_DictComp(self, node, fr):
        return bm.dict_comprehension(self, node, fr)

    # ------------------------------------------------------------------ calls
    def call(self, f, args, kwargs, line, fr=None):
        if isinstance(f, SV):
            if isinstance(f.sort, Opt):
                f = self.deref(f, "TypeError", line)
            if isinstance(f.sort, Ref) and (self.repo.lookup_member(f.sort.cls, "__call__") or self.spec.virtual_member(f.sort.cls, "__call__")):
                # obj(args): type(obj).__call__(obj, args)
                return self.call(self.getattr(f, "__call__", line, fr), args, kwargs, line, fr)
            raise EngineLimit("call of symbolic value (line %s)" % line)
        k = f.kind
        if k == "builtin":
            return bm.call_builtin(self, f.name, args, kwargs, line, fr)
        if k == "specfunc":
            return self.call_specfunc(f, args, kwargs, line, fr)
        if k == "func":
            qual = "%s::%s" % (f.module.relpath, (f.cls.name + "." if f.cls else "") + f.name)
            return self.call_function(f.module, f.cls, f.node, args, kwargs, line, qual)
        if k == "bound":
            qual = "%s::%s.%s" % (f.module.relpath, f.cls.name, f.name)
            return self.call_function(f.module, f.cls, f.node, [f.self_] + args, kwargs, line, qual)
        if k == "vmethod":
            return self.call_virtual(f, args, kwargs, line)
        if k == "valmethod":
            return bm.call_value_method(self, f.self_, f.name, args, kwargs, line, fr)
        if k == "class":
            return bm.construct(self, f.ci, args, kwargs, line)
        if k == "excclass":
            return PyVal("excinst", name=f.name, args=args)
        if k == "lambda":
            return bm.call_lambda(self, f, args)
        if k == "ext":
            return bm.call_external(self, f, args, kwargs, line)
        raise EngineLimit("call of %s (line %s)" % (f, line))

    def call_specfunc(self, f, args, kwargs, line, caller=None):
        node = f.node
        fr = Frame(None, None, node, {})
        # old(e) inside a spec function: e in the pre-state heap of the enclosing clause, over the function's own parameters
        if caller is not None and getattr(caller, "old_heap", None) is not None:
            fr.old_heap = caller.old_heap
            fr.alloc_entry = getattr(caller, "alloc_entry", None)
        self.bind_params(node, fr, args, kwargs, None)
        saved = self.spec_mode
        self.spec_mode = True
        try:
            return self.exec_spec_body(node.body, fr)
        finally:
            self.spec_mode = saved

    def exec_spec_body(self, body, fr):
        """pure spec function: sequence of assignments, if/return; returns value (ite merged)"""
        for i, st in enumerate(body):
            if isinstance(st, ast.Expr) and isinstance(st.value, ast.Constant):
                continue
            if isinstance(st, ast.Assign) and len(st.targets) == 1 and isinstance(st.targets[0], ast.Name):
                fr.locals[st.targets[0].id] = self.eval(st.value, fr)
            elif isinstance(st, ast.Return):
                return self.eval(st.value, fr)
            elif isinstance(st, ast.If):
                c = self.truth(self.eval(st.test, fr))
                rest = body[i + 1 :]
                d = self.decide(c)
                if d is not None:
                    c = d
                if isinstance(c, bool):
                    return self.exec_spec_body((st.body if c else st.orelse) + rest, fr)
                fr1 = Frame(fr.module, None, fr.func, dict(fr.locals))
                fr2 = Frame(fr.module, None, fr.func, dict(fr.locals))
                for fx in (fr1, fr2):
                    fx.old_heap = fr.old_heap
                    fx.alloc_entry = getattr(fr, "alloc_entry", None)
                a = self.exec_spec_body(st.body + rest, fr1)
                b = self.exec_spec_body(st.orelse + rest, fr2)
                return bm.ite(self, c, a, b)
            else:
                raise EngineLimit("spec function statement %s" % type(st).__name__)
        return NONE_V

    def bind_params(self, node, fr, args, kwargs, module):
        a = node.args
        params = [p.arg for p in a.posonlyargs + a.args]
        defaults = a.defaults
        nd = len(defaults)
        args = list(args)
        for i, p in enumerate(params):
            if i < len(args):
                fr.locals[p] = args[i]
            elif p in kwargs:
                fr.locals[p] = kwargs.pop(p)
            else:
                di = i - (len(params) - nd)
                if di < 0:
                    raise EngineLimit("missing argument %s" % p)
                dfr = Frame(fr.module, None, None, {})
                fr.locals[p] = self.eval(defaults[di], dfr)
        if len(args) > len(params):
            if a.vararg:
                fr.locals[a.vararg.arg] = bm.make_tuple(args[len(params) :])
            else:
                raise EngineLimit("too many arguments")
        elif a.vararg:
            fr.locals[a.vararg.arg] = bm.make_tuple([])
        for ko, kd in zip(a.kwonlyargs, a.kw_defaults):
            if ko.arg in kwargs:
                fr.locals[ko.arg] = kwargs.pop(ko.arg)
            elif kd is not None:
                fr.locals[ko.arg] = self.eval(kd, Frame(fr.module, None, None, {}))
            else:
                raise EngineLimit("missing kwonly %s" % ko.arg)
        if a.kwarg:
            fr.locals[a.kwarg.arg] = PyVal("dictlit", items=[(bm.const_value(k), v) for k, v in kwargs.items()])
        elif kwargs:
            raise EngineLimit("unexpected kwargs %s" % list(kwargs))

    def _same_class_private_helper(self, qual):
        tgt = getattr(self, "cur_target", None)
        if not tgt or "::" not in qual or "::" not in tgt:
            return False
        (f1, n1), (f2, n2) = qual.split("::", 1), tgt.split("::", 1)
        if f1 != f2 or "." not in n1 or "." not in n2:
            return False
        (c1, m1), (c2, _) = n1.rsplit(".", 1), n2.rsplit(".", 1)
        return c1 == c2 and m1.startswith("_") and not m1.startswith("__") and getattr(self, "depth", 0) < 3

    def call_function(self, module, cls, node, args, kwargs, line, qual):
        """modular call: contract if there is one, else inline if allowed"""
        c = self.spec.contract_for(qual)
        if c is not None and not (self.cur_target == qual and self.depth == 0):
            try:
                return self.call_contract(c, module, cls, node, args, kwargs, line)
            except EngineLimit as e:
                # the signature of the callee changed (its contract no longer binds the arguments of this call): a private helper of
                # the same class is then executed in place (exact), anything else stays out of reach
                if str(e).split(" ")[0] in ("too", "missing", "unexpected") and self._same_class_private_helper(qual):
                    return self.inline_call(module, cls, node, args, kwargs, line, qual)
                raise
        if self.spec.may_inline(qual) or cls is None and self.spec.inline_all_pure(qual):
            return self.inline_call(module, cls, node, args, kwargs, line, qual)
        if self._same_class_private_helper(qual):
            # a private helper of the class of the function under proof that has no contract of its own (e.g. a helper extracted by a
            # refactoring): its body is executed in place, exactly like an inline() permission would
            return self.inline_call(module, cls, node, args, kwargs, line, qual)
        raise EngineLimit("call to %s has neither contract nor inline permission (line %s)" % (qual, line))

    depth = 0
    cur_target = None

    def inline_call(self, module, cls, node, args, kwargs, line, qual):
        if self.depth >= self.max_inline_depth:
            raise EngineLimit("inline depth at %s" % qual)
        self.inlined.add(qual)
        fr = Frame(module, cls, node, {})
        self.bind_params(node, fr, args, dict(kwargs), module)
        if bm.is_generator(node):
            return PyVal("genfunc_call", module=module, node=node, frame=fr, qual=qual)
        self.depth += 1
        try:
            self.exec_block(node.body, fr)
        except ReturnEx as r:
            return r.value
        finally:
            self.depth -= 1
        return NONE_V

    # modular call against a contract ---------------------------------
    def call_contract(self, c, module, cls, node, args, kwargs, line):
        from . import contracts as C

        return C.apply_contract_at_call(self, c, module, cls, node, args, kwargs, line)

    def call_virtual(self, f, args, kwargs, line):
        from . import contracts as C

        c = self.spec.virtual_member(f.cls, f.name)
        return C.apply_contract_at_call(self, c, None, None, None, [f.self_] + args, kwargs, line)

    # ------------------------------------------------------------------ statements
    def exec_block(self, stmts, fr):
        for st in stmts:
            self.exec(st, fr)

    def exec(self, st, fr):
        m = getattr(self, "s_" + type(st).__name__, None)
        if m is None:
            raise EngineLimit("statement %s at line %s" % (type(st).__name__, st.lineno))
        return m(st, fr)

    def s_Expr(self, st, fr):
        if isinstance(st.value, ast.Constant):
            return
        self.eval(st.value, fr)

    def s_Pass(self, st, fr):
        return

    def s_Delete(self, st, fr):
        for t in st.targets:
            if isinstance(t, ast.Name):
                fr.locals.pop(t.id, None)
            elif isinstance(t, ast.Subscript):
                base = self.eval(t.value, fr)
                idx = self.eval(t.slice, fr)
                bm.del_item(self, base, idx, st.lineno)
            else:
                raise EngineLimit("del target")

    def s_Return(self, st, fr):
        v = self.eval(st.value, fr) if st.value is not None else NONE_V
        raise ReturnEx(v)

    def s_Break(self, st, fr):
        raise BreakEx()

    def s_Continue(self, st, fr):
        raise ContinueEx()

    def s_Raise(self, st, fr):
        if st.exc is None:
            cur = getattr(fr, "handling", None)
            if cur is None:
                raise EngineLimit("bare raise outside handler")
            raise PyRaise(cur.exc, cur.msg, st.lineno)
        v = self.eval(st.exc, fr)
        if isinstance(v, PyVal) and v.kind == "excinst":
            raise PyRaise(v.name, None, st.lineno)
        if isinstance(v, PyVal) and v.kind == "excclass":
            raise PyRaise(v.name, None, st.lineno)
        if isinstance(v, PyVal) and v.kind == "class":
            raise PyRaise(v.ci.name, None, st.lineno)
        raise EngineLimit("raise of %s" % (v,))

    def s_Assign(self, st, fr):
        v = self.eval(st.value, fr)
        for t in st.targets:
            self.assign(t, v, fr, st.lineno)

    def s_AnnAssign(self, st, fr):
        if st.value is not None:
            self.assign(st.target, self.eval(st.value, fr), fr, st.lineno)

    def s_AugAssign(self, st, fr):
        cur = self.eval(copy_load(st.target), fr)
        rhs = self.eval(st.value, fr)
        if isinstance(cur, SV) and isinstance(cur.sort, ListOf) and isinstance(st.op, ast.Add):
            bm.list_extend(self, cur, rhs)
            return
        v = self.binop(st.op, cur, rhs, st.lineno)
        self.assign(st.target, v, fr, st.lineno)

    def assign(self, target, v, fr, line):
        if isinstance(target, ast.Name):
            if fr.contract is not None and target.id in fr.contract.local_sorts:
                v = bm.coerce(self, v, fr.contract.local_sorts[target.id])
            fr.locals[target.id] = v
        elif isinstance(target, (ast.Tuple, ast.List)):
            items = bm.unpack(self, v, len(target.elts), line)
            for t, x in zip(target.elts, items):
                self.assign(t, x, fr, line)
        elif isinstance(target, ast.Attribute):
            base = self.eval(target.value, fr)
            self.setattr(base, target.attr, v, line)
        elif isinstance(target, ast.Subscript):
            base = self.eval(target.value, fr)
            idx = self.eval(target.slice, fr)
            bm.set_item(self, base, idx, v, line)
        else:
            raise EngineLimit("assignment target %s" % type(target).__name__)

    def setattr(self, base, attr, v, line):
        if isinstance(base, PyVal):
            if base.kind == "module":
                key = ("$module", base.module.modname)
                sort = self.spec.module_var_sort(base.module.modname, attr)
                if sort is None:
                    raise EngineLimit("store to module attribute %s.%s" % (base.module.modname, attr))
                self.write_field(z3.IntVal(0), "$mod:" + base.module.modname, attr, sort, bm.coerce(self, v, sort))
                return
            if base.kind == "extmodule" and base.name == "datetime" and attr == "datetime":
                self.write_field(z3.IntVal(0), "$mod:datetime", "datetime", ATOM, v if isinstance(v, SV) else bm.const_value("cls:" + getattr(v, "name", "?")))
                return
            raise EngineLimit("store attribute on %s" % base)
        base = self.deref(base, "AttributeError", line)
        s = base.sort
        if not isinstance(s, Ref):
            raise EngineLimit("store attribute on %s" % s)
        fi = self.field_info(s.cls, attr)
        if fi is None:
            st = self.repo.lookup_setter(s.cls, attr)
            if st is not None:
                ci, n = st
                qual = "%s::%s.%s@setter" % (ci.module.relpath, ci.name, attr)
                self.call_function(ci.module, ci, n, [base, v], {}, line, qual)
                return
            raise EngineLimit("unknown field %s.%s (line %s): add it to the schema" % (s.cls, attr, line))
        owner, fsort = fi
        self.spec.note_write(self, owner, attr, line)
        self.write_field(base.t, owner, attr, fsort, bm.coerce(self, v, fsort))

    def s_If(self, st, fr):
        c = self.eval(st.test, fr)
        if self.branch(self.truth(c), "if@%d" % st.lineno):
            self.exec_block(st.body, fr)
        else:
            self.exec_block(st.orelse, fr)

    def s_With(self, st, fr):
        bm.exec_with(self, st, fr)

    def s_Try(self, st, fr):
        try:
            try:
                self.exec_block(st.body, fr)
            except PyRaise as e:
                for h in st.handlers:
                    if self.exc_matches(e.exc, h.type, fr):
                        if h.name:
                            fr.locals[h.name] = PyVal("excinst", name=e.exc, args=[])
                        prev = getattr(fr, "handling", None)
                        fr.handling = e
                        try:
                            self.exec_block(h.body, fr)
                        finally:
                            fr.handling = prev
                        break
                else:
                    raise
            else:
                self.exec_block(st.orelse, fr)
        except (PyRaise, ReturnEx, BreakEx, ContinueEx):
            if st.finalbody:
                self.exec_block(st.finalbody, fr)
            raise
        else:
            if st.finalbody:
                self.exec_block(st.finalbody, fr)

    def exc_is_sub(self, a, b):
        seen = set()
        while a is not None and a not in seen:
            if a == b:
                return True
            seen.add(a)
            if a in BUILTIN_EXC:
                a = BUILTIN_EXC[a]
            else:
                ci = self.repo.classes.get(a)
                if ci is not None:
                    a = ci.bases[0] if ci.bases else None
                else:
                    a = "Exception" if (a.endswith("Error") or a.endswith("Exception")) and a != "Exception" else None
        return False

    def exc_matches(self, exc, tnode, fr):
        if tnode is None:
            return True
        if isinstance(tnode, ast.Tuple):
            return any(self.exc_matches(exc, t, fr) for t in tnode.elts)
        name = tnode.id if isinstance(tnode, ast.Name) else tnode.attr
        return self.exc_is_sub(exc, name)

    def s_For(self, st, fr):
        bm.exec_for(self, st, fr)

    def s_While(self, st, fr):
        bm.exec_while(self, st, fr)

    def s_Assert(self, st, fr):
        c = self.truth(self.eval(st.test, fr))
        if not self.branch(c, "assert"):
            raise PyRaise("AssertionError", None, st.lineno)

    def s_Import(self, st, fr):
        return

    def s_ImportFrom(self, st, fr):
        return

    def s_FunctionDef(self, st, fr):
        fr.locals[st.name] = PyVal("lambda", node=st, frame=fr)

    def s_Global(self, st, fr):
        raise EngineLimit("global statement")


def is_initial_array(a):
    return z3.is_const(a) and a.decl().kind() == z3.Z3_OP_UNINTERPRETED and a.decl().name().startswith("H0_")


def is_initial_select(t):
    """t is  H0_array[ref]  (a list component of the entry state)"""
    return z3.is_app(t) and t.decl().kind() == z3.Z3_OP_SELECT and is_initial_array(t.arg(0))


def sel_simplify(arr, idx, eng=None):
    """select(arr, idx), reduced when arr is a chain of stores at references that are equal to / distinct from idx
    (syntactically: alloc0 + k constants; or, with an engine, when the path condition excludes equality - e.g. a list that
    existed at entry against the temporaries allocated since): keeps list terms free of store chains over arrays of arrays"""
    idx_s = z3.simplify(idx)
    a = arr
    while z3.is_app(a) and a.decl().kind() == z3.Z3_OP_STORE:
        j = z3.simplify(a.arg(1))
        if j.eq(idx_s):
            return a.arg(2)
        d = z3.simplify(j - idx_s)
        if z3.is_int_value(d) and d.as_long() != 0:
            a = a.arg(0)
            continue
        if eng is not None and eng.path is not None and not has_bvar(idx_s) and not has_bvar(j):
            try:
                if not eng.path.feasible_with(j == idx_s):
                    a = a.arg(0)
                    continue
            except z3.Z3Exception:
                pass
        break
    return z3.Select(a, idx)


def copy_load(target):
    t = copy.deepcopy(target)
    for n in ast.walk(t):
        if hasattr(n, "ctx"):
            n.ctx = ast.Load()
    return t
