"""Discharge obligations: z3 (python API) on a process pool, cvc5 / z3-4.8 CLI for what it leaves unknown."""
import multiprocessing as mp
import os
import subprocess
import tempfile
import time

import z3


def _is_read_def(a):
    return z3.is_eq(a) and z3.is_const(a.arg(0)) and a.arg(0).decl().name().startswith("rd!")


_SK = [0]


def skolemize(f, pol=True):
    """replace existential quantifiers in positive position (universal ones in negative position) that are not under
    another quantifier by fresh constants.  Equisatisfiable; z3 5.1 / cvc5 leave (exists k. x = 3600*to_real(k)) style
    assumptions undecided where the skolemised form is immediate (measured on the C18 hour obligations)."""
    if z3.is_quantifier(f):
        if f.is_lambda():
            return f
        if (f.is_exists() and pol) or (f.is_forall() and not pol):
            consts = []
            for i in range(f.num_vars()):
                _SK[0] += 1
                consts.append(z3.Const("sk!%d!%s" % (_SK[0], f.var_name(i)), f.var_sort(i)))
            body = z3.substitute_vars(f.body(), *reversed(consts))
            return skolemize(body, pol)
        return f
    if not z3.is_app(f) or not z3.is_bool(f):
        return f
    k = f.decl().kind()
    if k in (z3.Z3_OP_AND, z3.Z3_OP_OR):
        ch = [skolemize(c, pol) for c in f.children()]
        return z3.And(*ch) if k == z3.Z3_OP_AND else z3.Or(*ch)
    if k == z3.Z3_OP_NOT:
        return z3.Not(skolemize(f.arg(0), not pol))
    if k == z3.Z3_OP_IMPLIES:
        return z3.Implies(skolemize(f.arg(0), not pol), skolemize(f.arg(1), pol))
    return f


def to_smt2(ob, order=0):
    """order 0: purification definitions (rd!k == select ..) AFTER the arithmetic facts and the goal - z3 5.1 and
    cvc5 leave integrality goals undecided when the definitions come first (measured; see DESIGN section 9);
    order 1: as generated; order 2: reversed"""
    s = z3.Solver()
    facts = list(ob.pc) + list(ob.extra.get("axioms", []))
    goal = z3.Not(ob.goal)
    if order == 0:
        defs = [a for a in facts if _is_read_def(a)]
        rest = [a for a in facts if not _is_read_def(a)]
        seq = rest + [goal] + defs
    elif order == 1:
        seq = facts + [goal]
    else:
        seq = [goal] + facts[::-1]
    for a in seq:
        s.add(skolemize(a))
    return s.to_smt2()


class _Timeout(Exception):
    pass


class _time_limit:
    """wall-clock budget for a computation in the parent process (SIGALRM)"""

    def __init__(self, seconds):
        self.seconds = seconds

    def __enter__(self):
        import signal

        def handler(signum, frame):
            raise _Timeout()

        self.old = signal.signal(signal.SIGALRM, handler)
        signal.setitimer(signal.ITIMER_REAL, self.seconds)

    def __exit__(self, *a):
        import signal

        signal.setitimer(signal.ITIMER_REAL, 0)
        signal.signal(signal.SIGALRM, self.old)
        return False


# --------------------------------------------------------------------------- bounded refutation (sound for 'sat' only)
class _Expander:
    """Exact finite expansion of range-guarded integer quantifiers under added small-scope side constraints.

    forall x. G(x) => B(x)  with  G |= L <= x < U   is equivalent to   AND_{d<K} (G => B)[x := L+d]   PROVIDED  U - L <= K.
    exists x. G(x) and B(x) likewise with OR.  The side constraints (U - L <= K) are asserted at top level: they only
    remove models, so a model of the expanded problem is a model of the original obligation (a genuine counterexample).
    'unsat' of the expanded problem means nothing (no counterexample within the scope).  Quantifiers whose variables have
    no syntactic range are left as they are."""

    def __init__(self, K):
        self.K = K
        self.side = []
        self.n = 0

    def conjuncts(self, f):
        if z3.is_and(f):
            out = []
            for c in f.children():
                out += self.conjuncts(c)
            return out
        return [f]

    def contains(self, t, c):
        todo = [t]
        seen = set()
        while todo:
            x = todo.pop()
            if x.get_id() in seen:
                continue
            seen.add(x.get_id())
            if x.eq(c):
                return True
            if z3.is_app(x):
                todo.extend(x.children())
            elif z3.is_quantifier(x):
                todo.append(x.body())
        return False

    def bound_of(self, lit, c):
        """lit |= c >= L  -> ('lo', L) ;  lit |= c < U -> ('hi', U)   (integers)"""
        neg = False
        while z3.is_not(lit):
            lit = lit.arg(0)
            neg = not neg
        if not z3.is_app(lit) or lit.num_args() != 2:
            return None
        k = lit.decl().kind()
        ops = {z3.Z3_OP_LE: "<=", z3.Z3_OP_LT: "<", z3.Z3_OP_GE: ">=", z3.Z3_OP_GT: ">"}
        if k not in ops:
            return None
        op = ops[k]
        a, b = lit.arg(0), lit.arg(1)
        if not (z3.is_int(a) and z3.is_int(b)):
            return None
        if neg:
            op = {"<=": ">", "<": ">=", ">=": "<", ">": "<="}[op]
        if b.eq(c) and not self.contains(a, c):
            a, b = b, a
            op = {"<=": ">=", "<": ">", ">=": "<=", ">": "<"}[op]
        if not a.eq(c) or self.contains(b, c):
            return None
        if op == "<":
            return ("hi", b)
        if op == "<=":
            return ("hi", b + 1)
        if op == ">=":
            return ("lo", b)
        return ("lo", b + 1)

    def expand(self, f):
        if z3.is_quantifier(f):
            if f.is_lambda():
                return f
            return self.expand_q(f)
        if not z3.is_app(f) or f.num_args() == 0:
            return f
        ch = [self.expand(c) for c in f.children()]
        if all(a.eq(b) for a, b in zip(ch, f.children())):
            return f
        try:
            return f.decl()(*ch)
        except Exception:
            return f

    def expand_q(self, f):
        n = f.num_vars()
        if any(f.var_sort(i) != z3.IntSort() for i in range(n)):
            return f
        consts = []
        for i in range(n):
            self.n += 1
            consts.append(z3.Int("bx!%d!%s" % (self.n, f.var_name(i))))
        body = z3.substitute_vars(f.body(), *reversed(consts))
        if f.is_forall():
            guards = []
            if z3.is_implies(body):
                guards = self.conjuncts(body.arg(0))
            elif z3.is_or(body):
                for d in body.children():
                    if z3.is_not(d):
                        guards += self.conjuncts(d.arg(0))
        else:
            guards = self.conjuncts(body)
        lo, hi = {}, {}
        for g in guards:
            for i, c in enumerate(consts):
                b = self.bound_of(g, c)
                if b is None:
                    continue
                (lo if b[0] == "lo" else hi).setdefault(i, []).append(b[1])
        own = lambda t: any(self.contains(t, c) for c in consts)

        def resolve(i, table, depth=0):
            """a bound of variable i free of the quantifier's own variables (following  x_i < x_k < U  chains)"""
            for t in table.get(i, []):
                if not own(t):
                    return t
            if depth > n:
                return None
            for t in table.get(i, []):
                for kx, ck in enumerate(consts):
                    if kx == i:
                        continue
                    # t is  c_k  or  c_k + 1
                    base = None
                    if t.eq(ck):
                        base, off = ck, 0
                    elif z3.is_add(t) and t.num_args() == 2 and t.arg(0).eq(ck) and z3.is_int_value(t.arg(1)):
                        base, off = ck, t.arg(1).as_long()
                    if base is not None:
                        r = resolve(kx, table, depth + 1)
                        if r is not None:
                            return r + off
            return None

        L, U = [], []
        for i in range(n):
            l, u = resolve(i, lo), resolve(i, hi)
            if l is None or u is None:
                return f
            L.append(l)
            U.append(u)
        import itertools

        widths = []
        for l, u in zip(L, U):
            # a range  [l, l + t + c)  with a positive integer constant c (objects allocated since entry: alloc0 + c):
            # scope constraint on the symbolic part only (t <= K), K + c instances
            d = z3.simplify(u - l)
            c = 0
            if z3.is_add(d):
                for a in d.children():
                    if z3.is_int_value(a) and a.as_long() > 0:
                        c = a.as_long()
            if c > 64:
                c = 0
            self.side.append(z3.simplify(d - c) <= self.K)
            widths.append(self.K + c)
        tot = 1
        for w in widths:
            tot *= w
        self.count = getattr(self, "count", 0) + tot
        if self.count > 20000:
            raise _Timeout()
        insts = []
        for ds in itertools.product(*[range(w) for w in widths]):
            sub = [(c, z3.simplify(l + d)) for c, l, d in zip(consts, L, ds)]
            insts.append(self.expand(z3.substitute(body, *sub)))
        return z3.And(*insts) if f.is_forall() else z3.Or(*insts)


class _DeLambda:
    """replace closed lambda terms by named array constants with their definition (forall x. A[x] == body(x)):
    z3 builds models for array constants (also as arguments of uninterpreted functions) but answers 'incomplete (theory
    array)' when lambda terms occur; the definitions are macro-like quantifiers its model finder handles.  Exact."""

    def __init__(self):
        self.defs = []
        self.cache = {}
        self.n = 0

    def has_free_var(self, t, depth=0):
        todo = [(t, depth)]
        seen = set()
        while todo:
            x, d = todo.pop()
            if (x.get_id(), d) in seen:
                continue
            seen.add((x.get_id(), d))
            if z3.is_var(x):
                if z3.get_var_index(x) >= d:
                    return True
            elif z3.is_quantifier(x):
                todo.append((x.body(), d + x.num_vars()))
            elif z3.is_app(x):
                for c in x.children():
                    todo.append((c, d))
        return False

    def run(self, f):
        k = f.get_id()
        hit = self.cache.get(k)
        if hit is not None and hit[0].eq(f):
            return hit[1]
        r = self._run(f)
        self.cache[k] = (f, r)
        return r

    def _run(self, f):
        if z3.is_quantifier(f):
            if f.is_lambda() and not self.has_free_var(f):
                n = f.num_vars()
                consts = []
                for i in range(n):
                    self.n += 1
                    consts.append(z3.Const("lx!%d" % self.n, f.var_sort(i)))
                body = self.run(z3.substitute_vars(f.body(), *reversed(consts)))
                self.n += 1
                A = z3.Const("lam!%d" % self.n, f.sort())
                self.defs.append(z3.ForAll(consts, z3.Select(A, *consts) == body))
                return A
            return f
        if not z3.is_app(f) or f.num_args() == 0:
            return f
        ch = [self.run(c) for c in f.children()]
        if all(a.eq(b) for a, b in zip(ch, f.children())):
            return f
        try:
            return f.decl()(*ch)
        except Exception:
            return f


class _QFRewrite:
    """lambda elimination for the bounded search (each step exact or justified by facts already in the obligation):
    (1) select over store / lambda is pushed through:  store(b,k,v)[i] -> ite(i = k, v, b[i]),  (lambda x. t)[i] -> t[i]
    (2) the filter / sum function symbols FLEN, FIDX, FINV, SUM_* applied to an array TERM a are specialised to that term
        (FLEN(a, n) -> FLEN<a>(n)).  This forgets only the congruence 'extensionally equal arrays give equal values',
        which the obligation already carries explicitly as the pairwise range-congruence facts the engine adds for every
        pair of filter / sum terms of the path - so a model of the rewritten problem extends to one of the original."""

    SPECIAL = ("FLEN", "FIDX", "FINV")
    SUMS = ("SUM_R", "SUM_I")

    def __init__(self, K=3):
        self.cache = {}
        self.spec = {}
        self.K = K
        self.side = []

    def run(self, f):
        k = f.get_id()
        hit = self.cache.get(k)
        if hit is not None and hit[0].eq(f):
            return hit[1]
        r = self._run(f)
        self.cache[k] = (f, r)
        return r

    def select(self, a, idx):
        """a[idx...] with stores / lambdas resolved"""
        if z3.is_app(a) and a.decl().kind() == z3.Z3_OP_STORE and a.num_args() == len(idx) + 2:
            ks = [a.arg(1 + i) for i in range(len(idx))]
            cond = z3.And(*[i == k for i, k in zip(idx, ks)]) if len(idx) > 1 else idx[0] == ks[0]
            cond = z3.simplify(cond)
            if z3.is_true(cond):
                return a.arg(a.num_args() - 1)
            if z3.is_false(cond):
                return self.select(a.arg(0), idx)
            return z3.If(cond, a.arg(a.num_args() - 1), self.select(a.arg(0), idx))
        if z3.is_app(a) and a.decl().kind() == z3.Z3_OP_ITE:
            return z3.If(a.arg(0), self.select(a.arg(1), idx), self.select(a.arg(2), idx))
        if z3.is_quantifier(a) and a.is_lambda() and a.num_vars() == len(idx):
            return self.run(z3.substitute_vars(a.body(), *reversed(idx)))
        if z3.is_app(a) and a.decl().kind() == z3.Z3_OP_CONST_ARRAY:
            return a.arg(0)
        return z3.Select(a, *idx)

    def _run(self, f):
        if z3.is_quantifier(f):
            return f
        if not z3.is_app(f) or f.num_args() == 0:
            return f
        ch = [self.run(c) for c in f.children()]
        k = f.decl().kind()
        if k == z3.Z3_OP_SELECT:
            return self.select(ch[0], ch[1:])
        if k == z3.Z3_OP_UNINTERPRETED and f.decl().name() in self.SUMS and len(ch) == 3:
            # (3) a sum term is only PARTIALLY axiomatised in the obligation (unfolding instances): within the scope it is
            #     replaced by its definition  SUM(a, lo, hi) = sum_{d < K} (a[lo+d] if lo+d < hi else 0)  under  hi - lo <= K
            arr, lo, hi = ch
            self.side.append(hi - lo <= self.K)
            zero = z3.RealVal(0) if f.sort() == z3.RealSort() else z3.IntVal(0)
            tot = zero
            for d in range(self.K):
                tot = tot + z3.If(lo + d < hi, self.select(arr, [z3.simplify(lo + d)]), zero)
            return tot
        if k == z3.Z3_OP_UNINTERPRETED and f.decl().name() in self.SPECIAL and ch[0].sort().kind() == z3.Z3_ARRAY_SORT:
            key = (f.decl().name(), ch[0].sexpr())
            fn = self.spec.get(key)
            if fn is None:
                fn = z3.Function("%s<%d>" % (f.decl().name(), len(self.spec)), *([c.sort() for c in ch[1:]] + [f.sort()]))
                self.spec[key] = fn
            return fn(*ch[1:])
        if all(a.eq(b) for a, b in zip(ch, f.children())):
            return f
        try:
            return f.decl()(*ch)
        except Exception:
            return f


def bounded_refute(ob, K, timeout_ms):
    """search a counterexample of the obligation within scope K; returns ('sat', model-dict) or (None, None)"""
    ex = _Expander(K)
    facts = list(ob.pc) + list(ob.extra.get("axioms", [])) + [z3.Not(ob.goal)]
    out = []
    dl = _DeLambda()
    qf = _QFRewrite(K)
    for a in facts:
        out.append(dl.run(qf.run(z3.simplify(ex.expand(skolemize(a))))))
    side = [dl.run(qf.run(z3.simplify(c))) for c in ex.side]
    side += [dl.run(z3.simplify(c)) for c in qf.side]
    s = z3.Solver()
    s.set("timeout", timeout_ms)
    for a in out + side + dl.defs:
        s.add(a)
    # through SMT-LIB text: the worker processes must not share z3 AST objects with the parent context
    return s.to_smt2()


def _work(job):
    name, smt, timeout_ms, want_model = job[:4]
    opts = job[4] if len(job) > 4 else {}
    if opts == "staged":
        # quick default attempt, then pure E-matching (mbqi off; only 'unsat' is used), then the full budget
        r1 = _work((name, smt, min(timeout_ms, 1500), want_model, {}))
        if r1["verdict"] in ("sat", "unsat") or timeout_ms <= 1500:
            return r1
        # z3 4.8.12 (CLI) decides the quantifier-heavy loop obligations over list comprehensions in well under a second
        # where z3 5.1 times out with and without MBQI (measured on C12 execute_place / reset_orders)
        t1 = time.time()
        v, nm = cli_z3_old(smt, min(timeout_ms, 30000) / 1000.0)
        if v in ("sat", "unsat"):
            return dict(name=name, verdict=v, solver=nm, time=r1["time"] + time.time() - t1, model=None, reason="")
        r2 = _work((name, smt, min(timeout_ms, 10000), False, {"smt.mbqi": False}))
        r2["time"] += time.time() - t1
        if r2["verdict"] == "unsat":
            r2["solver"] += " (mbqi off)"
            r2["time"] += r1["time"]
            return r2
        r2["verdict"] = "unknown"
        r2["time"] += r1["time"]
        return r2
    t0 = time.time()
    try:
        s = z3.Solver()
        s.set("timeout", timeout_ms)
        for k, v in opts.items():
            s.set(k, v)
        s.from_string(smt)
        r = s.check()
        verdict = str(r)
        model = None
        if r == z3.sat and want_model:
            m = s.model()
            model = {}
            for d in m.decls():
                if d.arity() == 0:
                    v = m[d]
                    if z3.is_array(v):
                        continue
                    model[d.name()] = str(v)
            # arrays of the initial heap, evaluated lazily by the replay builder through 'eval' requests
            model["__full__"] = str(m)[:20000]
        reason = s.reason_unknown() if r == z3.unknown else ""
        return dict(name=name, verdict=verdict, solver="z3-%s" % z3.get_version_string(), time=time.time() - t0, model=model, reason=reason)
    except Exception as e:  # noqa
        return dict(name=name, verdict="error", solver="z3", time=time.time() - t0, model=None, reason=repr(e))


def cli_z3_old(smt, timeout_s):
    if not os.path.exists("/usr/bin/z3"):
        return "unknown", None
    with tempfile.NamedTemporaryFile("w", suffix=".smt2", delete=False, dir=os.environ.get("PYVC_TMP", None)) as f:
        f.write("(set-logic ALL)\n" + smt + "\n")
        path = f.name
    try:
        out = subprocess.run(["/usr/bin/z3", "-T:%d" % max(1, int(timeout_s)), path], capture_output=True, text=True, timeout=timeout_s + 5).stdout.strip().splitlines()
        if out and out[0] in ("sat", "unsat"):
            return out[0], "z3-4.8.12"
    except Exception:
        pass
    finally:
        os.unlink(path)
    return "unknown", None


def cli_fallback(smt, timeout_s):
    """try cvc5 then /usr/bin/z3 on the SMT-LIB text; returns (verdict, solver)"""
    with tempfile.NamedTemporaryFile("w", suffix=".smt2", delete=False, dir=os.environ.get("PYVC_TMP", None)) as f:
        f.write("(set-logic ALL)\n" + smt + "\n")
        path = f.name
    try:
        for cmd, nm in (
            (["/usr/bin/cvc5", "--tlimit=%d" % int(timeout_s * 1000), path], "cvc5-1.0.3"),
            (["/usr/bin/z3", "-T:%d" % int(timeout_s), path], "z3-4.8.12"),
        ):
            try:
                out = subprocess.run(cmd, capture_output=True, text=True, timeout=timeout_s + 5).stdout.strip().splitlines()
            except Exception:
                continue
            if out and out[0] in ("sat", "unsat"):
                return out[0], nm
        return "unknown", None
    finally:
        os.unlink(path)


def _discharge_base(obls, timeout_ms=20000, jobs=None, fallback=True):
    jobs = jobs or int(os.environ.get("PYVC_JOBS", min(16, os.cpu_count() or 4)))
    work = []
    for i, ob in enumerate(obls):
        work.append(("%d" % i, to_smt2(ob), min(timeout_ms, 3000) if ob.kind == "canary" else timeout_ms, ob.kind != "canary", {} if ob.kind == "canary" else "staged"))
    if not work:
        return []
    ctx = mp.get_context("fork")
    with ctx.Pool(jobs) as pool:
        results = pool.map(_work, work, chunksize=1)
    # what the quick stages left undecided: bounded search for a GENUINE counterexample (exact expansion of the
    # range-guarded quantifiers under small-scope side constraints; only a 'sat' answer is used)
    if fallback and os.environ.get("PYVC_BOUNDED", "1") != "0":
        # (canaries included: a canary left 'unknown' says nothing about vacuity, a bounded model of the path does)
        todo = [(i, ob) for i, (ob, r) in enumerate(zip(obls, results)) if r["verdict"] in ("unknown", "error")]
        for K in (2, 3, 5):
            if not todo:
                break
            jobs3 = []
            for i, ob in todo:
                try:
                    with _time_limit(20):
                        jobs3.append(("%d/b%d" % (i, K), bounded_refute(ob, K, min(timeout_ms, 15000)), min(timeout_ms, 15000), True))
                except BaseException as e:  # expansion too large / too slow: no bounded search for this obligation
                    if isinstance(e, KeyboardInterrupt):
                        raise
                    jobs3.append(None)
            live = [j for j in jobs3 if j is not None]
            with ctx.Pool(jobs) as pool:
                res3 = pool.map(_work, live, chunksize=1)
            res_by = {j[0]: r3 for j, r3 in zip(live, res3)}
            rest = []
            for (i, ob), j in zip(todo, jobs3):
                r3 = res_by.get(j[0]) if j is not None else None
                if r3 is not None and r3["verdict"] == "sat":
                    r3["solver"] += " (bounded counterexample search, scope %d)" % K
                    results[i] = r3
                else:
                    rest.append((i, ob))
            todo = rest
    # second chance for what stayed unknown: other assertion orders (solver heuristics are order sensitive)
    # (the inside-the-known-region queries only matter when they are 'sat': no full-budget retries for them)
    retry = [(i, ob) for i, (ob, r) in enumerate(zip(obls, results)) if r["verdict"] in ("unknown", "error") and ob.kind not in ("canary", "known-region")]
    if retry:
        jobs2 = []
        orders = (0, 1, 2)
        for i, ob in retry:
            for order in orders:
                jobs2.append(("%d/%d" % (i, order), to_smt2(ob, order), timeout_ms, True))
        with ctx.Pool(jobs) as pool:
            res2 = pool.map(_work, jobs2, chunksize=1)
        for (i, ob), k in zip(retry, range(0, len(res2), len(orders))):
            for r2 in res2[k : k + len(orders)]:
                if r2["verdict"] in ("sat", "unsat"):
                    r2["solver"] += " (full budget / reordered)"
                    results[i] = r2
                    break
    out = []
    for ob, job, r in zip(obls, work, results):
        if r["verdict"] in ("unknown", "error") and fallback and ob.kind not in ("canary", "known-region"):
            v, nm = cli_fallback(job[1], timeout_ms / 1000.0)
            if v in ("sat", "unsat"):
                r = dict(r, verdict=v, solver=nm)
        r["obligation"] = ob
        out.append(r)
    return out


def discharge(obls, timeout_ms=20000, jobs=None, fallback=True):
    """all stages of _discharge_base, then the seed/order portfolio (pyvc/portfolio.py) on what is still unknown"""
    from . import portfolio

    out = _discharge_base(obls, timeout_ms, jobs, fallback)
    return portfolio.rescue(out, to_smt2, timeout_ms, jobs) if fallback else out
