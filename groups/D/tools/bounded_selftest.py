"""soundness self-test of the bounded counterexample search: on obligations that are PROVED (unsat) it must never answer sat.
usage: python3-vt tools/bounded_selftest.py <tag> [REPO=/repo]"""
import sys, os
ROOT = os.path.dirname(os.path.dirname(os.path.abspath(__file__)))
sys.path.insert(0, ROOT)
import z3
from pyvc.repo import Repo; from pyvc.engine import Engine; from pyvc.contracts import Spec, verify_function; from pyvc import solve
repo = Repo(os.environ.get('REPO', '/repo')); spec = Spec()
spec.load_dir(os.path.join(ROOT, 'contracts'), {'PRICES': [1], 'BETDAQ_PRICES': [1], 'PRICES_FLOAT': [1], 'BETDAQ_PRICES_FLOAT': [1]})
tag = sys.argv[1]
bad = 0; n = 0; nsat_canary = 0
for q, c in sorted(spec.contracts.items()):
    if tag not in c.tags or c.trusted:
        continue
    eng = Engine(repo, spec)
    r = verify_function(eng, c)
    if r.status != "ok":
        continue
    for ob in r.obligations:
        for K in (2, 3):
            smt = solve.bounded_refute(ob, K, 5000)
            s = z3.Solver(); s.set("timeout", 5000); s.from_string(smt)
            v = s.check()
            if ob.kind == "canary":
                nsat_canary += (v == z3.sat)
                continue
            n += 1
            if v == z3.sat:
                bad += 1
                print("BOGUS SAT", ob.name, ob.path, K)
print("checked", n, "bounded queries on proved obligations; bogus sat:", bad, "; canaries found satisfiable within scope:", nsat_canary)
