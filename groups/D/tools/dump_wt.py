"""developer tool (worktree-relative variant of dump.py): dump undischarged obligations of one contract as SMT-LIB
usage: python3-vt tools/dump_wt.py <qual> <substring-of-obligation>   (env: REPO, TO ms, N, ALL=1 to dump also discharged)"""
import sys, time, os
ROOT = os.path.dirname(os.path.dirname(os.path.abspath(__file__)))
sys.path.insert(0, ROOT)
from pyvc.repo import Repo; from pyvc.engine import Engine; from pyvc.contracts import Spec, verify_function; from pyvc import solve
repo = Repo(os.environ.get('REPO', '/repo')); spec = Spec()
spec.load_dir(os.path.join(ROOT, 'contracts'), {'PRICES': [1], 'BETDAQ_PRICES': [1], 'PRICES_FLOAT': [1], 'BETDAQ_PRICES_FLOAT': [1]})
eng = Engine(repo, spec)
c = spec.contracts[sys.argv[1]]
t0 = time.time()
r = verify_function(eng, c)
print("status", r.status, r.limit, "paths", r.paths, "obligations", len(r.obligations), "gen %.1fs" % (time.time() - t0))
obs = [o for o in r.obligations if o.kind != 'canary' and sys.argv[2] in o.name]
res = solve.discharge(obs, int(os.environ.get('TO', '5000')), fallback=bool(os.environ.get('FALLBACK')))
n = 0
for x in res:
    ob = x['obligation']
    if x['verdict'] != 'unsat' or os.environ.get('ALL'):
        p = '/tmp/dumpD_%d.smt2' % n; n += 1
        open(p, 'w').write("(set-logic ALL)\n" + solve.to_smt2(ob))
        print(ob.name, ob.path, x['verdict'], "%.2fs" % x['time'], p, ob.extra['labels'][-8:])
        if x['verdict'] == 'sat' and x.get('model'):
            print("   ", {k: v for k, v in x['model'].items() if k.startswith('arg_')})
        if n >= int(os.environ.get('N', '2')): break
    else:
        print(ob.name, ob.path, x['verdict'], "%.2fs" % x['time'], x.get('solver'))
