"""developer tool: which loop invariant makes the loop-head state infeasible?  usage: inv_bisect.py <qual> <loop ordinal>"""
import sys, os
ROOT = os.path.dirname(os.path.dirname(os.path.abspath(__file__)))
sys.path.insert(0, ROOT)
from pyvc.repo import Repo; from pyvc.engine import Engine; from pyvc.contracts import Spec, verify_function
repo = Repo(os.environ.get('REPO', '/repo')); spec = Spec()
spec.load_dir(os.path.join(ROOT, 'contracts'), {'PRICES': [1], 'BETDAQ_PRICES': [1], 'PRICES_FLOAT': [1], 'BETDAQ_PRICES_FLOAT': [1]})
c = spec.contracts[sys.argv[1]]
o = int(sys.argv[2])
full = list(c.invariants[o])
for k in range(len(full) + 1):
    c.invariants[o] = full[:k]
    eng = Engine(repo, spec)
    r = verify_function(eng, c)
    print(k, [l for l, _ in full[:k]][-1:] , "paths", r.paths, r.status, r.limit)
