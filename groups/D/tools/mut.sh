#!/bin/sh
# usage: tools/mut.sh Cxx <file-relative-to-repo> <python-replace-old> <python-replace-new> [check ids...]
# applies ONE textual replacement (must match exactly once) in the scratch worktree /tmp/seed/Cxx, runs the checks, restores the tree
HERE="$(cd "$(dirname "$0")/.." && pwd)"
P=$1; F=$2; OLD=$3; NEW=$4; shift 4
WT=/tmp/seed/$P
cd $WT && git checkout -q -- flumine || exit 9
python3 - "$WT/$F" "$OLD" "$NEW" <<'PY' || { cd $WT && git checkout -q -- flumine; exit 9; }
import sys
p, old, new = sys.argv[1:4]
s = open(p).read()
n = s.count(old)
if n != 1:
    print("replacement text matches %d times" % n); sys.exit(1)
open(p, "w").write(s.replace(old, new))
PY
git -C $WT diff --stat | tail -1
cd $HERE
for c in "$@"; do ./check $c --repo $WT --no-evidence -v 2>&1 | tail -8; echo "exit=$?"; done
cd $WT && git checkout -q -- flumine
