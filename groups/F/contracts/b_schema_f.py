"""Schema additions shared by the C08 (process_closed_market), C09 and C19 sidecars (contributor F).

Nothing here redefines a field of a_schema.py.
"""

# truthiness of a SimulatedOrder is its __bool__: config.simulated or (order.client and order.client.paper_trade).
# It is modelled as an abstract boolean field of the object (assumption: none of the functions under contract here changes
# config.simulated / client.paper_trade, so the value is stable during one call).
abstract_bool("SimulatedOrder", "_is_simulated")

# market.context: a dict with literal string keys ({"simulated": {...}} from Market.__init__, "line_range_result" set by the user)
struct("MarketContext", simulated=Opt(MapOf(Tup(INT, REAL), Ref("RunnerAnalytics"))), line_range_result=Opt(REAL), absent_keyerror=False)
schema("Market", context=Ref("MarketContext"))
# Market.market_type is a property over the catalogue / the book's market definition: read as an abstract field
abstract_property("Market", "market_type", Opt(ATOM))

inline("flumine/markets/blotter.py::Blotter.__iter__")


def blotter_orders(blotter):
    """the sequence `for order in blotter` iterates: list(blotter._orders.values()) (insertion order)"""
    return list(blotter._orders.values())


def blotter_keys(blotter):
    return list(blotter._orders.keys())
