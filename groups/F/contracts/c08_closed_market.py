"""C08 (remaining part) - Blotter.process_closed_market: the settlement inputs of every order are copied from the closing book.

Statement (properties.jsonl C08 / DESIGN C08): "for each order the matching runner's status and the market's type / divisor are
copied; number_of_dead_heat_winners = 1 when the market declares 0 winners, the count of WINNER runners when it exceeds the
declared number, else unset" (unset = left as it was: None from BaseOrder.__init__).

Technique: the effect is proved for ONE ARBITRARY order of the blotter (logical variable k) and ONE ARBITRARY runner of the
book (logical variable r) - free constants of every verification condition, i.e. universally quantified.
"""


def runner_matches(o, r):
    return o.selection_id == r.selection_id and o.handicap == r.handicap


def n_winners(book):
    return len([runner for runner in book.runners if runner.status == "WINNER"])


def is_line_order(o):
    return o.order_type.ORDER_TYPE == OrderTypes.LIMIT and o.order_type.price_ladder_definition == "LINE_RANGE"


def line_result_available(market):
    return market.context["line_range_result"] is not None and market.context["line_range_result"] != 0


def inputs_unchanged(o):
    return (o.runner_status == old(o.runner_status) and o.market_type == old(o.market_type) and o.each_way_divisor == old(o.each_way_divisor)
            and o.number_of_dead_heat_winners == old(o.number_of_dead_heat_winners) and o.line_range_result == old(o.line_range_result))


def dead_heat_rule(o, book, w):
    """1 when the market declares no fixed number of winners, the number of WINNER runners when there are more of them
    than the market pays out on (a dead heat), otherwise untouched"""
    return o.number_of_dead_heat_winners == (
        1 if book.number_of_winners == 0 else (w if w > book.number_of_winners else old(o.number_of_dead_heat_winners)))


def line_rule(o, market):
    return o.line_range_result == (market.context["line_range_result"] if is_line_order(o) and line_result_available(market) else old(o.line_range_result))


def copied_from(o, r, book, market, w):
    return (o.runner_status == r.status and o.market_type == book.market_definition.market_type
            and o.each_way_divisor == book.market_definition.each_way_divisor and dead_heat_rule(o, book, w) and line_rule(o, market))


def copied_if_runner(o, book, market, w, r, hi):
    """runner r of the book (among the first hi) is the order's runner: the order carries that runner's result"""
    return implies(0 <= r and r < hi and runner_matches(o, book.runners[r]), copied_from(o, book.runners[r], book, market, w))


def untouched_upto(o, book, hi):
    """left alone while none of the first hi runners of the book is the order's runner"""
    return implies(forall(lambda q: not runner_matches(o, book.runners[q]), 0, hi), inputs_unchanged(o))


def runners_unique(book):
    return forall_int(lambda a, b: implies(0 <= a and a < b and b < len(book.runners),
                                           not (book.runners[a].selection_id == book.runners[b].selection_id and book.runners[a].handicap == book.runners[b].handicap)))


def orders_keyed_by_id(blotter):
    """representation invariant of Blotter._orders (established by Blotter.__setitem__ call sites: blotter[order.id] = order):
    every order is stored under its own id, and (a python dict) the keys are pairwise distinct - hence the orders iterated are
    pairwise distinct objects"""
    return (forall(lambda j: blotter_orders(blotter)[j].id == blotter_keys(blotter)[j], 0, len(blotter_keys(blotter)))
            and forall_int(lambda a, b: implies(0 <= a and a < b and b < len(blotter_keys(blotter)), blotter_keys(blotter)[a] != blotter_keys(blotter)[b])))


def known_order_types(blotter):
    return forall(lambda j: blotter_orders(blotter)[j].order_type.ORDER_TYPE == OrderTypes.LIMIT
                  or blotter_orders(blotter)[j].order_type.ORDER_TYPE == OrderTypes.LIMIT_ON_CLOSE
                  or blotter_orders(blotter)[j].order_type.ORDER_TYPE == OrderTypes.MARKET_ON_CLOSE, 0, len(blotter_orders(blotter)))


@contract("flumine/markets/blotter.py::Blotter.process_closed_market", tags=["C08", "C20"])
def _(self, market: Ref("Market"), market_book: Ref("MarketBook")):
    logical(k=INT, r=INT)
    requires("k_designates_an_order", 0 <= k and k < len(blotter_orders(self)))
    # the quantified facts are hypotheses only of the obligations that establish their ground consequences
    requires("runners_have_unique_selection_handicap", runners_unique(market_book), scope=("runner_r_is_the_only_match",))
    requires("orders_keyed_by_id", orders_keyed_by_id(self), scope=("current_order_is_not_k",))
    requires("order_types_known", known_order_types(self), scope=("current_order_type_known",))
    modifies_all("BaseOrder.runner_status")
    modifies_all("BaseOrder.market_type")
    modifies_all("BaseOrder.each_way_divisor")
    modifies_all("BaseOrder.number_of_dead_heat_winners")
    modifies_all("BaseOrder.line_range_result")
    local(line_range_result=Opt(REAL))
    # ---- loop 0: for order in self
    invariant(0, "current_order_is_not_k", implies(_i0 < len(blotter_orders(self)) and k != _i0, blotter_orders(self)[k] != blotter_orders(self)[_i0]))
    invariant(0, "current_order_type_known", implies(_i0 < len(blotter_orders(self)),
              blotter_orders(self)[_i0].order_type.ORDER_TYPE == OrderTypes.LIMIT or blotter_orders(self)[_i0].order_type.ORDER_TYPE == OrderTypes.LIMIT_ON_CLOSE
              or blotter_orders(self)[_i0].order_type.ORDER_TYPE == OrderTypes.MARKET_ON_CLOSE))
    invariant(0, "runner_r_is_the_only_match", implies(0 <= r and r < len(market_book.runners) and runner_matches(blotter_orders(self)[k], market_book.runners[r]),
              forall(lambda q: implies(runner_matches(blotter_orders(self)[k], market_book.runners[q]), q == r), 0, len(market_book.runners))))
    split(0, k < _i0)
    split(0, k == _i0)
    invariant(0, "pending_order_untouched", implies(k >= _i0, inputs_unchanged(blotter_orders(self)[k])))
    invariant(0, "processed_order_copied", implies(k < _i0, copied_if_runner(blotter_orders(self)[k], market_book, market, n_winners(market_book), r, len(market_book.runners))))
    invariant(0, "processed_order_without_runner", implies(k < _i0, untouched_upto(blotter_orders(self)[k], market_book, len(market_book.runners))))
    # ---- loop 1: for runner in market_book.runners (the order of the outer iteration is fixed)
    invariant(1, "this_order_copied", implies(k == _i0, copied_if_runner(blotter_orders(self)[k], market_book, market, n_winners(market_book), r, _i1)))
    invariant(1, "this_order_without_runner", implies(k == _i0, untouched_upto(blotter_orders(self)[k], market_book, _i1)))
    ensures("every_order_takes_its_runners_result", copied_if_runner(blotter_orders(self)[k], market_book, market, n_winners(market_book), r, len(market_book.runners)))
    ensures("orders_without_runner_in_the_book_untouched", untouched_upto(blotter_orders(self)[k], market_book, len(market_book.runners)))
