"""C09 - SimulatedMiddleware.__call__ / remove_market: every removal is applied exactly once per market.

The statement's bookkeeping is per market; the code's record (SimulatedMiddleware._runner_removals) is one list per middleware
instance keyed (selection_id, handicap, adjustment_factor) without the market id.  The specification therefore speaks about the
GHOST per-market record Market._removals_applied (extended by the ghost statement in the contract of _process_runner_removal,
c09_runner_removal.py - one entry per call) and couples it to the code's record by the representation relation
    applied_is_recorded:   every removal applied to a market is in self._runner_removals
(which is what makes the code's `not in` test prevent a second application).  "Exactly once per market" is then
    - at most once:  Market._removals_applied stays free of duplicates,
    - at least once: after __call__ every REMOVED runner of the book is in Market._removals_applied,
    - nothing else:  the entries added by __call__ are REMOVED runners of this book.
"""

REMOVAL = Tup(INT, REAL, Opt(REAL))


def triple(r):
    return (r.selection_id, r.handicap, r.adjustment_factor)


def is_removed(r):
    return r.status == "REMOVED"


def no_duplicates(l):
    return forall_int(lambda a, b: implies(0 <= a and a < b and b < len(l), l[a] != l[b]))


def all_recorded(applied, record):
    return forall(lambda i: applied[i] in record, 0, len(applied))


def extends(new, olds, n_old, added):
    """new == olds ++ added  (olds given by its old length n_old: the first n_old entries are untouched); the lengths are
    kept in a separate (ground) invariant"""
    return (forall(lambda m: new[m] == added[m - n_old], n_old, len(new))
            and forall(lambda j: added[j] == new[n_old + j], 0, len(added)))  # the same fact indexed from the other side (instantiation)


def in_record_at_entry(mw, t):
    """t was in the instance-wide record when the call started (old(...) of a list is only the list OBJECT: its contents
    have to be read inside old as well)"""
    return exists(lambda i: old(mw._runner_removals[i]) == t, 0, old(len(mw._runner_removals)))


def applied_at_entry(market, t):
    return exists(lambda i: old(market._removals_applied[i]) == t, 0, old(len(market._removals_applied)))


def removed_runners_factor_domain(book):
    """adjustment factors are percentages of the book (None where the market has none)"""
    return forall(lambda r: implies(is_removed(book.runners[r]) and book.runners[r].adjustment_factor is not None,
                                    0 <= book.runners[r].adjustment_factor and book.runners[r].adjustment_factor < 100), 0, len(book.runners))


# ----------------------------------------------------------------------------- assumed contracts of the two callees that are not C09's
@contract("flumine/markets/middleware.py::SimulatedMiddleware._process_runner", tags=["C09-assumed"])
def _(market_analytics: MapOf(Tup(INT, REAL), Ref("RunnerAnalytics")), runner: Ref("RunnerBook")):
    trusted("frame only (C06 is about its content): touches the per-market analytics dict and RunnerAnalytics objects, nothing of the removal bookkeeping")
    modifies_map(market_analytics)
    modifies_all("RunnerAnalytics.runner")
    modifies_all("RunnerAnalytics.traded")
    modifies_all("RunnerAnalytics._traded_volume")
    modifies_all("RunnerAnalytics._p_v")


@contract("flumine/markets/middleware.py::SimulatedMiddleware._process_simulated_orders", tags=["C09-assumed"])
def _(self, market: Ref("Market"), market_analytics: MapOf(Tup(INT, REAL), Ref("RunnerAnalytics"))):
    trusted("frame only (C06 / C13 are about its content): matching of the live orders; writes the simulated orders' matching state, nothing of the removal bookkeeping")
    modifies_all("size_matched")
    modifies_all("SimulatedOrder.average_price_matched")
    modifies_all("SimulatedOrder.size_lapsed")
    modifies_all("SimulatedOrder.market_version")
    modifies_all("SimulatedOrder._piq")
    modifies_all("SimulatedOrder._bsp_reconciled")
    modifies_all("SimulatedOrder.matched")


# ----------------------------------------------------------------------------- __call__
def new_entry_ok(new, record0, book, j, seen):
    """entry j of the local list of new removals: not in the instance record as it was at entry, and the triple of a REMOVED
    runner among the first `seen` runners of the book"""
    return implies(0 <= j and j < len(new),
                   not (new[j] in record0)
                   and exists(lambda r: is_removed(book.runners[r]) and triple(book.runners[r]) == new[j], 0, seen))


@contract("flumine/markets/middleware.py::SimulatedMiddleware.__call__", tags=["C09"])
def _(self, market: Ref("Market")):
    # q: an arbitrary runner of the book; a < b: two arbitrary positions of the market's applied-record after the call
    logical(q=INT, a=INT, b=INT)
    requires("book_present", market.market_book is not None)
    # quantified facts are kept out of the VCs of the ground length bookkeeping (the "lengths_" invariants)
    requires("removal_factors_are_percentages", removed_runners_factor_domain(market.market_book), scope=("call-pre",))
    requires("runners_have_unique_selection_handicap", runners_unique(market.market_book), scope=("call-pre",))
    requires("blotter_representation", static_rep(market), scope=("call-pre",))
    requires("on_close_orders_have_a_liability", liabilities_present(market), scope=("call-pre", "liabilities"))
    requires("applied_is_recorded", all_recorded(market._removals_applied, self._runner_removals), scope=("applied_at_most_once", "applied_is_recorded"))
    requires("applied_without_duplicates", no_duplicates(market._removals_applied), scope=("applied_at_most_once",))
    requires("separate_lists", market._removals_applied is not self._runner_removals)
    local(runner_removals=ListOf(REMOVAL))
    modifies_map(self.markets)
    modifies_list(self._runner_removals)
    modifies_list(market._removals_applied)
    modifies(market.context, "simulated")
    modifies_all("RunnerAnalytics.runner")
    modifies_all("RunnerAnalytics.traded")
    modifies_all("RunnerAnalytics._traded_volume")
    modifies_all("RunnerAnalytics._p_v")
    modifies_all("size_matched")
    modifies_all("SimulatedOrder.average_price_matched")
    modifies_all("SimulatedOrder.matched")
    modifies_all("SimulatedOrder.size_voided")
    modifies_all("SimulatedOrder.size_lapsed")
    modifies_all("SimulatedOrder.market_version")
    modifies_all("SimulatedOrder._piq")
    modifies_all("SimulatedOrder._bsp_reconciled")
    modifies_all("BaseOrderType.liability")
    modifies_all("Fragment.1")

    # ---- loop 0: collect the REMOVED runners that the instance-wide record does not hold yet
    invariant(0, "lengths_record", len(self._runner_removals) == old(len(self._runner_removals)) + len(runner_removals))
    invariant(0, "record_extended_by_new", extends(self._runner_removals, old(self._runner_removals), old(len(self._runner_removals)), runner_removals)
              and forall(lambda i: self._runner_removals[i] == old(self._runner_removals[i]), 0, old(len(self._runner_removals))), scope=("record_", "runner_q", "new_", "applied_", "call-pre", "liabilities", "frame", "iterated", "no-unexpected", "canary"))
    invariant(0, "runner_q_recorded_once_seen", implies(0 <= q and q < _i0 and is_removed(market.market_book.runners[q]),
                                                        in_record_at_entry(self, triple(market.market_book.runners[q])) or triple(market.market_book.runners[q]) in runner_removals))
    invariant(0, "new_not_recorded_before", forall(lambda j: not in_record_at_entry(self, runner_removals[j]), 0, len(runner_removals)), scope=("record_", "runner_q", "new_", "applied_", "call-pre", "liabilities", "frame", "iterated", "no-unexpected", "canary"))
    invariant(0, "new_are_removed_runners", forall(lambda j: exists(lambda r: is_removed(market.market_book.runners[r]) and triple(market.market_book.runners[r]) == runner_removals[j], 0, _i0),
                                                   0, len(runner_removals)), scope=("record_", "runner_q", "new_", "applied_", "call-pre", "liabilities", "frame", "iterated", "no-unexpected", "canary"))
    invariant(0, "new_entries_a_b_differ", implies(0 <= a - old(len(market._removals_applied)) and a < b and b - old(len(market._removals_applied)) < len(runner_removals),
                                                  runner_removals[a - old(len(market._removals_applied))] != runner_removals[b - old(len(market._removals_applied))]))
    # ---- loop 1: apply them (one ghost entry per call of _process_runner_removal)
    invariant(1, "lengths_applied", len(market._removals_applied) == old(len(market._removals_applied)) + _i1)
    invariant(1, "applied_extended_by_processed_prefix", forall(lambda i: market._removals_applied[i] == old(market._removals_applied[i]), 0, old(len(market._removals_applied))), scope=("record_", "runner_q", "new_", "applied_", "call-pre", "liabilities", "frame", "iterated", "no-unexpected", "canary"))
    invariant(1, "applied_extended_by_processed_tail", forall(lambda i: market._removals_applied[i] == runner_removals[i - old(len(market._removals_applied))],
                                                              old(len(market._removals_applied)), len(market._removals_applied)), scope=("record_", "runner_q", "new_", "applied_", "call-pre", "liabilities", "frame", "iterated", "no-unexpected", "canary"))
    invariant(1, "runner_q_applied_once_processed", implies(0 <= q and q < len(market.market_book.runners) and is_removed(market.market_book.runners[q])
                                                            and exists(lambda j: runner_removals[j] == triple(market.market_book.runners[q]), 0, _i1),
                                                            triple(market.market_book.runners[q]) in market._removals_applied))
    invariant(1, "liabilities_present", liabilities_present(market), scope=("call-pre", "liabilities"))

    ensures("lengths_every_new_removal_applied_once", len(market._removals_applied) - old(len(market._removals_applied)) == len(self._runner_removals) - old(len(self._runner_removals)))
    ensures("applied_at_least_once", implies(0 <= q and q < len(market.market_book.runners) and is_removed(market.market_book.runners[q]),
                                             triple(market.market_book.runners[q]) in market._removals_applied))
    ensures("applied_at_most_once", implies(0 <= a and a < b and b < len(market._removals_applied), market._removals_applied[a] != market._removals_applied[b]))
    ensures("applied_only_removed_runners_of_this_book",
            forall(lambda i: market._removals_applied[i] == old(market._removals_applied[i]), 0, old(len(market._removals_applied)))
            and implies(old(len(market._removals_applied)) <= b and b < len(market._removals_applied),
                        exists(lambda r: is_removed(market.market_book.runners[r]) and triple(market.market_book.runners[r]) == market._removals_applied[b], 0, len(market.market_book.runners))))
    ensures("applied_is_recorded", all_recorded(market._removals_applied, self._runner_removals))
    ensures("record_only_grows", len(self._runner_removals) >= old(len(self._runner_removals))
            and forall(lambda i: self._runner_removals[i] == old(self._runner_removals[i]), 0, old(len(self._runner_removals))))


@contract("flumine/markets/middleware.py::SimulatedMiddleware.remove_market", tags=["C09"])
def _(self, market: Ref("Market")):
    """closing one market must not forget what has been applied to the others: the coupling applied_is_recorded of every OTHER
    market rests on the record being kept"""
    modifies_map(self.markets)
    ensures("removal_record_kept", len(self._runner_removals) == old(len(self._runner_removals))
            and forall(lambda i: self._runner_removals[i] == old(self._runner_removals[i]), 0, len(self._runner_removals)))
    ensures("analytics_of_the_market_dropped", not (market.market_id in self.markets))
