"""C09 - runner removal: SimulatedMiddleware._calculate_reduction_factor / _process_runner_removal.

Statement (properties.jsonl C09): every simulated order on the removed runner is voided in full (nothing matched, nothing
remaining, zero profit, the order completes) whatever state it was in; matched fills on the other runners have their prices
multiplied by (1 - factor), never below 1.01, not at all when the factor is under the win-market threshold 2.5; market-on-close
lay liabilities on the other runners are scaled by the exchange's non-runner formula for win and place markets.

Technique: the per-order effect is proved for ONE ARBITRARY order of the blotter, designated by the logical variable `k`
(a free constant of every verification condition, i.e. universally quantified), and `rr` designates an arbitrary runner of
the book (used to name "the order's runner" without a quantifier).  Everything said about order k is therefore said about
every order.
"""

schema("SimulatedMiddleware",
       markets=MapOfDefault(ATOM, MapOf(Tup(INT, REAL), Ref("RunnerAnalytics"))),
       _runner_removals=ListOf(Tup(INT, REAL, Opt(REAL))))
schema("RunnerAnalytics", runner=Ref("RunnerBook"), traded=MapOf(REAL, REAL), _traded_volume=ListOf(Ref("PriceSize")), _p_v=MapOf(REAL, REAL))
# GHOST labels (never read or written by the code): fragment objects are not shared between or within `matched` lists -
# each is a fresh list literal appended by SimulatedOrder._update_matched; stated as "fragment b of order s is labelled (s, b)"
schema("Fragment", _owner=Ref("SimulatedOrder"), _pos=INT)

WIN_THRESHOLD = 2.5  # the exchange's minimum adjustment factor for price reductions (from the statement, not from the module constant)
MIN_PRICE = 1.01


def reduced(p, f):
    return max(round(p * (1 - f / 100), 2), MIN_PRICE)


@contract("flumine/markets/middleware.py::SimulatedMiddleware._calculate_reduction_factor", tags=["C09"])
def _(price: REAL, adjustment_factor: REAL) -> REAL:
    ensures("price_times_one_minus_factor_floored_at_1_01", result == reduced(price, adjustment_factor))
    ensures("never_below_minimum_price", result >= 1.01)


# ----------------------------------------------------------------------------- vocabulary
def is_sim(o):
    return bool(o.simulated)


def on_runner(o, sel, hcap):
    return o.selection_id == sel and o.handicap == hcap


def is_moc_lay(o):
    return o.order_type.ORDER_TYPE == OrderTypes.MARKET_ON_CLOSE and o.side == "LAY"


def is_limit_o(o):
    return o.order_type.ORDER_TYPE == OrderTypes.LIMIT


def factor_reduces(f):
    return f is not None and f >= WIN_THRESHOLD


def place_type(market):
    return market.market_type == "PLACE" or market.market_type == "OTHER_PLACE"


def remaining(so):
    """R = S - M - C - L - V of a limit order (DESIGN section 4)"""
    return so.order.order_type.size - so.size_matched - so.size_cancelled - so.size_lapsed - so.size_voided


def wap_average(m):
    """utils.wap (contract in c04_simorder.py): the volume weighted average price of the fragments, 2 dp"""
    return 0 if (len(m) == 0 or sum_sizes(m) == 0 or sum_ps(m) == 0) else round(sum_ps(m) / sum_sizes(m), 2)


def sim_fields_unchanged(so):
    return (so.size_matched == old(so.size_matched) and so.average_price_matched == old(so.average_price_matched)
            and so.size_voided == old(so.size_voided))


def same_fragments(so):
    """the same list object holding the same fragment objects"""
    return (so.matched is old(so.matched) and len(old(so.matched)) == old(len(so.matched))
            and forall(lambda b: old(so.matched)[b] == old(so.matched[b]), 0, old(len(so.matched))))


def prices_unchanged(so, lo, hi):
    return forall(lambda b: so.matched[b][1] == old(so.matched[b][1]), lo, hi)


def prices_reduced(so, f, lo, hi):
    return forall(lambda b: so.matched[b][1] == reduced(old(so.matched[b][1]), f), lo, hi)


def order_unchanged(o):
    return (sim_fields_unchanged(o.simulated) and same_fragments(o.simulated) and prices_unchanged(o.simulated, 0, len(o.simulated.matched))
            and o.order_type.liability == old(o.order_type.liability))


# ----------------------------------------------------------------------------- the effect on one order, clause by clause
def voided(o):
    """nothing matched"""
    return o.simulated.size_matched == 0 and o.simulated.average_price_matched == 0 and len(o.simulated.matched) == 0


def limit_nothing_remaining(o):
    """nothing remaining (a limit order: R' == 0; this is also what completes it at the next FlumineSimulation._process_simulated_orders,
    which tests order.size_remaining == 0)"""
    return implies(is_limit_o(o), remaining(o.simulated) == 0)


def sp_completes(o):
    """a LIMIT_ON_CLOSE / MARKET_ON_CLOSE order is completed by FlumineSimulation._process_simulated_orders when
    order.current_order.status == "EXECUTION_COMPLETE", i.e. (SimulatedOrder.status, take_sp) when _bsp_reconciled"""
    return implies(not is_limit_o(o), o.simulated._bsp_reconciled)


def moc_liability_scaled(o, market, f, af):
    """the exchange's non-runner formula: win markets 1 - f / (100 - af_of_the_order's_runner); place markets (100 - f) / 100"""
    return o.order_type.liability == (
        old(o.order_type.liability) * (1 - f / (100 - af)) if market.market_type == "WIN" else (
            old(o.order_type.liability) * ((100 - f) / 100) if place_type(market) else old(o.order_type.liability)))


def moc_matched_recomputed(o, market):
    """in-play (the SP bet is already matched): size matched recomputed from the scaled liability"""
    return o.simulated.size_matched == (
        round(o.order_type.liability / (old(o.simulated.average_price_matched) - 1), 2)
        if (market.market_type == "WIN" or place_type(market)) and old(o.simulated.average_price_matched) != 0 else old(o.simulated.size_matched))


def moc_rest_unchanged(o):
    so = o.simulated
    return (so.average_price_matched == old(so.average_price_matched) and so.size_voided == old(so.size_voided) and same_fragments(so)
            and prices_unchanged(so, 0, len(so.matched)))


def fills_reduced(o, f):
    so = o.simulated
    return (same_fragments(so) and prices_reduced(so, f, 0, len(so.matched)) and so.average_price_matched == wap_average(so.matched)
            and so.size_matched == old(so.size_matched) and so.size_voided == old(so.size_voided) and o.order_type.liability == old(o.order_type.liability))


# ----------------------------------------------------------------------------- representation invariants / domain (requires)
# GHOST labels (fields that no code reads or writes).  "There is a labelling with these properties" is equivalent to the
# separation facts they encode, and is how those facts are stated without quantifier alternation:
#   BaseOrder._bpos            position of the order in the blotter's iteration order          => the orders iterated are pairwise distinct
#                              (Blotter._orders is keyed by order.id: blotter[order.id] = order at every call site)
#   BaseOrderType._owner_order the order an order-type object belongs to                         => order types are not shared between orders
#   BaseOrder._ridx            index of the order's runner in market.market_book.runners         => orders are on runners of the book
#   Fragment._owner / _pos     (see above)                                                      => fragments are not shared
schema("BaseOrder", _bpos=INT, _ridx=INT)
# GHOST: the removals that have been applied to the orders of this market (appended by the ghost statement of
# _process_runner_removal's contract): the per-market record that the statement's "exactly once per market" speaks about
schema("Market", _removals_applied=ListOf(Tup(INT, REAL, Opt(REAL))))
schema("BaseOrderType", _owner_order=Ref("BaseOrder"))


def static_facts(o, market, j):
    """facts about fields that _process_runner_removal never writes"""
    bk = market.market_book
    return (o._bpos == j
            and o.simulated.order == o                                                      # SimulatedOrder.__init__(order)
            and o.order_type._owner_order == o
            and o.lookup[0] == market.market_id and o.lookup[1] == o.selection_id and o.lookup[2] == o.handicap   # BaseOrder.__init__ / blotter membership
            and o._simulated == bool(o.simulated)                                            # BaseOrder.__init__ cache
            and (is_limit_o(o) or o.order_type.ORDER_TYPE == OrderTypes.LIMIT_ON_CLOSE or o.order_type.ORDER_TYPE == OrderTypes.MARKET_ON_CLOSE)
            and implies(is_limit_o(o), o.order_type.size is not None)                        # SimulatedOrder.place refuses betTargetSize orders
            and (o.average_price_matched == 0 or o.average_price_matched >= 1.01)            # D1: a matched price is a price
            and 0 <= o._ridx and o._ridx < len(bk.runners) and runner_matches(o, bk.runners[o._ridx])
            # the adjustment factor of a runner of a BSP market exists and is below 100 (the factors of the field sum to 100)
            and implies(is_moc_lay(o), bk.runners[o._ridx].adjustment_factor is not None and bk.runners[o._ridx].adjustment_factor < 100))


def static_rep(market):
    b = market.blotter
    return forall(lambda j: static_facts(blotter_orders(b)[j], market, j), 0, len(blotter_orders(b)))


def liability_present(o):
    return implies(not is_limit_o(o), o.order_type.liability is not None)


def liabilities_present(market):
    """an on-close order has a liability (BaseOrderType of LIMIT_ON_CLOSE / MARKET_ON_CLOSE)"""
    b = market.blotter
    return forall(lambda j: liability_present(blotter_orders(b)[j]), 0, len(blotter_orders(b)))


def fragments_labelled(so):
    return forall(lambda c: so.matched[c]._owner == so and so.matched[c]._pos == c, 0, len(so.matched))


def abstract_average_price(o):
    """the abstract average_price_matched property field of a_schema.py is the simulator's figure
    (BetfairOrder.average_price_matched, verified against exactly this in c08_settlement.py)"""
    return implies(o._simulated, o.average_price_matched == o.simulated.average_price_matched)


def effects_pre(market):
    """what the per-order EFFECT clauses (not the safety of the function) rest on, about the entry state: fragments are not
    shared, and the abstract property field is in sync with the simulator"""
    b = market.blotter
    return forall(lambda j: abstract_average_price(blotter_orders(b)[j]) and fragments_labelled(blotter_orders(b)[j].simulated), 0, len(blotter_orders(b)))


def ord_at(market, j):
    return blotter_orders(market.blotter)[j]


def factor_of(market, r):
    return market.market_book.runners[r].adjustment_factor


def separate(a, b):
    """two different orders of the blotter share neither the simulated order nor the order type"""
    return a != b and a.simulated != b.simulated and a.order_type != b.order_type


def pending_rest(o):
    """what the orders not yet reached still have from the entry state (needed about the NEXT order only)"""
    return o.order_type.liability == old(o.order_type.liability) and same_fragments(o.simulated)


def fields_unchanged(o):
    return sim_fields_unchanged(o.simulated) and same_fragments(o.simulated) and o.order_type.liability == old(o.order_type.liability)


def all_prices_unchanged(o):
    return prices_unchanged(o.simulated, 0, len(o.simulated.matched))


def c_voided(o, sel, hcap):
    return implies(is_sim(o) and on_runner(o, sel, hcap), voided(o))


def c_remaining(o, sel, hcap):
    return implies(is_sim(o) and on_runner(o, sel, hcap), limit_nothing_remaining(o))


def c_completes(o, sel, hcap):
    return implies(is_sim(o) and on_runner(o, sel, hcap), sp_completes(o))


def c_moc(o, market, sel, hcap, f, af):
    return implies(is_sim(o) and not on_runner(o, sel, hcap) and is_moc_lay(o),
                   moc_liability_scaled(o, market, f, af) and moc_matched_recomputed(o, market) and moc_rest_unchanged(o))


def c_reduce(o, sel, hcap, f):
    return implies(is_sim(o) and not on_runner(o, sel, hcap) and not is_moc_lay(o) and factor_reduces(f), fills_reduced(o, f))


def c_same(o, sel, hcap, f):
    return implies(not is_sim(o) or (not on_runner(o, sel, hcap) and not is_moc_lay(o) and not factor_reduces(f)), order_unchanged(o))


def current_in_fragment_loop(o, f, done):
    """order k is the one whose fragments are being reduced: the first `done` fragments carry the reduced price"""
    so = o.simulated
    return prices_reduced(so, f, 0, done) and prices_unchanged(so, done, len(so.matched))


def applied_extended(market, sel, hcap, f):
    """GHOST: the record of the removals applied to this market gets exactly this removal appended"""
    return (len(market._removals_applied) == old(len(market._removals_applied)) + 1
            and market._removals_applied[old(len(market._removals_applied))] == (sel, hcap, f)
            and forall(lambda i: market._removals_applied[i] == old(market._removals_applied[i]), 0, old(len(market._removals_applied))))


@contract("flumine/markets/middleware.py::SimulatedMiddleware._process_runner_removal", tags=["C09"])
def _(self, market: Ref("Market"), removal_selection_id: INT, removal_handicap: REAL, removal_adjustment_factor: Opt(REAL)):
    # k: an arbitrary order of the blotter, rr: its runner in the book, pre_ok: "the effect precondition holds at entry"
    logical(k=INT, rr=INT, pre_ok=BOOL)
    requires("k_designates_an_order", 0 <= k and k < len(blotter_orders(market.blotter)))
    requires("rr_designates_the_runner_of_order_k", rr == ord_at(market, k)._ridx)
    requires("effects_precondition", implies(pre_ok, effects_pre(market)), scope=("facts_entry", "facts_fragments"))
    requires("book_present", market.market_book is not None)
    requires("factor_is_a_percentage", implies(removal_adjustment_factor is not None, 0 <= removal_adjustment_factor and removal_adjustment_factor < 100))
    # the quantified representation invariants are hypotheses only of the obligations that establish their ground consequences
    # (the loop-0 invariants named in the scopes); every other VC sees the two orders it is about through those invariants
    requires("runners_have_unique_selection_handicap", runners_unique(market.market_book), scope=("order_k_facts", "current_order_facts"))
    requires("blotter_representation", static_rep(market), scope=("current_order_facts", "order_k_facts", "current_order_is_not_k", "pending_orders_rest", "liabilities_present"))
    requires("on_close_orders_have_a_liability", liabilities_present(market), scope=("liabilities_present", "current_order_facts"))
    modifies_all("size_matched")  # incl. the abstract BaseOrder.size_matched property field, which is a view of the simulated figure
    modifies_all("SimulatedOrder.average_price_matched")
    modifies_all("SimulatedOrder.matched")
    modifies_all("SimulatedOrder.size_voided")
    modifies_all("BaseOrderType.liability")
    modifies_all("Fragment.1")
    modifies_list(market._removals_applied)
    ghost_exit(market._removals_applied.append((removal_selection_id, removal_handicap, removal_adjustment_factor)))

    # ---- loop 0: for order in market.blotter
    invariant(0, "liabilities_present", liabilities_present(market), scope=("liabilities_present", "current_order_facts"))
    invariant(0, "pending_orders_rest", forall(lambda j: pending_rest(ord_at(market, j)), _i0, len(blotter_orders(market.blotter))),
              scope=("current_order_facts", "pending_orders_rest"))
    invariant(0, "current_order_facts", implies(_i0 < len(blotter_orders(market.blotter)), static_facts(ord_at(market, _i0), market, _i0) and liability_present(ord_at(market, _i0))))
    invariant(0, "current_order_facts_runner", implies(_i0 < len(blotter_orders(market.blotter)),
              forall(lambda r: implies(runner_matches(ord_at(market, _i0), market.market_book.runners[r]), r == ord_at(market, _i0)._ridx), 0, len(market.market_book.runners))))
    invariant(0, "current_order_facts_fragments", implies(pre_ok and _i0 < len(blotter_orders(market.blotter)), fragments_labelled(ord_at(market, _i0).simulated)))
    invariant(0, "order_k_facts", static_facts(ord_at(market, k), market, k))
    invariant(0, "order_k_facts_runner", forall(lambda r: implies(runner_matches(ord_at(market, k), market.market_book.runners[r]), r == rr), 0, len(market.market_book.runners)))
    invariant(0, "order_k_facts_entry", implies(pre_ok, old(abstract_average_price(ord_at(market, k)) and fragments_labelled(ord_at(market, k).simulated))))
    invariant(0, "order_k_facts_fragments", implies(pre_ok, fragments_labelled(ord_at(market, k).simulated)))
    invariant(0, "current_order_is_not_k", implies(_i0 < len(blotter_orders(market.blotter)) and k != _i0, separate(ord_at(market, k), ord_at(market, _i0))))
    split(0, pre_ok)
    split(0, k < _i0)
    split(0, k == _i0)
    invariant(0, "pending_order_untouched", implies(k >= _i0, fields_unchanged(ord_at(market, k))))
    invariant(0, "pending_order_prices_untouched", implies(pre_ok and k >= _i0, all_prices_unchanged(ord_at(market, k))))
    invariant(0, "removed_runner_voided", implies(k < _i0, c_voided(ord_at(market, k), removal_selection_id, removal_handicap)))
    invariant(0, "removed_runner_nothing_remaining", implies(k < _i0, c_remaining(ord_at(market, k), removal_selection_id, removal_handicap)))
    invariant(0, "removed_runner_order_completes", implies(k < _i0, c_completes(ord_at(market, k), removal_selection_id, removal_handicap)))
    invariant(0, "moc_lay_liability_scaled", implies(pre_ok and k < _i0, c_moc(ord_at(market, k), market, removal_selection_id, removal_handicap, removal_adjustment_factor, factor_of(market, rr))))
    invariant(0, "fills_reduced", implies(pre_ok and k < _i0, c_reduce(ord_at(market, k), removal_selection_id, removal_handicap, removal_adjustment_factor)))
    invariant(0, "otherwise_unchanged", implies(pre_ok and k < _i0, c_same(ord_at(market, k), removal_selection_id, removal_handicap, removal_adjustment_factor)))
    # ---- loop 1: for match in order.simulated.matched (only in the price-reduction branch); only Fragment[1] is written there
    invariant(1, "pending_order_prices_untouched", implies(pre_ok and k > _i0, all_prices_unchanged(ord_at(market, k))))
    invariant(1, "current_order", implies(pre_ok and k == _i0, current_in_fragment_loop(ord_at(market, k), removal_adjustment_factor, _i1)))
    invariant(1, "moc_lay_liability_scaled", implies(pre_ok and k < _i0, c_moc(ord_at(market, k), market, removal_selection_id, removal_handicap, removal_adjustment_factor, factor_of(market, rr))))
    invariant(1, "fills_reduced", implies(pre_ok and k < _i0, c_reduce(ord_at(market, k), removal_selection_id, removal_handicap, removal_adjustment_factor)))
    invariant(1, "otherwise_unchanged", implies(pre_ok and k < _i0, c_same(ord_at(market, k), removal_selection_id, removal_handicap, removal_adjustment_factor)))

    # ---- the effect on order k (i.e. on every order); the last three under the effect precondition
    ensures("removed_runner_voided", c_voided(ord_at(market, k), removal_selection_id, removal_handicap))
    ensures("removed_runner_nothing_remaining", c_remaining(ord_at(market, k), removal_selection_id, removal_handicap))
    ensures("removed_runner_order_completes", c_completes(ord_at(market, k), removal_selection_id, removal_handicap))
    ensures("moc_lay_liability_scaled", implies(pre_ok, c_moc(ord_at(market, k), market, removal_selection_id, removal_handicap, removal_adjustment_factor, factor_of(market, rr))))
    ensures("fills_reduced", implies(pre_ok, c_reduce(ord_at(market, k), removal_selection_id, removal_handicap, removal_adjustment_factor)))
    ensures("otherwise_unchanged", implies(pre_ok, c_same(ord_at(market, k), removal_selection_id, removal_handicap, removal_adjustment_factor)))
    # ---- what callers get
    ensures("liabilities_present", liabilities_present(market))
    ensures("removal_recorded_as_applied", applied_extended(market, removal_selection_id, removal_handicap, removal_adjustment_factor))


@lemma("voided_order_settles_at_zero", tags=["C09"])
def _(a: REAL, n: INT, d: REAL, status: Opt(ATOM), line_result: Opt(REAL)):
    """zero profit: with nothing matched every settlement rule of C08 (c08_settlement.py, against which SimulatedOrder.profit is
    verified) pays 0"""
    requires(n >= 1 and d != 0)
    ensures("plain", settle_plain("BACK", 0, a, status, n) == 0 and settle_plain("LAY", 0, a, status, n) == 0)
    ensures("each_way", settle_each_way("BACK", 0, a, status, d) == 0 and settle_each_way("LAY", 0, a, status, d) == 0)
    ensures("line", settle_line("BACK", 0, a, line_result) == 0 and settle_line("LAY", 0, a, line_result) == 0)


# ----------------------------------------------------------------------------- "the order completes": what the completion test reads
# FlumineSimulation._process_simulated_orders completes a LIMIT order when order.size_remaining == 0 and an on-close order when
# order.current_order.status == "EXECUTION_COMPLETE" (flumine/simulation/simulation.py, not under contract here); the spec
# functions limit_nothing_remaining / sp_completes above are exactly those two tests, as this contract of the property shows
@contract("flumine/simulation/simulatedorder.py::SimulatedOrder.status", tags=["C09"])
def _(self) -> ATOM:
    requires("known_order_type", self.order.order_type.ORDER_TYPE == OrderTypes.LIMIT or self.order.order_type.ORDER_TYPE == OrderTypes.LIMIT_ON_CLOSE
             or self.order.order_type.ORDER_TYPE == OrderTypes.MARKET_ON_CLOSE)
    requires("limit_order_has_a_size", implies(self.order.order_type.ORDER_TYPE == OrderTypes.LIMIT, self.order.order_type.size is not None and self.order.order_type.size != 0))
    ensures("on_close_order_completes_iff_reconciled", implies(self.order.order_type.ORDER_TYPE != OrderTypes.LIMIT,
                                                               (result == "EXECUTION_COMPLETE") == self._bsp_reconciled))
    ensures("limit_order_completes_iff_nothing_remaining", implies(self.order.order_type.ORDER_TYPE == OrderTypes.LIMIT and self.order.order_type.persistence_type != "MARKET_ON_CLOSE",
                                                                   (result == "EXECUTION_COMPLETE") == (remaining(self) == 0)))
