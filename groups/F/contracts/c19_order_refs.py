"""C19 - order references: valid, at most 32 characters, round-trip; invalid separators rejected.

Strings are character sequences (CHARS: length + array of code points).  BaseOrder.id is an opaque string atom in the shared
schema (a_schema.py: ATOM); its characters are chars(order.id) (ATOM_LEN / ATOM_CHARS of the atom).

customer_order_ref == name_hash ++ sep ++ id, with (representation invariants, established where noted)
  name_hash : 13 lower-case hex digits           create_cheap_hash(name, 13)  (BaseStrategy.__init__; contract below)
  sep       : one character the exchange accepts  the sep setter (contract below) / config.order_sep = "-"
  id        : decimal digits, at most 18          str(uuid.uuid1().time), time < 10**18   (ASSUMED: BaseOrder.__init__ not under contract)
"""

VALID = charset("-._+*:;~" "abcdefghijklmnopqrstuvwxyz" "ABCDEFGHIJKLMNOPQRSTUVWXYZ" "0123456789")  # the exchange's documentation, written from the statement
HEX = charset("0123456789abcdef")
DIGITS = charset("0123456789")
HASH_LENGTH = 13
MAX_REF = 32

# the module constant is built with set.union over string.ascii_letters / string.digits: replaced by the literal set; extra_c19.py
# compares it natively with the real module constant on every run (ground check)
const("flumine.order.order", "VALID_BETFAIR_CUSTOMER_ORDER_REF_CHARACTERS", VALID)

schema("BaseStrategy", name_hash=CHARS, name=CHARS)
schema("BaseOrder", _sep=CHARS)
inline("flumine/order/order.py::BaseOrder.sep")


def all_in(s, cs):
    return forall(lambda i: s[i] in cs, 0, len(s))


# ----------------------------------------------------------------------------- hashlib (assumed, A7)
schema("Sha1")


@external("hashlib.sha1", tags=["C19"])
def _() -> Ref("Sha1"):
    pass


@virtual("Sha1", "update", tags=["C19"])
def _(self, data: ATOM):
    pass


@virtual("Sha1", "hexdigest", tags=["C19"])
def _(self) -> CHARS:
    ensures("forty_lower_case_hex_digits", len(result) == 40 and all_in(result, HEX))


@contract("flumine/utils.py::create_cheap_hash", tags=["C19"])
def _(txt: CHARS, length: INT) -> CHARS:
    requires("length_in_range", 0 <= length and length <= 40)
    ensures("length", len(result) == length)
    ensures("hex_digits", all_in(result, HEX))


# ----------------------------------------------------------------------------- separator validation
@contract("flumine/order/order.py::BetfairOrder.is_valid_customer_order_ref_character", tags=["C19"])
def _(c: CHARS) -> BOOL:
    ensures("exactly_one_permitted_character", result == (len(c) == 1 and c[0] in VALID))


@contract("flumine/order/order.py::BaseOrder.sep@setter", tags=["C19"], self_class="BetfairOrder")
def _(self, new_sep: CHARS):
    modifies(self, "_sep")
    raises(ValueError, when=not (len(new_sep) == 1 and new_sep[0] in VALID), iff=True, label="invalid_separator_rejected")
    ensures("valid_separator_stored", self._sep == new_sep)


# ----------------------------------------------------------------------------- the reference
def ref_parts_ok(o):
    return (len(o.trade.strategy.name_hash) == HASH_LENGTH and all_in(o.trade.strategy.name_hash, HEX)
            and len(o._sep) == 1 and o._sep[0] in VALID
            and len(chars(o.id)) >= 1 and len(chars(o.id)) <= 18 and all_in(chars(o.id), DIGITS))


@contract("flumine/order/order.py::BaseOrder.customer_order_ref", tags=["C19"], self_class="BetfairOrder")
def _(self) -> CHARS:
    requires("parts", ref_parts_ok(self))
    ensures("hash_sep_id", result == self.trade.strategy.name_hash + self._sep + chars(self.id))
    ensures("at_most_32_characters", len(result) <= MAX_REF)
    ensures("only_permitted_characters", all_in(result, VALID))
    ensures("splits_back", result[:HASH_LENGTH] == self.trade.strategy.name_hash and result[HASH_LENGTH + 1:] == chars(self.id))


@lemma("reference_round_trip", tags=["C19"])
def _(h: CHARS, s: CHARS, d: CHARS):
    """splitting by the fixed hash length recovers the pair for EVERY separator character and id"""
    requires(len(h) == HASH_LENGTH and len(s) == 1 and len(d) >= 0)
    ensures("hash_recovered", (h + s + d)[:HASH_LENGTH] == h)
    ensures("id_recovered", (h + s + d)[HASH_LENGTH + 1:] == d)


@lemma("references_of_different_orders_differ", tags=["C19"])
def _(h1: CHARS, s1: CHARS, d1: CHARS, h2: CHARS, s2: CHARS, d2: CHARS):
    """uniqueness: two references agree only if the ids (and the hashes) agree, whatever the strategies and separators - so
    distinct ids (ASSUMED: distinct uuid1().time values, section 6 of DESIGN) give distinct references.  Stated on the parts
    that the parsers cut out (equal strings have equal slices: r1 == r2 implies r1[14:] == r2[14:] and r1[:13] == r2[:13])"""
    requires(len(h1) == HASH_LENGTH and len(h2) == HASH_LENGTH and len(s1) == 1 and len(s2) == 1 and len(d1) >= 0 and len(d2) >= 0)
    ensures("equal_references_have_equal_ids", implies((h1 + s1 + d1)[HASH_LENGTH + 1:] == (h2 + s2 + d2)[HASH_LENGTH + 1:], d1 == d2))
    ensures("and_equal_hashes", implies((h1 + s1 + d1)[:HASH_LENGTH] == (h2 + s2 + d2)[:HASH_LENGTH], h1 == h2))


# ----------------------------------------------------------------------------- where the parts come from: the two constructors
schema("BaseStrategy", market_filter=ATOM, market_data_filter=ATOM, sports_data_filter=ListOf(ATOM), streaming_timeout=Opt(REAL), conflate_ms=Opt(INT),
       stream_class=ATOM, _name=Opt(CHARS), context=MapOf(ATOM, ATOM), max_selection_exposure=Opt(REAL), max_order_exposure=Opt(REAL),
       max_market_exposure=Opt(REAL), clients=Opt(Ref("Clients")), max_trade_count=REAL, max_live_trade_count=INT, multi_order_trades=BOOL,
       _invested=MapOf(Tup(ATOM, INT, REAL), Ref("RunnerContext")), streams=ListOf(Ref("BaseStream")), historic_stream_ids=ListOf(INT))
# BaseStrategy.name is a property (self._name or the class name): read as an abstract string field - the hash is taken of whatever it is
module_var("flumine.strategy.strategy", DEFAULT_MARKET_DATA_FILTER=ATOM)


@contract("flumine/strategy/strategy.py::BaseStrategy.__init__", tags=["C19"])
def _(self, market_filter: ATOM, market_data_filter: Opt(ATOM), sports_data_filter: Opt(ListOf(ATOM)), streaming_timeout: Opt(REAL), conflate_ms: Opt(INT),
      stream_class: ATOM, name: Opt(CHARS), context: Opt(MapOf(ATOM, ATOM)), max_selection_exposure: Opt(REAL), max_order_exposure: Opt(REAL),
      max_market_exposure: Opt(REAL), max_trade_count: REAL, max_live_trade_count: INT, multi_order_trades: BOOL):
    """for EVERY strategy name (empty, unicode, very long: the name is an arbitrary character sequence here)"""
    modifies(self, "market_filter"); modifies(self, "market_data_filter"); modifies(self, "sports_data_filter"); modifies(self, "streaming_timeout")
    modifies(self, "conflate_ms"); modifies(self, "stream_class"); modifies(self, "_name"); modifies(self, "context"); modifies(self, "max_selection_exposure")
    modifies(self, "max_order_exposure"); modifies(self, "max_market_exposure"); modifies(self, "clients"); modifies(self, "max_trade_count")
    modifies(self, "max_live_trade_count"); modifies(self, "multi_order_trades"); modifies(self, "_invested"); modifies(self, "streams")
    modifies(self, "historic_stream_ids"); modifies(self, "name_hash")
    ensures("name_hash_is_13_hex_digits", len(self.name_hash) == HASH_LENGTH and all_in(self.name_hash, HEX))


# ----------------------------------------------------------------------------- BaseOrder.__init__ (instantiated for BetfairOrder: the class whose references go to the exchange)
schema("UUID", time=INT)
schema("Responses", date_time_created=REAL, current_order=Opt(Ref("CurrentOrderResource")), place_response=Opt(Ref("CurrentOrderResource")),
       cancel_responses=ListOf(ATOM), replace_responses=ListOf(ATOM), update_responses=ListOf(ATOM), _date_time_placed=Opt(REAL))
schema("OrderedDict")
schema("BaseOrder", context=MapOf(ATOM, ATOM), notes=Ref("OrderedDict"), cleared_order=Opt(Ref("ClearedOrderResource")))
inline("flumine/order/responses.py::Responses.__init__", "flumine/simulation/simulatedorder.py::SimulatedOrder.__init__")


@external("uuid.uuid1", tags=["C19"])
def _() -> Ref("UUID"):
    """ASSUMED (A7, DESIGN section 6): the 60-bit timestamp of a version-1 UUID, read by a clock before the year 4751
    (100 ns ticks since 1582: < 10**18); distinct calls in one process give distinct .time values (not expressible here: uniqueness
    within a run rests on it)"""
    ensures("timestamp_range", 0 <= result.time and result.time < 1000000000000000000)


@external("collections.OrderedDict", tags=["C19"])
def _() -> Ref("OrderedDict"):
    pass


@contract("flumine/order/order.py::BaseOrder.__init__", tags=["C19"], self_class="BetfairOrder")
def _(self, trade: Ref("Trade"), side: ATOM, order_type: Ref("BaseOrderType"), handicap: REAL, sep: CHARS, context: Opt(MapOf(ATOM, ATOM)), notes: Opt(Ref("OrderedDict"))):
    """creation establishes the representation invariants of the reference, or refuses the separator"""
    raises(ValueError, when=not (len(sep) == 1 and sep[0] in VALID), iff=True, label="invalid_separator_rejected_at_creation",
           modifies=[("all", "BaseOrder.id"), ("all", "BaseOrder.trade"), ("all", "BaseOrder.side"), ("all", "BaseOrder.order_type"), ("all", "BaseOrder.selection_id"), ("all", "BaseOrder.handicap"), ("all", "BaseOrder.lookup"), ("all", "BaseOrder.client"), ("all", "BaseOrder.runner_status"), ("all", "BaseOrder.line_range_result"), ("all", "BaseOrder.market_type"), ("all", "BaseOrder.each_way_divisor"), ("all", "BaseOrder.number_of_dead_heat_winners"), ("all", "BaseOrder.status"), ("all", "BaseOrder.complete"), ("all", "BaseOrder.status_log"), ("all", "BaseOrder.violation_msg"), ("all", "BaseOrder.context"), ("all", "BaseOrder.notes"), ("all", "BaseOrder.market_notes"), ("all", "BaseOrder.bet_id"), ("all", "BaseOrder.update_data"), ("all", "BaseOrder.responses"), ("all", "BaseOrder.simulated"), ("all", "BaseOrder._simulated"), ("all", "BaseOrder.publish_time"), ("all", "BaseOrder.market_version"), ("all", "BaseOrder.async_"), ("all", "BaseOrder.date_time_created"), ("all", "BaseOrder.date_time_execution_complete"), ("all", "BaseOrder.date_time_status_update"), ("all", "BaseOrder.cleared_order"), ("all", "BaseOrder._sep")])
    modifies_all("BaseOrder.id"); modifies_all("BaseOrder.trade"); modifies_all("BaseOrder.side"); modifies_all("BaseOrder.order_type"); modifies_all("BaseOrder.selection_id"); modifies_all("BaseOrder.handicap")
    modifies_all("BaseOrder.lookup"); modifies_all("BaseOrder.client"); modifies_all("BaseOrder.runner_status"); modifies_all("BaseOrder.line_range_result"); modifies_all("BaseOrder.market_type")
    modifies_all("BaseOrder.each_way_divisor"); modifies_all("BaseOrder.number_of_dead_heat_winners"); modifies_all("BaseOrder.status"); modifies_all("BaseOrder.complete"); modifies_all("BaseOrder.status_log")
    modifies_all("BaseOrder.violation_msg"); modifies_all("BaseOrder.context"); modifies_all("BaseOrder.notes"); modifies_all("BaseOrder.market_notes"); modifies_all("BaseOrder.bet_id"); modifies_all("BaseOrder.update_data")
    modifies_all("BaseOrder.responses"); modifies_all("BaseOrder.simulated"); modifies_all("BaseOrder._simulated"); modifies_all("BaseOrder.publish_time"); modifies_all("BaseOrder.market_version")
    modifies_all("BaseOrder.async_"); modifies_all("BaseOrder.date_time_created"); modifies_all("BaseOrder.date_time_execution_complete"); modifies_all("BaseOrder.date_time_status_update")
    modifies_all("BaseOrder.cleared_order"); modifies_all("BaseOrder._sep")
    ensures("separator_is_the_one_given", self._sep == sep and len(self._sep) == 1 and self._sep[0] in VALID)
    ensures("id_is_at_most_18_decimal_digits", len(chars(self.id)) >= 1 and len(chars(self.id)) <= 18 and all_in(chars(self.id), DIGITS))


# ----------------------------------------------------------------------------- parsing a reference received back: Blotter.process_cleared_orders
schema("ClearedOrders", orders=ListOf(Ref("ClearedOrderResource")))
schema("ClearedOrderResource", customer_order_ref=CHARS, profit=REAL)
inline("flumine/markets/blotter.py::Blotter.__getitem__", "flumine/markets/blotter.py::Blotter.has_order")


def parsed_id(co):
    """the order id cut out of a reference: everything after the 13 hash characters and the separator"""
    return co.customer_order_ref[HASH_LENGTH + 1:]


def attributed_ok(blotter, kk):
    """order kk of the blotter carries either what it carried before or a cleared order whose reference names exactly it"""
    return implies(kk in blotter._orders,
                   blotter._orders[kk].cleared_order == old(blotter._orders[kk].cleared_order)
                   or (blotter._orders[kk].cleared_order is not None and parsed_id(blotter._orders[kk].cleared_order) == chars(kk)))


@contract("flumine/markets/blotter.py::Blotter.process_cleared_orders", tags=["C19"], fresh_result=True)
def _(self, cleared_orders: Ref("ClearedOrders")) -> ListOf(Ref("BaseOrder")):
    # kk: an arbitrary order id (string atom); c: an arbitrary position in the cleared orders received
    logical(kk=ATOM, c=INT)
    requires("orders_keyed_by_id", forall_atom(lambda k: implies(k in self._orders, self._orders[k].id == k)), scope=("never_attributed", "reference_recovers"))  # blotter[order.id] = order at every call site
    modifies_all("BaseOrder.cleared_order")
    invariant(0, "never_attributed_to_another_order", attributed_ok(self, kk))
    invariant(0, "reference_recovers_its_order", implies(0 <= c and c < _i0 and kk in self._orders and parsed_id(cleared_orders.orders[c]) == chars(kk),
                                                         self._orders[kk].cleared_order is not None and parsed_id(self._orders[kk].cleared_order) == chars(kk)))
    ensures("never_attributed_to_another_order", attributed_ok(self, kk))
    ensures("reference_recovers_its_order", implies(0 <= c and c < len(cleared_orders.orders) and kk in self._orders and parsed_id(cleared_orders.orders[c]) == chars(kk),
                                                    self._orders[kk].cleared_order is not None and parsed_id(self._orders[kk].cleared_order) == chars(kk)))
