"""C19 - property-level checks that are not VCs (run by the driver through run_extra_checks):

1. GROUND: the module constants the contracts replace / rely on are what the contracts say (evaluated on the REAL module of the
   tree under check): VALID_BETFAIR_CUSTOMER_ORDER_REF_CHARACTERS == the documented set, STRATEGY_NAME_HASH_LENGTH + 1 + 18 <= 32.
2. BOUNDED (native stand-in, DESIGN 2.3 - labelled bounded, never counted as proof): on the real classes
   a. BetfairOrder.is_valid_customer_order_ref_character(c) == (len(c) == 1 and c in documented set) for every single code point
      U+0000..U+FFFF, a sample of astral code points and strings of length 0 and 2 (exhaustive over the BMP);
   b. reference round trip through the real parsers: for 4 strategy names (default, empty, unicode, 5000 characters) x every
      permitted separator (70): a real BetfairOrder is created, its customer_order_ref is checked (<= 32 characters, permitted
      characters only), fed back as a cleared order to the real Blotter.process_cleared_orders of a blotter holding all orders,
      and through order.process.create_order_from_current's two slices; each must come back to its own order / strategy hash.
   A concrete failing input is reported as a violation with the input; these checks also cover code the VC generator cannot
   reach (a regular expression, str.partition, a helper without contract).
"""
import json
import subprocess

DOCUMENTED = "-._+*:;~" "abcdefghijklmnopqrstuvwxyz" "ABCDEFGHIJKLMNOPQRSTUVWXYZ" "0123456789"

NATIVE = r'''
import sys, json
sys.path.insert(0, %(root)r)
import flumine
assert flumine.__file__.startswith(%(root)r), flumine.__file__
from unittest import mock
from flumine.order import order as O
from flumine.order.trade import Trade
from flumine.order.ordertype import LimitOrder
from flumine.strategy.strategy import BaseStrategy
from flumine.markets.blotter import Blotter
from flumine import utils
DOC = set(%(doc)r)
out = dict(ground=[], violations=[], evaluations=0)
const = set(O.VALID_BETFAIR_CUSTOMER_ORDER_REF_CHARACTERS)
out["ground"].append(dict(name="VALID_BETFAIR_CUSTOMER_ORDER_REF_CHARACTERS == documented set", ok=(const == DOC), detail=sorted(const ^ DOC)[:10]))
out["ground"].append(dict(name="STRATEGY_NAME_HASH_LENGTH + 1 + 18 <= 32", ok=(utils.STRATEGY_NAME_HASH_LENGTH + 1 + 18 <= 32), detail=utils.STRATEGY_NAME_HASH_LENGTH))
# 2a separator validation, exhaustive over the BMP
f = O.BetfairOrder.is_valid_customer_order_ref_character
cands = [chr(i) for i in range(0x10000) if not 0xD800 <= i <= 0xDFFF] + [chr(i) for i in (0x10000, 0x1D7D8, 0x1F600, 0x2F800)] + ["", "--", "ab", "a-", "éé"]
bad = []
for c in cands:
    out["evaluations"] += 1
    try:
        got = bool(f(c))
    except Exception as e:
        got = "raised %%r" %% (e,)
    want = (len(c) == 1 and c in DOC)
    if got != want:
        bad.append((c, got, want))
if bad:
    c, got, want = bad[0]
    out["violations"].append(dict(obligation="bounded:is_valid_customer_order_ref_character", input=dict(c=c, codepoint="U+%%04X" %% ord(c[0]) if c else "empty"),
                                  observed=got, expected=want, count=len(bad)))
# 2b round trip through the real parsers
class S(BaseStrategy):
    pass
names = [None, "", "strätegy-東", "x" * 5000]
bl = Blotter("1.100")
orders = []
for nm in names:
    st = S(market_filter={}, name=nm)
    for sep in sorted(DOC):
        tr = Trade("1.100", 123, 0, st)
        o = tr.create_order("BACK", LimitOrder(2.0, 2.0), sep=sep)
        bl[o.id] = o
        orders.append((st, sep, o))
probs = []
for st, sep, o in orders:
    out["evaluations"] += 1
    ref = o.customer_order_ref
    if len(ref) > 32 or not set(ref) <= DOC:
        probs.append(("reference not acceptable to the exchange", repr(st.name)[:30], sep, ref))
refs = [o.customer_order_ref for _, _, o in orders]
if len(set(refs)) != len(refs):
    probs.append(("references not unique", "", "", ""))
cleared = mock.Mock()
cleared.orders = [mock.Mock(customer_order_ref=o.customer_order_ref, tag=o.id) for _, _, o in orders]
bl.process_cleared_orders(cleared)
for st, sep, o in orders:
    out["evaluations"] += 1
    co = o.cleared_order
    if co is None or co.tag != o.id:
        probs.append(("cleared order not attributed to the order that produced the reference", repr(st.name)[:30], sep, o.customer_order_ref))
    ref = o.customer_order_ref
    h, i = ref[: utils.STRATEGY_NAME_HASH_LENGTH], ref[utils.STRATEGY_NAME_HASH_LENGTH + 1 :]
    if h != st.name_hash or i != o.id:
        probs.append(("fixed-length split does not recover (hash, id)", repr(st.name)[:30], sep, ref))
# the three parsers of the tree under check, exercised through the smallest real entry points
from flumine.order import process as P
for st, sep, o in orders:
    out["evaluations"] += 1
    cur = mock.Mock(customer_order_ref=o.customer_order_ref, market_id="1.100", bet_id="b", selection_id=123, handicap=0)
    seen = {}
    strategies = mock.Mock()
    strategies.hashes = {st.name_hash: st}
    markets = mock.Mock()
    mk = mock.Mock(market_id="1.100")
    markets.markets = {"1.100": mk}
    def fake_create(self, client, current_order, order_id, _seen=seen):
        _seen["order_id"] = order_id
        _seen["strategy"] = self.strategy
        return mock.Mock(id=order_id, lookup=("1.100", 123, 0))
    with mock.patch.object(Trade, "create_order_from_current", fake_create):
        try:
            P.create_order_from_current(markets, strategies, cur, mock.Mock(), mock.Mock())
        except Exception as e:
            seen["error"] = repr(e)
    if seen.get("order_id") != o.id or seen.get("strategy") is not st:
        probs.append(("create_order_from_current does not recover (strategy, id)", repr(st.name)[:30], sep, o.customer_order_ref + " -> " + repr(seen.get("order_id", seen.get("error")))))
# 2c distinct strategies have distinct reference prefixes (names that differ only in non-ASCII characters included):
#    otherwise a reference is attributed to another strategy by the hash registry of a second instance
uni = ["scalper-\u00e9", "scalper-\u00fc", "\u7b56\u7565\u4e00", "\u7b56\u7565\u4e8c", "scalper-", "", "a", "b", "A", "x" * 5000, "x" * 4999 + "y", "na\u00efve", "naive"]
hs = {}
for nm in uni:
    out["evaluations"] += 1
    st = S(market_filter={}, name=nm)
    if st.name_hash in hs and hs[st.name_hash] != nm:
        probs.append(("two different strategy names share one reference prefix (hash): orders of one are attributed to the other", repr(nm)[:30] + " / " + repr(hs[st.name_hash])[:30], "", st.name_hash))
    hs[st.name_hash] = nm
# 2c' the hash registry of a framework follows its strategies: a strategy registered AFTER the registry was first consulted (orders
#     of an unknown strategy seen earlier, then the strategy is added) is found under its prefix
from flumine.strategy.strategy import Strategies
reg = Strategies()
first = S(market_filter={}, name="early")
reg(first, mock.Mock(), mock.Mock())
_ = reg.hashes.get("unknown-prefix")
late = S(market_filter={}, name="late")
reg(late, mock.Mock(), mock.Mock())
out["evaluations"] += 1
if reg.hashes.get(late.name_hash) is not late or reg.hashes.get(first.name_hash) is not first:
    probs.append(("a strategy added after the hash registry was first consulted is not found under its reference prefix", "late", "", late.name_hash))
# 2d the separator configured at run time (flumine.config.order_sep): an order created without an explicit separator is either
#    rejected or carries an acceptable, splittable reference
from flumine import config as CFG
saved_sep = CFG.order_sep
try:
    for cfg_sep in ["@", " ", "/", "\u00e9", "--", "ab", "", "_", ":"]:
        out["evaluations"] += 1
        CFG.order_sep = cfg_sep
        st = S(market_filter={}, name="cfg")
        tr = Trade("1.100", 123, 0, st)
        try:
            o = tr.create_order("BACK", LimitOrder(2.0, 2.0))
            ref = o.customer_order_ref
        except Exception:
            continue  # rejected: allowed
        h, i = ref[: utils.STRATEGY_NAME_HASH_LENGTH], ref[utils.STRATEGY_NAME_HASH_LENGTH + 1 :]
        if len(ref) > 32 or not set(ref) <= DOC or h != st.name_hash or i != o.id:
            probs.append(("order created with run-time config.order_sep=%%r carries an unacceptable / unsplittable reference" %% (cfg_sep,), "cfg", cfg_sep, ref))
finally:
    CFG.order_sep = saved_sep
if probs:
    what, nm, sep, ref = probs[0]
    out["violations"].append(dict(obligation="bounded:reference_round_trip", input=dict(strategy_name=nm, sep=sep, reference=ref), observed=what, count=len(probs)))
print(json.dumps(out))
'''


def run(repo=None, spec=None, ground=None, repo_root="/repo"):
    res = dict(obligations=0, discharged=0, violations=[], samples=[], assumptions=[], ground=[])
    code = NATIVE % dict(root=repo_root, doc=DOCUMENTED)
    try:
        p = subprocess.run(["/venv/bin/python", "-c", code], capture_output=True, text=True, timeout=300, cwd=repo_root)
        line = [l for l in p.stdout.strip().splitlines() if l.startswith("{")]
        out = json.loads(line[-1]) if line else None
    except Exception as e:  # noqa
        out = None
        p = None
    if out is None:
        res["ground"].append(dict(name="native C19 checks", ok=False, detail="could not run: %s" % ((p.stderr[-400:] if p is not None else "exception"),)))
        res["obligations"] += 1
        res["violations"].append(dict(obligation="extra:c19_native_checks_did_not_run", native=dict(confirmed=False), detail=(p.stderr[-800:] if p is not None else "")))
        return res
    for g in out["ground"]:
        res["obligations"] += 1
        res["ground"].append(g)
        if g["ok"]:
            res["discharged"] += 1
        else:
            res["violations"].append(dict(obligation="ground:" + g["name"], native=dict(confirmed=True), detail=g["detail"]))
    for v in out["violations"]:
        res["violations"].append(dict(obligation=v["obligation"], native=dict(confirmed=True, input=v.get("input")), detail=v))
    res["assumptions"].append("BOUNDED (not proof): native stand-in of C19 evaluated %d cases on the real classes of the tree under check "
                              "(separator validation exhaustively over U+0000..U+FFFF; reference round trip for 4 strategy names x 70 separators)" % out["evaluations"])
    res["samples"].append(dict(obligation="bounded:c19_native", evaluations=out["evaluations"], violations=len(out["violations"])))
    return res
