"""dict objects on the heap (MapOf).

A dict object d (an Int reference) has, per (key sort, value sort):
  dom  : K -> Bool        membership
  val  : K -> V           value (meaningful where dom holds)
  keys : ref of a heap List[K] giving the insertion order (python dicts are insertion ordered)
Well-formedness assumed of every dict of the pre-state and re-established by the operations here:
  the keys list has no duplicates and holds exactly the members of dom.
defaultdict(list): declared as MapOf(K, ListOf(T)) with .default = True in the schema (MapOfDefault).
"""
import z3

from .values import *  # noqa
from . import builtins_model as bm


def _E():
    from . import engine as E

    return E


class MapOfDefault(MapOf):
    """defaultdict(list) / defaultdict(dict)"""

    def __init__(self, key, val):
        MapOf.__init__(self, key, val)
        self.default = True


def ksorts(ms):
    return z3sorts(ms.key)


def _hkey(ms, what, i=0):
    return ("$Map", ms.key.name, ms.val.name, what, i)


def _arr(eng, ms, what, i, rng, heap=None):
    heap = eng.path.heap if heap is None else heap
    k = _hkey(ms, what, i)
    if k not in heap:
        heap[k] = z3.Array("H0_Map_%s_%s_%s_%d" % (ms.key.name, ms.val.name, what, i), z3.IntSort(), rng)
    return heap[k]


def dom_arr(eng, mv):
    ms = mv.sort
    rng = z3.ArraySort(*(ksorts(ms) + [z3.BoolSort()]))
    return z3.Select(_arr(eng, ms, "dom", 0, rng), zr(mv.t))


def val_arrs(eng, mv):
    ms = mv.sort
    out = []
    for i, zs in enumerate(z3sorts(ms.val)):
        rng = z3.ArraySort(*(ksorts(ms) + [zs]))
        out.append(z3.Select(_arr(eng, ms, "val", i, rng), zr(mv.t)))
    return out


def keys_ref(eng, mv):
    ms = mv.sort
    r = z3.Select(_arr(eng, ms, "keys", 0, z3.IntSort()), zr(mv.t))
    p = eng.path
    if p is not None and not has_bvar(r):
        # a dict owns its insertion-order key list: two different dict objects never share it (python dicts do not share storage)
        done = p.ghost.setdefault("keys_owner", {})
        hit = done.get(r.get_id())
        if hit is None or not hit.eq(r):
            done[r.get_id()] = r
            KO = z3.Function("KEYS_OWNER", z3.IntSort(), z3.IntSort())
            KS = z3.Function("KEYS_OWNER_SORT", z3.IntSort(), z3.IntSort())
            p.assume(z3.And(KO(r) == zr(mv.t), KS(r) == ATOMS.code("mapsort:" + ms.name)), check=False)
    return SV(ListOf(ms.key), r)


def _set(eng, mv, what, i, value):
    ms = mv.sort
    k = _hkey(ms, what, i)
    eng.path.heap[k] = z3.Store(eng.path.heap[k], zr(mv.t), value)


def kterms(eng, ms, key):
    return flatten(bm.coerce(eng, key, ms.key), ms.key)


def map_wf(eng, mv, full=True):
    """well-formedness facts of a dict (assumed for dicts read from the heap); full=False: only what iteration needs
    (the keys list holds members of the dict, without duplicates) - the converse (every member is in the keys list) is a
    forall over all key values with an inverse function, on which model finding (a counter-model for a failing goal) gives up"""
    ms = mv.sort
    kl = keys_ref(eng, mv)
    n = eng.list_len(kl.t, ms.key)
    d = dom_arr(eng, mv)
    i = bvar("wi")
    j = bvar("wj")
    ki = flatten(eng.list_get(kl.t, ms.key, i, heap=eng.path.heap), ms.key)
    kj = flatten(eng.list_get(kl.t, ms.key, j, heap=eng.path.heap), ms.key)
    same = z3.And(*[a == b for a, b in zip(ki, kj)])
    kv = [bvar("wk", s) for s in ksorts(ms)]
    pos = z3.Function(fresh_name("kpos"), *(ksorts(ms) + [z3.IntSort()]))
    kp = flatten(eng.list_get(kl.t, ms.key, pos(*kv), heap=eng.path.heap), ms.key)
    parts = [
        n >= 0,
        z3.ForAll([i], z3.Implies(z3.And(0 <= i, i < n), z3.Select(d, *ki))),
        z3.ForAll([i, j], z3.Implies(z3.And(0 <= i, i < j, j < n), z3.Not(same))),
    ]
    if full:
        parts.append(z3.ForAll(kv, z3.Implies(z3.Select(d, *kv), z3.And(0 <= pos(*kv), pos(*kv) < n, *[a == b for a, b in zip(kp, kv)]))))
    return z3.And(*parts)


def assume_wf_once(eng, mv, full=True):
    p = eng.path
    done = p.ghost.setdefault("map_wf", set())
    def tid(x):
        return x.get_id() if x is not None else None

    # keyed by the z3 terms (hash-consed), not by the python wrappers: the same dict in the same heap state is assumed well-formed once
    key = (mv.sort.name, zr(mv.t).get_id(), tid(p.heap.get(_hkey(mv.sort, "dom", 0))), tid(p.heap.get(_hkey(mv.sort, "keys", 0))))
    if key + (True,) in done or key + (full,) in done:
        return
    done.add(key + (full,))
    p.assume(map_wf(eng, mv, full), check=False)


def map_size(eng, mv):
    kl = keys_ref(eng, mv)
    return eng.list_len(kl.t, mv.sort.key)


def map_new(eng, sort, items=()):
    r = eng.new_ref()
    mv = SV(sort, r)
    ms = sort
    ks = ksorts(ms)
    # touch arrays
    dom_arr(eng, mv)
    val_arrs(eng, mv)
    kl0 = keys_ref(eng, mv)
    empty = z3.K(ks[0], z3.BoolVal(False)) if len(ks) == 1 else z3.Lambda([bvar("mk", s) for s in ks], z3.BoolVal(False))
    _set(eng, mv, "dom", 0, empty)
    kl = eng.list_new(ms.key, [])
    _set(eng, mv, "keys", 0, zr(kl.t))
    for k, v in items:
        map_setitem(eng, mv, k, v, None)
    return mv


def map_contains(eng, mv, key):
    if isinstance(key, SV) and isinstance(key.sort, Opt):
        # None is never a key of the maps modelled here unless the key sort is optional
        if not isinstance(mv.sort.key, Opt):
            isn, inner = key.t
            return bm.and_(bm.not_(isn), z3.Select(dom_arr(eng, mv), *kterms(eng, mv.sort, inner)))
    if isinstance(key, SV) and key.sort == NONE and not isinstance(mv.sort.key, Opt):
        return False
    return z3.Select(dom_arr(eng, mv), *kterms(eng, mv.sort, key))


def map_value(eng, mv, kt):
    comps = [z3.Select(a, *kt) for a in val_arrs(eng, mv)]
    v = unflatten(mv.sort.val, comps)
    eng.wf_assume(v)
    return v


def map_getitem(eng, mv, key, line):
    E = _E()
    ms = mv.sort
    kt = kterms(eng, ms, key)
    if eng.spec_mode:
        return map_value(eng, mv, kt)
    present = z3.Select(dom_arr(eng, mv), *kt)
    if eng.branch(present, "haskey"):
        return map_value(eng, mv, kt)
    if getattr(ms, "default", False):
        # defaultdict(list) / defaultdict(dict): a missing key is inserted with a fresh empty container
        v = eng.list_new(ms.val.elem, []) if isinstance(ms.val, ListOf) else map_new(eng, ms.val, [])
        map_insert(eng, mv, kt, v)
        return v
    raise E.PyRaise("KeyError", None, line)


def map_insert(eng, mv, kt, value):
    """insert a key known to be absent"""
    ms = mv.sort
    d = dom_arr(eng, mv)
    _set(eng, mv, "dom", 0, z3.Store(d, *(kt + [z3.BoolVal(True)])))
    comps = flatten(bm.coerce(eng, value, ms.val), ms.val)
    for i, (a, c) in enumerate(zip(val_arrs(eng, mv), comps)):
        _set(eng, mv, "val", i, z3.Store(a, *(kt + [c])))
    kl = keys_ref(eng, mv)
    eng.list_append(kl, unflatten(ms.key, kt))


def map_setitem(eng, mv, key, value, line):
    ms = mv.sort
    kt = kterms(eng, ms, key)
    present = z3.Select(dom_arr(eng, mv), *kt)
    if eng.branch(present, "setkey"):
        comps = flatten(bm.coerce(eng, value, ms.val), ms.val)
        for i, (a, c) in enumerate(zip(val_arrs(eng, mv), comps)):
            _set(eng, mv, "val", i, z3.Store(a, *(kt + [c])))
        return
    map_insert(eng, mv, kt, value)


def map_delitem(eng, mv, key, line):
    E = _E()
    ms = mv.sort
    kt = kterms(eng, ms, key)
    present = z3.Select(dom_arr(eng, mv), *kt)
    if not eng.branch(present, "delkey"):
        raise E.PyRaise("KeyError", None, line)
    assume_wf_once(eng, mv)
    d = dom_arr(eng, mv)
    kl = keys_ref(eng, mv)
    from . import builtins3 as b3

    b3.list_remove(eng, kl, unflatten(ms.key, kt), line)
    _set(eng, mv, "dom", 0, z3.Store(d, *(kt + [z3.BoolVal(False)])))


def map_havoc(eng, mv, prefix):
    ms = mv.sort
    ks = ksorts(ms)
    dom_arr(eng, mv)
    val_arrs(eng, mv)
    keys_ref(eng, mv)
    _set(eng, mv, "dom", 0, z3.Const(fresh_name(prefix + "_dom"), z3.ArraySort(*(ks + [z3.BoolSort()]))))
    for i, zs in enumerate(z3sorts(ms.val)):
        _set(eng, mv, "val", i, z3.Const(fresh_name(prefix + "_val"), z3.ArraySort(*(ks + [zs]))))
    kl = eng.list_new(ms.key, [])
    n = z3.Int(fresh_name(prefix + "_n"))
    arrs = [z3.Const(fresh_name(prefix + "_keys"), z3.ArraySort(z3.IntSort(), zs)) for zs in ks]
    eng.list_set_all(kl.t, ms.key, n, arrs)
    _set(eng, mv, "keys", 0, zr(kl.t))
    eng.path.ghost.setdefault("map_wf", set())
    eng.path.assume(map_wf(eng, mv), check=False)


def maps_havoc_all(eng, prefix):
    for k in list(eng.path.heap):
        if k[0] == "$Map":
            arr = eng.path.heap[k]
            eng.path.heap[k] = z3.Const(fresh_name(prefix + "_map"), arr.sort())


def map_method(eng, mv, name, args, kwargs, line):
    E = _E()
    ms = mv.sort
    if name == "get":
        kt = kterms(eng, ms, args[0])
        present = z3.Select(dom_arr(eng, mv), *kt)
        if eng.spec_mode:
            dflt = args[1] if len(args) > 1 else NONE_V
            return bm.ite(eng, present, map_value(eng, mv, kt), dflt)
        if eng.branch(present, "get"):
            return map_value(eng, mv, kt)
        return args[1] if len(args) > 1 else NONE_V
    if name in ("items", "keys", "values"):
        return PyVal("mapview", of=mv, what=name)
    if name == "copy":
        r = eng.new_ref()
        nv = SV(ms, r)
        d = dom_arr(eng, mv)
        vs = val_arrs(eng, mv)
        kl = keys_ref(eng, mv)
        dom_arr(eng, nv)
        val_arrs(eng, nv)
        keys_ref(eng, nv)
        _set(eng, nv, "dom", 0, d)
        for i, a in enumerate(vs):
            _set(eng, nv, "val", i, a)
        from . import builtins3 as b3

        _set(eng, nv, "keys", 0, zr(b3.list_copy(eng, kl).t))
        return nv
    if name == "clear":
        ks = ksorts(ms)
        dom_arr(eng, mv)
        empty = z3.K(ks[0], z3.BoolVal(False)) if len(ks) == 1 else z3.Lambda([bvar("mk", s) for s in ks], z3.BoolVal(False))
        _set(eng, mv, "dom", 0, empty)
        keys_ref(eng, mv)
        _set(eng, mv, "keys", 0, zr(eng.list_new(ms.key, []).t))
        return NONE_V
    if name == "pop":
        kt = kterms(eng, ms, args[0])
        present = z3.Select(dom_arr(eng, mv), *kt)
        if eng.branch(present, "pop"):
            v = map_value(eng, mv, kt)
            map_delitem(eng, mv, args[0], line)
            return v
        if len(args) > 1:
            return args[1]
        raise E.PyRaise("KeyError", None, line)
    raise EngineLimit("dict method %s" % name)


class MapViewSource:
    """iteration over d.items() / d.keys() / d.values() / d in insertion order"""

    def __init__(self, eng, view):
        self.eng = eng
        self.mv = view.of
        self.what = view.what
        # no well-formedness fact is assumed for iteration (a contract that needs "the keys are pairwise distinct" states it
        # as a requires over list(d.keys())): quantified facts in every VC cost counter-models for failing goals
        self.kl = keys_ref(eng, self.mv)
        self.ks = self.mv.sort.key
        self.n0 = eng.list_len(self.kl.t, self.ks)
        self.items0 = eng.list_items(self.kl.t, self.ks)

    def length(self):
        return self.n0

    def key_at(self, i):
        return unflatten(self.ks, [z3.Select(a, i) for a in self.items0])

    def element(self, i):
        k = self.key_at(i)
        self.eng.wf_assume(k)
        if self.what == "keys":
            return k
        v = map_value(self.eng, self.mv, flatten(k, self.ks))
        if self.what == "values":
            return v
        return bm.make_tuple([k, v])

    def protect(self, ws):
        pass

    def check_unchanged(self, n, line):
        eng = self.eng
        cur = eng.list_len(keys_ref(eng, self.mv).t, self.ks)
        eng.oblige("%s/dict-not-resized-during-iteration@%d" % (eng.cur_short, line), cur == self.n0, "safety", line)


def view_to_list(eng, view):
    mv = view.of
    ms = mv.sort
    kl = keys_ref(eng, mv)
    from . import builtins3 as b3

    if view.what == "keys":
        return b3.list_copy(eng, kl)
    n = eng.list_len(kl.t, ms.key)
    i = bvar("vl")
    kt = flatten(eng.list_get(kl.t, ms.key, i), ms.key)
    if view.what == "values":
        arrs = [z3.Lambda([i], z3.Select(a, *kt)) for a in val_arrs(eng, mv)]
        r = eng.new_ref()
        eng.list_set_all(r, ms.val, n, arrs)
        return SV(ListOf(ms.val), r)
    raise EngineLimit("list(d.items())")


def map_comprehension(eng, node, g, view, fr, kind):
    # [f(k, v) for k, v in d.items()] : go through the list of keys
    raise EngineLimit("comprehension over a dict view")


def dict_comprehension(eng, node, fr):
    raise EngineLimit("dict comprehension (line %s): give the enclosing function a contract-level model" % node.lineno)
