"""Discharge obligations: z3 (python API) on a process pool, cvc5 / z3-4.8 CLI for what it leaves unknown."""
import multiprocessing as mp
import os
import subprocess
import tempfile
import time

import z3


def _is_read_def(a):
    return z3.is_eq(a) and z3.is_const(a.arg(0)) and a.arg(0).decl().name().startswith("rd!")


def to_smt2(ob, order=0):
    """order 0: purification definitions (rd!k == select ..) AFTER the arithmetic facts and the goal - z3 5.1 and
    cvc5 leave integrality goals undecided when the definitions come first (measured; see DESIGN section 9);
    order 1: as generated; order 2: reversed"""
    s = z3.Solver()
    facts = list(ob.pc) + list(ob.extra.get("axioms", []))
    goal = z3.Not(ob.goal)
    if order == 0:
        defs = [a for a in facts if _is_read_def(a)]
        rest = [a for a in facts if not _is_read_def(a)]
        seq = rest + [goal] + defs
    elif order == 1:
        seq = facts + [goal]
    else:
        seq = [goal] + facts[::-1]
    for a in seq:
        s.add(a)
    return s.to_smt2()


def _work(job):
    name, smt, timeout_ms, want_model = job
    t0 = time.time()
    try:
        s = z3.Solver()
        s.set("timeout", timeout_ms)
        s.from_string(smt)
        r = s.check()
        verdict = str(r)
        model = None
        if r == z3.sat and want_model:
            m = s.model()
            model = {}
            for d in m.decls():
                if d.arity() == 0:
                    v = m[d]
                    if z3.is_array(v):
                        continue
                    model[d.name()] = str(v)
            # arrays of the initial heap, evaluated lazily by the replay builder through 'eval' requests
            model["__full__"] = str(m)[:20000]
        reason = s.reason_unknown() if r == z3.unknown else ""
        return dict(name=name, verdict=verdict, solver="z3-%s" % z3.get_version_string(), time=time.time() - t0, model=model, reason=reason)
    except Exception as e:  # noqa
        return dict(name=name, verdict="error", solver="z3", time=time.time() - t0, model=None, reason=repr(e))


def cli_fallback(smt, timeout_s):
    """try cvc5 then /usr/bin/z3 on the SMT-LIB text; returns (verdict, solver)"""
    with tempfile.NamedTemporaryFile("w", suffix=".smt2", delete=False, dir=os.environ.get("PYVC_TMP", None)) as f:
        f.write("(set-logic ALL)\n" + smt + "\n")
        path = f.name
    try:
        for cmd, nm in (
            (["/usr/bin/cvc5", "--tlimit=%d" % int(timeout_s * 1000), path], "cvc5-1.0.3"),
            (["/usr/bin/z3", "-T:%d" % int(timeout_s), path], "z3-4.8.12"),
        ):
            try:
                out = subprocess.run(cmd, capture_output=True, text=True, timeout=timeout_s + 5).stdout.strip().splitlines()
            except Exception:
                continue
            if out and out[0] in ("sat", "unsat"):
                return out[0], nm
        return "unknown", None
    finally:
        os.unlink(path)


def _discharge_base(obls, timeout_ms=20000, jobs=None, fallback=True):
    jobs = jobs or int(os.environ.get("PYVC_JOBS", min(16, os.cpu_count() or 4)))
    work = []
    first = {}  # identical VCs (same text: e.g. the establishment of a loop invariant reached along many paths) are solved once
    dup_of = {}
    for i, ob in enumerate(obls):
        # a known-region instance only decides whether KNOWN-FINDING is printed: short budget, no second chances
        to = min(timeout_ms, 3000) if ob.kind == "canary" else (min(timeout_ms, 6000) if ob.kind == "known-region" else timeout_ms)
        job = ("%d" % i, to_smt2(ob), to, ob.kind != "canary")
        key = (job[1], to, job[3])
        if key in first:
            dup_of[i] = first[key]
        else:
            first[key] = i
        work.append(job)
    if not work:
        return []
    ctx = mp.get_context("fork")
    todo = [w for i, w in enumerate(work) if i not in dup_of]
    with ctx.Pool(jobs) as pool:
        res_todo = pool.map(_work, todo, chunksize=1)
    by_i = {int(w[0]): r for w, r in zip(todo, res_todo)}
    results = [dict(by_i[dup_of.get(i, i)]) for i in range(len(work))]
    # second chance for what stayed unknown: other assertion orders (solver heuristics are order sensitive)
    retry = [(i, ob) for i, (ob, r) in enumerate(zip(obls, results)) if r["verdict"] in ("unknown", "error") and ob.kind not in ("canary", "known-region") and i not in dup_of]
    if retry:
        jobs2 = []
        for i, ob in retry:
            for order in (1, 2):
                jobs2.append(("%d/%d" % (i, order), to_smt2(ob, order), timeout_ms, True))
        with ctx.Pool(jobs) as pool:
            res2 = pool.map(_work, jobs2, chunksize=1)
        for (i, ob), k in zip(retry, range(0, len(res2), 2)):
            for r2 in res2[k : k + 2]:
                if r2["verdict"] in ("sat", "unsat"):
                    r2["solver"] += " (reordered)"
                    results[i] = r2
                    break
    for i, j in dup_of.items():
        results[i] = dict(results[j])
    out = []
    for i, (ob, job, r) in enumerate(zip(obls, work, results)):
        if i in dup_of:
            r = {k: v for k, v in out[dup_of[i]].items() if k != "obligation"}
        elif r["verdict"] in ("unknown", "error") and fallback and ob.kind not in ("canary", "known-region"):
            v, nm = cli_fallback(job[1], timeout_ms / 1000.0)
            if v in ("sat", "unsat"):
                r = dict(r, verdict=v, solver=nm)
        r["obligation"] = ob
        out.append(r)
    return out


def discharge(obls, timeout_ms=20000, jobs=None, fallback=True):
    """all stages of _discharge_base, then the seed/order portfolio (pyvc/portfolio.py) on what is still unknown"""
    from . import portfolio

    out = _discharge_base(obls, timeout_ms, jobs, fallback)
    return portfolio.rescue(out, to_smt2, timeout_ms, jobs) if fallback else out
