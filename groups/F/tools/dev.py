"""developer tool (path relative): verify one contract, print per-obligation verdicts / timings, dump the undecided ones
usage: python3-vt tools/dev.py <qual-substring> [obligation-substring]   env: REPO, TO (ms), MAXP, DUMP=1, GENONLY=1, PROP (known findings of that property)
"""
import sys, time, os, json
HERE = os.path.dirname(os.path.dirname(os.path.abspath(__file__)))
sys.path.insert(0, HERE)
from pyvc.repo import Repo; from pyvc.engine import Engine; from pyvc.contracts import Spec, verify_function; from pyvc import solve
repo = Repo(os.environ.get('REPO', '/repo')); spec = Spec(); spec.load_dir(os.path.join(HERE, 'contracts'), {'PRICES': [1], 'BETDAQ_PRICES': [1]})
eng = Engine(repo, spec)
prop = os.environ.get('PROP')
if prop:
    known = json.load(open(os.path.join(HERE, 'known_findings.json')))
    eng.known_regions = {f["obligation"]: f for f in known.get("findings", []) if f["property"] == prop and f.get("region")}
quals = [q for q in spec.contracts if sys.argv[1] in q]
assert len(quals) == 1, quals
c = spec.contracts[quals[0]]
t = time.time()
r = verify_function(eng, c, max_paths=int(os.environ.get('MAXP', '3000')))
print(r.status, r.limit, 'paths', r.paths, 'obligations', len(r.obligations), 'gen %.1fs' % (time.time() - t), flush=True)
if os.environ.get('GENONLY'):
    names = {}
    for o in r.obligations:
        names[o.name] = names.get(o.name, 0) + 1
    for n, k in sorted(names.items()):
        print(' ', k, n)
    sys.exit(0)
sub = sys.argv[2] if len(sys.argv) > 2 else ''
obs = [o for o in r.obligations if sub in o.name]
t = time.time()
res = solve.discharge(obs, int(os.environ.get('TO', '10000')), fallback=bool(os.environ.get('FALLBACK')))
print('solve %.1fs' % (time.time() - t))
agg = {}
for x in res:
    ob = x['obligation']
    a = agg.setdefault(ob.name, dict(kind=ob.kind, v={}, t=0.0, bad=[]))
    a['v'][x['verdict']] = a['v'].get(x['verdict'], 0) + 1
    a['t'] = max(a['t'], x['time'])
    if (ob.kind == 'canary') != (x['verdict'] != 'unsat') and ob.kind != 'known-region':
        a['bad'].append(x)
n = 0
for name, a in sorted(agg.items()):
    flag = 'ok ' if not a['bad'] else 'BAD'
    print(flag, name, a['kind'], a['v'], 'max %.2fs' % a['t'])
    for x in a['bad'][:2]:
        ob = x['obligation']
        print('     path', ob.path, x['verdict'], x.get('reason'), ob.extra.get('labels', [])[-8:])
        if x['verdict'] == 'sat' and os.environ.get('MODEL'):
            print('     model', {k: v for k, v in (x.get('model') or {}).items() if k.startswith('arg_')})
        if os.environ.get('DUMP'):
            p = '/tmp/dumpF_%d.smt2' % n; n += 1
            open(p, 'w').write("(set-logic ALL)\n" + solve.to_smt2(ob)); print('     dumped', p)
