"""C11 (shared with C13/C14 where the simulation calls them) - order / trade status setters and the runner context.

These are the leaf mutators that process_current_order / create_order_from_current / FlumineSimulation._process_simulated_orders
call.  Contracts follow the code's intent as stated by C03/C10 (status, completion flag, trade completion, runner context
reset); they are verified here against the real bodies.
"""

inline(
    "flumine/order/order.py::BaseOrder._is_complete",
)

schema("RunnerContext", selection_id=INT, invested=BOOL, datetime_last_placed=Opt(REAL), datetime_last_reset=Opt(REAL),
       trades=ListOf(ATOM), live_trades=ListOf(ATOM))
schema("BaseStrategy", _invested=MapOf(Tup(ATOM, INT, REAL), Ref("RunnerContext")), name_hash=ATOM)
schema("Responses", date_time_created=REAL, current_order=Opt(Ref("CurrentOrder")), place_response=Opt(Ref("PlaceResponse")), _date_time_placed=Opt(REAL))
# betfairlightweight resources (external, A7): one order of an order-stream snapshot / a place instruction report
schema("CurrentOrder", bet_id=ATOM, status=ATOM, market_id=ATOM, customer_order_ref=ATOM, customer_strategy_ref=Opt(ATOM), selection_id=INT, handicap=REAL,
       order_type=ATOM, side=ATOM, persistence_type=Opt(ATOM), price_size=Ref("PriceSize"), bsp_liability=Opt(REAL), average_price_matched=REAL,
       size_matched=REAL, size_remaining=REAL, size_cancelled=REAL, size_lapsed=REAL, size_voided=REAL,
       placed_date=REAL, matched_date=Opt(REAL), cancelled_date=Opt(REAL), lapsed_date=Opt(REAL))
schema("PlaceResponse", status=ATOM, order_status=Opt(ATOM), bet_id=Opt(ATOM), average_price_matched=Opt(REAL), size_matched=Opt(REAL))

# private containers (created in __init__, appended / removed in place, never handed out or replaced): see owned() in the guide notes
owned("BaseOrder.status_log", "Trade.status_log", "Trade.orders", "RunnerContext.trades", "RunnerContext.live_trades", "Blotter._live_orders")

T_LIVE = "TradeStatus.LIVE"
T_COMPLETE = "TradeStatus.COMPLETE"


def is_complete_status(st):
    return st == OrderStatus.EXECUTION_COMPLETE or st == OrderStatus.EXPIRED or st == OrderStatus.VIOLATION


def trade_all_complete(t):
    return t.status == TradeStatus.LIVE and not t.pending_orders and forall(lambda j: t.orders[j].complete, 0, len(t.orders))


@contract("flumine/order/trade.py::Trade.complete", tags=["C11", "C13", "C14"])
def _(self) -> BOOL:
    invariant(0, "all_complete_so_far", forall(lambda j: self.orders[j].complete, 0, _i0))
    ensures("live_no_pending_all_orders_complete", result == trade_all_complete(self))


@contract("flumine/strategy/runnercontext.py::RunnerContext.__init__", tags=["C11", "C13", "C14"], inline_at_calls=True)
def _(self, selection_id: INT):
    modifies(self, "selection_id")
    modifies(self, "invested")
    modifies(self, "datetime_last_placed")
    modifies(self, "datetime_last_reset")
    modifies(self, "trades")
    modifies(self, "live_trades")
    ensures("fresh_context", not self.invested and len(self.trades) == 0 and len(self.live_trades) == 0)


@contract("flumine/strategy/runnercontext.py::RunnerContext.reset", tags=["C11", "C13", "C14"], list_shift_axioms=True)
def _(self, trade_id: ATOM):
    modifies(self, "datetime_last_reset")
    modifies_list(self.live_trades)
    ensures("one_occurrence_removed", len(self.live_trades) == old(len(self.live_trades)) - (1 if old(trade_id in self.live_trades) else 0))
    ensures("not_live_any_more_if_it_was_listed_once",
            implies(old(forall_int(lambda a, b: implies(0 <= a and a < b and b < len(self.live_trades), self.live_trades[a] != self.live_trades[b]))),
                    not (trade_id in self.live_trades)))


@contract("flumine/strategy/runnercontext.py::RunnerContext.place", tags=["C11"])
def _(self, trade_id: ATOM):
    modifies(self, "invested")
    modifies(self, "datetime_last_placed")
    modifies_list(self.trades)
    modifies_list(self.live_trades)
    ensures("charged_a", self.invested)
    ensures("charged_b", trade_id in self.trades)
    ensures("charged_c", trade_id in self.live_trades)
    ensures("idempotent_per_trade", implies(self.trades is not self.live_trades,  # RunnerContext.__init__: two list objects
                                            len(self.trades) == old(len(self.trades)) + (0 if old(trade_id in self.trades) else 1)
                                            and len(self.live_trades) == old(len(self.live_trades)) + (0 if old(trade_id in self.live_trades) else 1)))


def rc_key(market_id, selection_id, handicap):
    return (market_id, selection_id, handicap)


@contract("flumine/strategy/strategy.py::BaseStrategy.get_runner_context", tags=["C11", "C13", "C14"])
def _(self, market_id: ATOM, selection_id: INT, handicap: REAL = 0) -> Ref("RunnerContext"):
    modifies_map(self._invested)
    ensures("the_context_of_the_runner", (market_id, selection_id, handicap) in self._invested and self._invested[(market_id, selection_id, handicap)] == result)
    ensures("existing_context_is_returned", implies(old((market_id, selection_id, handicap) in self._invested),
                                                    result == old(self._invested[(market_id, selection_id, handicap)])))
    ensures("new_context_is_empty", implies(not old((market_id, selection_id, handicap) in self._invested),
                                            not result.invested and len(result.trades) == 0 and len(result.live_trades) == 0))


# ----------------------------------------------------------------------------- trade status
def trade_rc(t):
    """the runner context of the trade's runner in its strategy (total map read: meaningful where the key is present)"""
    return t.strategy._invested[(t.market_id, t.selection_id, t.handicap)]


@contract("flumine/order/trade.py::Trade.complete_trade", tags=["C11", "C13", "C14"])
def _(self):
    requires("was_live", self.status == TradeStatus.LIVE)  # every caller checks trade.complete first (which implies status LIVE)
    modifies(self, "status")
    modifies(self, "date_time_complete")
    modifies_lists_of(ATOM)  # the trade's status log and the live-trade ids of its runner context (created on demand)
    modifies_map(self.strategy._invested)
    modifies_all("RunnerContext.datetime_last_reset")
    ensures("trade_completed", self.status == TradeStatus.COMPLETE and self.date_time_complete is not None)
    ensures("runner_context_exists", (self.market_id, self.selection_id, self.handicap) in self.strategy._invested)
    ensures("runner_context_kept", implies(old((self.market_id, self.selection_id, self.handicap) in self.strategy._invested),
                                           trade_rc(self) == old(trade_rc(self))))


@contract("flumine/order/trade.py::Trade._update_status", tags=["C11", "C13", "C14"])
def _(self, status: ATOM):
    requires("completing", status == TradeStatus.COMPLETE)  # the only value this tree ever passes from the paths under contract
    modifies(self, "status")
    modifies_lists_of(ATOM)
    ensures("status_set", self.status == status)


# ----------------------------------------------------------------------------- order status
ORDER_STATUS_FRAME = "status complete date_time_status_update"


def completes_trade(o, status):
    """_update_status completes the trade when this was its last open order"""
    return is_complete_status(status) and status != OrderStatus.VIOLATION and o.trade.status == TradeStatus.LIVE and not o.trade.pending_orders \
        and forall(lambda j: o.trade.orders[j].complete or o.trade.orders[j] == o, 0, len(o.trade.orders))


@contract("flumine/order/order.py::BaseOrder._update_status", tags=["C11", "C13", "C14"], inline_at_calls=True)
def _(self, status: ATOM):
    requires("a_status", status == OrderStatus.PENDING or status == OrderStatus.EXECUTABLE or status == OrderStatus.EXECUTION_COMPLETE
             or status == OrderStatus.CANCELLING or status == OrderStatus.UPDATING or status == OrderStatus.REPLACING
             or status == OrderStatus.EXPIRED or status == OrderStatus.VIOLATION)
    modifies(self, "status")
    modifies(self, "complete")
    modifies(self, "date_time_status_update")
    modifies(self.trade, "status")
    modifies(self.trade, "date_time_complete")
    modifies_lists_of(ATOM)  # status logs of the order and of its trade, live-trade ids of the runner context
    modifies_map(self.trade.strategy._invested)
    modifies_all("RunnerContext.datetime_last_reset")
    ensures("status_and_flag", self.status == status and self.complete == is_complete_status(status))
    ensures("trade_completes_with_its_last_order", implies(old(completes_trade(self, status)), self.trade.status == TradeStatus.COMPLETE))
    ensures("trade_otherwise_untouched", implies(not old(completes_trade(self, status)), self.trade.status == old(self.trade.status)))


def status_setter_frame_note():
    """(documentation only) every status setter below has the frame of _update_status plus what it names itself"""
    return True


@contract("flumine/order/order.py::BaseOrder.placing", tags=["C11"])
def _(self):
    modifies(self, "status")
    modifies(self, "complete")
    modifies(self, "date_time_status_update")
    modifies_list(self.status_log)
    ensures("pending", self.status == OrderStatus.PENDING and not self.complete)


@contract("flumine/order/order.py::BaseOrder.executable", tags=["C11"])
def _(self):
    modifies(self, "status")
    modifies(self, "complete")
    modifies(self, "date_time_status_update")
    modifies(self.update_data, "size_reduction")
    modifies(self.update_data, "new_price")
    modifies_list(self.status_log)
    ensures("executable", self.status == OrderStatus.EXECUTABLE and not self.complete)


@contract("flumine/order/order.py::BaseOrder.execution_complete", tags=["C11", "C13", "C14"])
def _(self):
    modifies(self, "status")
    modifies(self, "complete")
    modifies(self, "date_time_status_update")
    modifies(self, "date_time_execution_complete")
    modifies(self.update_data, "size_reduction")
    modifies(self.update_data, "new_price")
    modifies(self.trade, "status")
    modifies(self.trade, "date_time_complete")
    modifies_lists_of(ATOM)
    modifies_map(self.trade.strategy._invested)
    modifies_all("RunnerContext.datetime_last_reset")
    ensures("complete", self.status == OrderStatus.EXECUTION_COMPLETE and self.complete and self.date_time_execution_complete is not None)
    ensures("trade_completes_with_its_last_order", implies(old(completes_trade(self, OrderStatus.EXECUTION_COMPLETE)), self.trade.status == TradeStatus.COMPLETE))
    ensures("trade_otherwise_untouched", implies(not old(completes_trade(self, OrderStatus.EXECUTION_COMPLETE)), self.trade.status == old(self.trade.status)))
