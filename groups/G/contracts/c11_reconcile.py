"""C11 - order-stream reconciliation (flumine/order/process.py) at step granularity (A6: a step runs without interference).

Vocabulary.  c = one entry of an order-stream snapshot (CurrentOrder).  X-status of c: "EXECUTABLE", "EXECUTION_COMPLETE",
"EXPIRED" (and "PENDING" for an async placement the exchange has not finished).  A local order o is QUIESCENT when no request
of the framework is outstanding for it: status not in {CANCELLING, UPDATING, REPLACING} and not (PENDING without bet id on a
synchronous placement: the place response is still to come).
Inv11a (LC => XC, DESIGN C11): a local order that is complete and has a bet id is complete at the exchange; it is a REQUIRES of
the convergence clause (the latest snapshot equals the exchange's table) - it is the invariant that PLACE-retry exhaustion
breaks (finding P9, owned by C12's reset_orders).
"""

inline(
    "flumine/order/order.py::BaseOrder.update_current_order",
    "flumine/order/responses.py::Responses.placed",
    "flumine/markets/markets.py::Markets.get_order",
    "flumine/markets/markets.py::Markets.get_order_from_bet_id",
    "flumine/markets/blotter.py::Blotter.get_order_bet_id",
    "flumine/markets/blotter.py::Blotter.__getitem__",
)

# private members: a market owns its blotter, a blotter owns its dicts (created in the constructors, never shared or replaced)
owned("Market.blotter", "Blotter._orders", "Blotter._bet_id_lookup", "Blotter._trade_lookup", "Blotter._trades", "Blotter._strategy_orders",
      "Blotter._strategy_selection_orders", "Blotter._client_orders", "Blotter._client_strategy_orders")
schema("OrderEvent", event=Ref("BaseOrder"))
schema("LogControlFn", g_logged=INT)


@virtual("LogControlFn", "__call__", tags=["C11"])
def _(self, event: Ref("BaseEvent")):
    """the bound method BaseFlumine.log_control passed as a value: puts the event on the logging queues (no effect on order state)"""
    modifies(self, "g_logged")
    ensures("logged", self.g_logged == old(self.g_logged) + 1)


def x_complete(c):
    return c.status == "EXECUTION_COMPLETE" or c.status == "EXPIRED"


def quiescent(o):
    """no request outstanding: the status is one of the resting statuses and a PENDING order is not a synchronous placement still
    waiting for its place response"""
    return (o.status == OrderStatus.PENDING or o.status == OrderStatus.EXECUTABLE or o.status == OrderStatus.EXECUTION_COMPLETE
            or o.status == OrderStatus.EXPIRED or o.status == OrderStatus.VIOLATION) \
        and not (o.status == OrderStatus.PENDING and o.bet_id is None and not truthy_opt(o.async_))


def truthy_opt(b):
    return b is not None and b


def picks_up_bet_id(o, c):
    """async placement: the bet id arrives with the order stream"""
    return truthy_opt(o.async_) and o.bet_id is None and c.bet_id != ""


@contract("flumine/order/process.py::process_current_order", tags=["C11"])
def _(order: Ref("BaseOrder"), current_order: Ref("CurrentOrder"), log_control: Ref("LogControlFn")):
    requires("live_trading_order", not order._simulated)  # the order stream only exists in live trading; then order.current_order is the snapshot entry
    modifies(order.responses, "current_order")
    modifies(order.responses, "_date_time_placed")
    modifies(order, "bet_id")
    modifies(order, "status")
    modifies(order, "complete")
    modifies(order, "date_time_status_update")
    modifies(order, "date_time_execution_complete")
    modifies(order.update_data, "size_reduction")
    modifies(order.update_data, "new_price")
    modifies(order.trade, "status")
    modifies(order.trade, "date_time_complete")
    modifies(log_control, "g_logged")
    modifies_lists_of(ATOM)
    modifies_map(order.trade.strategy._invested)
    modifies_all("RunnerContext.datetime_last_reset")
    ensures("holds_the_exchange_view", order.responses.current_order == current_order)
    ensures("bet_id_picked_up_for_async_placement", order.bet_id == (current_order.bet_id if old(picks_up_bet_id(order, current_order)) else old(order.bet_id)))
    # status mapping (statement: "agrees with the exchange ... on whether it is complete"; stale snapshots cannot re-open)
    ensures("pending_becomes_executable", implies(old(order.status) == OrderStatus.PENDING and order.bet_id is not None and order.bet_id != "" and current_order.status == "EXECUTABLE",
                                                  order.status == OrderStatus.EXECUTABLE and not order.complete))
    ensures("pending_or_executable_completes", implies((old(order.status) == OrderStatus.EXECUTABLE or (old(order.status) == OrderStatus.PENDING and order.bet_id is not None and order.bet_id != ""))
                                                       and x_complete(current_order),
                                                       order.status == OrderStatus.EXECUTION_COMPLETE and order.complete))
    ensures("a_complete_order_is_never_reopened", implies(old(order.complete) and old(is_complete_status(order.status)), order.complete and order.status == old(order.status)))
    ensures("outstanding_request_is_left_alone", implies(old(order.status) == OrderStatus.CANCELLING or old(order.status) == OrderStatus.UPDATING or old(order.status) == OrderStatus.REPLACING,
                                                         order.status == old(order.status) and order.complete == old(order.complete)))
    ensures("flag_matches_status", implies(old(order.complete == is_complete_status(order.status)), order.complete == is_complete_status(order.status)))
    # convergence (one-step post-condition of DESIGN C11)
    ensures("converges_on_completeness", implies(old(quiescent(order)) and old(order.complete == is_complete_status(order.status))
                                                 and (current_order.status == "EXECUTABLE" or x_complete(current_order))
                                                 and order.bet_id is not None and order.bet_id != ""
                                                 and implies(old(order.complete), x_complete(current_order)),   # Inv11a
                                                 order.complete == x_complete(current_order)))
    ensures("trade_completes_with_its_last_order", implies(order.complete and not old(order.complete) and old(completes_trade(order, OrderStatus.EXECUTION_COMPLETE)),
                                                           order.trade.status == TradeStatus.COMPLETE))


# ----------------------------------------------------------------------------- adoption: building the local order
inline(
    "flumine/order/ordertype.py::LimitOrder.__init__",
    "flumine/order/ordertype.py::LimitOnCloseOrder.__init__",
    "flumine/order/ordertype.py::MarketOnCloseOrder.__init__",
    "flumine/simulation/simulatedorder.py::SimulatedOrder.__bool__",
)
schema("BaseOrderType", liability=Opt(REAL))
schema("Trade", notes=Ref("Object"))


@contract("flumine/order/order.py::BaseOrder.__init__", tags=["C11"], allocates=["status_log", "responses", "simulated", "update_data"])
def _(self, trade: Ref("Trade"), side: ATOM, order_type: Ref("BaseOrderType"), handicap: REAL = 0, sep: ATOM = "-", context: Opt(Ref("Object")) = None, notes: Opt(Ref("Object")) = None):
    """TRUSTED constructor summary (not verified: uuid1-based id is C19's subject, SimulatedOrder / Responses construction C04's).
    Every clause restates one assignment of the body; market_id is the property `self.trade.market_id`, which a_schema.py models as a
    field - the link is definitional."""
    trusted("constructor summary: 30 plain assignments, uuid1 id (C19), nested Responses / SimulatedOrder construction")
    modifies(self, "id")
    ensures("fields", self.trade == trade and self.side == side and self.order_type == order_type and self.handicap == handicap
            and self.selection_id == trade.selection_id and self.market_id == trade.market_id
            and self.lookup == (trade.market_id, trade.selection_id, handicap))
    ensures("blank_state", self.client is None and self.status is None and not self.complete and self.bet_id is None and self.async_ is None
            and self.responses.current_order is None and self.responses.place_response is None and self.date_time_execution_complete is None)
    ensures("own_objects", self.simulated.order == self and self.update_data["size_reduction"] is None and self.update_data["new_price"] is None)
    ensures("status_log_empty", len(self.status_log) == 0)


@contract("flumine/order/order.py::BaseOrder.update_client", tags=["C11"])
def _(self, client: Opt(Ref("BaseClient"))):
    requires("simulated_order_link", self.simulated.order == self)
    modifies(self, "client")
    modifies(self, "_simulated")
    ensures("client_bound", self.client == client)
    ensures("simulated_only_in_simulation_or_paper_trading", self._simulated == (config.simulated or (client is not None and client.paper_trade)))


def rebuilt_order_type(o, c):
    """the order type is rebuilt from the exchange's record (restart: exposure inputs equal those before the crash)"""
    return (o.order_type.ORDER_TYPE == OrderTypes.LIMIT and o.order_type.price == c.price_size.price and o.order_type.size == c.price_size.size
            and o.order_type.persistence_type == c.persistence_type) if c.order_type == "LIMIT" else (
        (o.order_type.ORDER_TYPE == OrderTypes.LIMIT_ON_CLOSE and o.order_type.liability == c.bsp_liability and o.order_type.price == c.price_size.price)
        if c.order_type == "LIMIT_ON_CLOSE" else
        (o.order_type.ORDER_TYPE == OrderTypes.MARKET_ON_CLOSE and o.order_type.liability == c.bsp_liability))


@contract("flumine/order/trade.py::Trade.create_order_from_current", tags=["C11"], fresh_result=True,
          allocates=["result.status_log", "result.responses", "result.simulated", "result.update_data"])
def _(self, client: Ref("BaseClient"), current_order: Ref("CurrentOrder"), order_id: ATOM) -> Ref("BetfairOrder"):
    raises(NotImplementedError, when=not (current_order.order_type == "LIMIT" or current_order.order_type == "LIMIT_ON_CLOSE" or current_order.order_type == "MARKET_ON_CLOSE"),
           iff=True, label="unknown_order_type")
    modifies_list(self.orders)
    ensures("adopted_under_the_exchange_ids", result.id == order_id and result.bet_id == current_order.bet_id and result.trade == self and result.client == client)
    ensures("runner_and_side", result.side == current_order.side and result.handicap == current_order.handicap and result.selection_id == self.selection_id
            and result.market_id == self.market_id and result.lookup == (self.market_id, self.selection_id, current_order.handicap))
    ensures("order_type_rebuilt", rebuilt_order_type(result, current_order))
    ensures("dates", result.date_time_created == current_order.placed_date)
    ensures("appended_to_the_trade_once", len(self.orders) == old(len(self.orders)) + 1 and self.orders[len(self.orders) - 1] == result
            and forall(lambda j: self.orders[j] == old(self.orders[j]), 0, old(len(self.orders))))
    ensures("not_yet_placed", result.status is None and not result.complete and result.responses.current_order is None and len(result.status_log) == 0
            and result.simulated.order == result)
    ensures("live_order_outside_simulation", result._simulated == (config.simulated or client.paper_trade))


# ----------------------------------------------------------------------------- adoption: registering the order
schema("UUID", time=INT)
schema("Trade", notes=Ref("Object"))


@external("uuid.uuid4", tags=["C11"])
def _() -> Ref("UUID"):
    """an opaque identifier object (uniqueness is C19's assumed contract; not used here)"""
    pass


@external("collections.OrderedDict", tags=["C11"])
def _() -> Ref("Object"):
    pass


@contract("flumine/order/trade.py::Trade.__init__", tags=["C11"], inline_at_calls=True)
def _(self, market_id: ATOM, selection_id: INT, handicap: REAL, strategy: Ref("BaseStrategy"), notes: Opt(Ref("Object")) = None,
      place_reset_seconds: REAL = 0.0, reset_seconds: REAL = 0.0, pending_orders: BOOL = False):
    modifies(self, "id")
    modifies(self, "market_id")
    modifies(self, "selection_id")
    modifies(self, "handicap")
    modifies(self, "strategy")
    modifies(self, "notes")
    modifies(self, "market_notes")
    modifies(self, "place_reset_seconds")
    modifies(self, "reset_seconds")
    modifies(self, "orders")
    modifies(self, "pending_orders")
    modifies(self, "status_log")
    modifies(self, "status")
    modifies(self, "date_time_created")
    modifies(self, "date_time_complete")
    ensures("a_live_trade_of_the_strategy_on_the_runner", self.market_id == market_id and self.selection_id == selection_id and self.handicap == handicap
            and self.strategy == strategy and self.status == TradeStatus.LIVE and len(self.orders) == 0 and self.pending_orders == pending_orders)


def blotter_lists_separate(bl, o):
    """Blotter.__init__ / defaultdict(list): the live list is its own list object, none of the per-key view lists"""
    return implies(o.trade in bl._trades, bl._trades[o.trade] is not bl._live_orders) \
        and implies(o.trade.strategy in bl._strategy_orders, bl._strategy_orders[o.trade.strategy] is not bl._live_orders) \
        and implies((o.trade.strategy, o.selection_id, o.handicap) in bl._strategy_selection_orders,
                    bl._strategy_selection_orders[(o.trade.strategy, o.selection_id, o.handicap)] is not bl._live_orders) \
        and implies(o.client in bl._client_orders, bl._client_orders[o.client] is not bl._live_orders) \
        and implies((o.client, o.trade.strategy) in bl._client_strategy_orders, bl._client_strategy_orders[(o.client, o.trade.strategy)] is not bl._live_orders)


@contract("flumine/markets/blotter.py::Blotter.__setitem__", tags=["C11"])
def _(self, customer_order_ref: ATOM, order: Ref("BaseOrder")):
    # C15: an order id is filed once - filing a second object under an id that is taken overwrites _orders[id] while the views
    # keep both objects (the same precondition the C15 sidecar of variant C puts on this method; every caller has to establish it)
    requires("new_id", not (customer_order_ref in self._orders))
    modifies(self, "active")
    modifies_map(self._orders)
    modifies_map(self._bet_id_lookup)
    modifies_map(self._trade_lookup)
    modifies_map(self._trades)
    modifies_map(self._strategy_orders)
    modifies_map(self._strategy_selection_orders)
    modifies_map(self._client_orders)
    modifies_map(self._client_strategy_orders)
    modifies_lists_of(Ref("BaseOrder"))
    ensures("registered_under_its_reference", self.active and customer_order_ref in self._orders and self._orders[customer_order_ref] == order)
    ensures("indexed_by_bet_id", order.bet_id in self._bet_id_lookup and self._bet_id_lookup[order.bet_id] == order)
    ensures("other_bet_ids_untouched", forall_atom(lambda b: implies(not (order.bet_id is not None and b == order.bet_id),
                                                                     (b in self._bet_id_lookup) == old(b in self._bet_id_lookup)
                                                                     and implies(old(b in self._bet_id_lookup), self._bet_id_lookup[b] == old(self._bet_id_lookup[b])))))
    ensures("other_references_untouched", forall_atom(lambda k: implies(k != customer_order_ref, (k in self._orders) == old(k in self._orders)
                                                                        and implies(old(k in self._orders), self._orders[k] == old(self._orders[k])))))
    ensures("live", order in self._live_orders and len(self._live_orders) >= old(len(self._live_orders)) + 1
            and forall(lambda j: self._live_orders[j] == old(self._live_orders[j]), 0, old(len(self._live_orders))))
    ensures("live_exactly_once_more", implies(old(blotter_lists_separate(self, order)), len(self._live_orders) == old(len(self._live_orders)) + 1
                                              and self._live_orders[len(self._live_orders) - 1] == order))
    ensures("in_the_strategy_view", order.trade.strategy in self._strategy_orders and order in self._strategy_orders[order.trade.strategy])
    ensures("in_the_selection_view", (order.trade.strategy, order.selection_id, order.handicap) in self._strategy_selection_orders
            and order in self._strategy_selection_orders[(order.trade.strategy, order.selection_id, order.handicap)])


# ----------------------------------------------------------------------------- adoption of an exchange order that is unknown locally
# Strategies.hashes is a dict comprehension {strategy.name_hash: strategy for strategy in self} (outside the engine's subset): read as an
# abstract map; ASSUMPTION: it maps the 13-character name hash of each registered strategy to that strategy
abstract_property("Strategies", "hashes", MapOf(ATOM, Ref("BaseStrategy")))
schema("AddMarketFn", g_markets=Ref("Markets"), g_flumine=Ref("BaseFlumine"))


@virtual("AddMarketFn", "__call__", tags=["C11"], fresh_result=True,
         allocates=["result.blotter", "result.blotter._orders", "result.blotter._bet_id_lookup", "result.blotter._trade_lookup", "result.blotter._trades",
                    "result.blotter._strategy_orders", "result.blotter._strategy_selection_orders", "result.blotter._client_orders",
                    "result.blotter._client_strategy_orders", "result.blotter._live_orders"])
def _(self, market_id: ATOM, market_book: Opt(Ref("MarketBook")) = None) -> Ref("Market"):
    """the bound method BaseFlumine._add_market passed as a value: this is the (verified) contract of _add_market in c13_dispatch.py with
    the registry named by the ghost field g_markets"""
    modifies_map(self.g_markets._markets)
    modifies_map(self.g_markets.events)
    modifies_all("Market.closed")
    modifies_all("Market.orders_cleared")
    modifies_all("Market.market_cleared")
    ensures("market_for_the_id", result.market_id == market_id and not result.closed and result.market_book == market_book)
    ensures("registered_when_new", implies(old(market_id not in self.g_markets._markets), market_id in self.g_markets._markets and self.g_markets._markets[market_id] == result))
    ensures("own_empty_blotter", result.blotter.market_id == market_id and not result.blotter.active and len(result.blotter._orders) == 0
            and len(result.blotter._live_orders) == 0 and len(result.blotter._bet_id_lookup) == 0)
    ensures("no_order_in_the_new_blotter", forall_atom(lambda r: not (r in result.blotter._orders)) and forall_atom(lambda b: not (b in result.blotter._bet_id_lookup)))
    ensures("other_ids_untouched", forall_atom(lambda k: implies(k != market_id, (k in self.g_markets._markets) == old(k in self.g_markets._markets)
                                                                 and implies(old(k in self.g_markets._markets), self.g_markets._markets[k] == old(self.g_markets._markets[k])))))


def ref_hash(c):
    return c.customer_order_ref[:13]


def ref_order_id(c):
    return c.customer_order_ref[14:]


def known_strategy(strategies, c):
    return ref_hash(c) in strategies.hashes


def known_order_type(c):
    return c.order_type == "LIMIT" or c.order_type == "LIMIT_ON_CLOSE" or c.order_type == "MARKET_ON_CLOSE"


@contract("flumine/order/process.py::create_order_from_current", tags=["C11", "C15"])
def _(markets: Ref("Markets"), strategies: Ref("Strategies"), current_order: Ref("CurrentOrder"), add_market: Ref("AddMarketFn"), client: Ref("BaseClient")) -> Opt(Ref("BaseOrder")):
    # C15: adoption files a NEW order id (the id is the tail of the customer reference): the caller only adopts what it could not find
    requires("reference_not_yet_filed", implies(current_order.market_id in markets._markets,
                                                not (ref_order_id(current_order) in markets._markets[current_order.market_id].blotter._orders)))
    requires("add_market_registers_into_this_registry", add_market.g_markets == markets)
    requires("registry_keys_are_market_ids", implies(current_order.market_id in markets._markets,
                                                     markets._markets[current_order.market_id].market_id == current_order.market_id))  # Markets.add_market is only called with (market.market_id, market)
    requires("exchange_order_type", known_order_type(current_order))  # A7: the exchange's order types are LIMIT, LIMIT_ON_CLOSE, MARKET_ON_CLOSE
    modifies_map(markets._markets)
    modifies_map(markets.events)
    modifies_all("Market.closed")
    modifies_all("Market.orders_cleared")
    modifies_all("Market.market_cleared")
    modifies_all("Blotter.active")
    modifies_all("BaseStrategy._invested")
    modifies_all("RunnerContext.invested")
    modifies_all("RunnerContext.datetime_last_placed")
    modifies_all("RunnerContext.datetime_last_reset")
    modifies_lists_of(ATOM)
    modifies_lists_of(Ref("BaseOrder"))
    # the blotter of an EXISTING market (a new market brings its own fresh blotter)
    modifies_map(markets._markets[current_order.market_id].blotter._orders, when=current_order.market_id in markets._markets)
    modifies_map(markets._markets[current_order.market_id].blotter._bet_id_lookup, when=current_order.market_id in markets._markets)
    modifies_map(markets._markets[current_order.market_id].blotter._trade_lookup, when=current_order.market_id in markets._markets)
    modifies_map(markets._markets[current_order.market_id].blotter._trades, when=current_order.market_id in markets._markets)
    modifies_map(markets._markets[current_order.market_id].blotter._strategy_orders, when=current_order.market_id in markets._markets)
    modifies_map(markets._markets[current_order.market_id].blotter._strategy_selection_orders, when=current_order.market_id in markets._markets)
    modifies_map(markets._markets[current_order.market_id].blotter._client_orders, when=current_order.market_id in markets._markets)
    modifies_map(markets._markets[current_order.market_id].blotter._client_strategy_orders, when=current_order.market_id in markets._markets)
    ensures("other_markets_untouched", forall_atom(lambda k: implies(k != current_order.market_id, (k in markets._markets) == old(k in markets._markets)
                                                                     and implies(old(k in markets._markets), markets._markets[k] == old(markets._markets[k])))))
    ensures("other_references_of_the_blotter_untouched", implies(old(current_order.market_id in markets._markets),
            forall_atom(lambda r: implies(r != ref_order_id(current_order),
                                          (r in markets._markets[current_order.market_id].blotter._orders) == old(r in markets._markets[current_order.market_id].blotter._orders)
                                          and implies(old(r in markets._markets[current_order.market_id].blotter._orders),
                                                      markets._markets[current_order.market_id].blotter._orders[r] == old(markets._markets[current_order.market_id].blotter._orders[r]))))))
    ensures("other_bet_ids_of_the_blotter_untouched", implies(old(current_order.market_id in markets._markets),
            forall_atom(lambda b: implies(b != current_order.bet_id,
                                          (b in markets._markets[current_order.market_id].blotter._bet_id_lookup) == old(b in markets._markets[current_order.market_id].blotter._bet_id_lookup)
                                          and implies(old(b in markets._markets[current_order.market_id].blotter._bet_id_lookup),
                                                      markets._markets[current_order.market_id].blotter._bet_id_lookup[b] == old(markets._markets[current_order.market_id].blotter._bet_id_lookup[b]))))))
    ensures("new_markets_blotter_holds_only_this_order", implies(result is not None and not old(current_order.market_id in markets._markets),
            forall_atom(lambda r: implies(r != ref_order_id(current_order), not (r in markets._markets[current_order.market_id].blotter._orders)))
            and forall_atom(lambda b: implies(b != current_order.bet_id, not (b in markets._markets[current_order.market_id].blotter._bet_id_lookup)))))
    ensures("market_registered_under_its_id", implies(result is not None, markets._markets[current_order.market_id].market_id == current_order.market_id))
    ensures("live_order", implies(result is not None, result._simulated == (config.simulated or client.paper_trade)))
    ensures("unknown_strategy_is_ignored", (result is None) == (not known_strategy(strategies, current_order)))
    ensures("ignored_without_effect_on_the_registry", implies(not known_strategy(strategies, current_order),
                                                              (current_order.market_id in markets._markets) == old(current_order.market_id in markets._markets)
                                                              and len(markets._markets) == old(len(markets._markets))))
    ensures("ignored_without_any_effect_on_the_registry", implies(result is None,
            forall_atom(lambda k: (k in markets._markets) == old(k in markets._markets) and implies(old(k in markets._markets), markets._markets[k] == old(markets._markets[k])))))
    ensures("ignored_without_any_effect_on_the_blotter", implies(result is None and old(current_order.market_id in markets._markets),
            forall_atom(lambda r: (r in markets._markets[current_order.market_id].blotter._orders) == old(r in markets._markets[current_order.market_id].blotter._orders)
                        and implies(old(r in markets._markets[current_order.market_id].blotter._orders),
                                    markets._markets[current_order.market_id].blotter._orders[r] == old(markets._markets[current_order.market_id].blotter._orders[r])))
            and forall_atom(lambda b: (b in markets._markets[current_order.market_id].blotter._bet_id_lookup) == old(b in markets._markets[current_order.market_id].blotter._bet_id_lookup)
                            and implies(old(b in markets._markets[current_order.market_id].blotter._bet_id_lookup),
                                        markets._markets[current_order.market_id].blotter._bet_id_lookup[b] == old(markets._markets[current_order.market_id].blotter._bet_id_lookup[b])))))
    ensures("adopted_into_the_market_the_exchange_names", implies(result is not None,
            current_order.market_id in markets._markets
            and ref_order_id(current_order) in markets._markets[current_order.market_id].blotter._orders
            and markets._markets[current_order.market_id].blotter._orders[ref_order_id(current_order)] == result
            and result in markets._markets[current_order.market_id].blotter._live_orders
            and markets._markets[current_order.market_id].blotter.active))
    ensures("existing_market_is_reused", implies(result is not None and old(current_order.market_id in markets._markets),
                                                 markets._markets[current_order.market_id] == old(markets._markets[current_order.market_id])))
    ensures("for_the_strategy_of_the_reference", implies(result is not None, result.trade.strategy == strategies.hashes[ref_hash(current_order)]
                                                         and result.trade.market_id == current_order.market_id and result.market_id == current_order.market_id
                                                         and result.selection_id == current_order.selection_id and result.handicap == current_order.handicap))
    ensures("under_the_exchange_ids", implies(result is not None, result.id == ref_order_id(current_order) and result.bet_id == current_order.bet_id and result.client == client))
    ensures("indexed_by_bet_id", implies(result is not None, current_order.bet_id in markets._markets[current_order.market_id].blotter._bet_id_lookup
                                         and markets._markets[current_order.market_id].blotter._bet_id_lookup[current_order.bet_id] == result))
    ensures("pending_until_the_status_is_mapped", implies(result is not None, result.status == OrderStatus.PENDING and not result.complete and result.trade.status == TradeStatus.LIVE))
    ensures("order_type_rebuilt", implies(result is not None, rebuilt_order_type(result, current_order)))
    ensures("runner_context_exists", implies(result is not None,
            (current_order.market_id, current_order.selection_id, current_order.handicap) in result.trade.strategy._invested))
    ensures("runner_context_invested", implies(result is not None,
            result.trade.strategy._invested[(current_order.market_id, current_order.selection_id, current_order.handicap)].invested))
    ensures("runner_context_charged_live", implies(result is not None,
            result.trade.id in result.trade.strategy._invested[(current_order.market_id, current_order.selection_id, current_order.handicap)].live_trades))
    ensures("runner_context_charged_total", implies(result is not None,
            result.trade.id in result.trade.strategy._invested[(current_order.market_id, current_order.selection_id, current_order.handicap)].trades))


# ----------------------------------------------------------------------------- one order-stream snapshot
schema("CurrentOrdersEvent", event=ListOf(Ref("CurrentOrders")))
schema("CurrentOrders", client=Ref("BaseClient"), orders=ListOf(Ref("CurrentOrder")))
inline("flumine/markets/blotter.py::Blotter.live_orders")


def a_status(o):
    return o.status is None or o.status == OrderStatus.PENDING or o.status == OrderStatus.EXECUTABLE or o.status == OrderStatus.EXECUTION_COMPLETE \
        or o.status == OrderStatus.CANCELLING or o.status == OrderStatus.UPDATING or o.status == OrderStatus.REPLACING \
        or o.status == OrderStatus.EXPIRED or o.status == OrderStatus.VIOLATION


def ok_order(o, k):
    """an order filed in the blotter of market k belongs to that market and is a live-trading order"""
    return o.market_id == k and not o._simulated


def orders_of(M, k):
    return M._markets[k].blotter._orders


def lookup_of(M, k):
    return M._markets[k].blotter._bet_id_lookup


def reg_ok1(M):
    return forall_atom(lambda k: implies(k in M._markets, M._markets[k].market_id == k))


def reg_ok2(M):
    return forall_atom(lambda k, r: implies(k in M._markets and r in orders_of(M, k), ok_order(orders_of(M, k)[r], k)))


def reg_ok3(M):
    return forall_atom(lambda k, b: implies(k in M._markets and b in lookup_of(M, k), ok_order(lookup_of(M, k)[b], k)))


def reg_ok4(M):
    """ownership (Market.__init__ / Blotter.__init__): a registered market owns its blotter, the blotter owns its order dicts -
    so different markets never share a blotter or an order dict"""
    return forall_atom(lambda k: implies(k in M._markets, owner_obj(M._markets[k].blotter) == M._markets[k]
                                         and owner_obj(orders_of(M, k)) == M._markets[k].blotter and owner_obj(lookup_of(M, k)) == M._markets[k].blotter))


def reg_ok(M):
    """representation invariant of the live market registry used by the reconciliation (established by Markets.add_market /
    Blotter.__setitem__, preserved by every step below)"""
    return forall_atom(lambda k: implies(k in M._markets, M._markets[k].market_id == k)) \
        and forall_atom(lambda k, r: implies(k in M._markets and r in orders_of(M, k), ok_order(orders_of(M, k)[r], k))) \
        and forall_atom(lambda k, b: implies(k in M._markets and b in lookup_of(M, k), ok_order(lookup_of(M, k)[b], k))) \
        and reg_ok4(M)


def by_ref(M, c):
    """the order found under the entry's customer reference is the one the entry speaks about (no replace in between)"""
    return orders_of(M, c.market_id)[ref_order_id(c)].bet_id is None or orders_of(M, c.market_id)[ref_order_id(c)].bet_id == "" \
        or orders_of(M, c.market_id)[ref_order_id(c)].bet_id == c.bet_id


def has_target(M, c):
    return by_ref(M, c) or c.bet_id in lookup_of(M, c.market_id)


def target(M, c):
    return orders_of(M, c.market_id)[ref_order_id(c)] if by_ref(M, c) else lookup_of(M, c.market_id)[c.bet_id]


def step_post(M, strategies, c):
    """what holds right after the step for entry c (DESIGN C11: one-step post-condition)"""
    return implies(known_strategy(strategies, c) or (c.market_id in M._markets and ref_order_id(c) in orders_of(M, c.market_id)),
                   c.market_id in M._markets and ref_order_id(c) in orders_of(M, c.market_id)
                   and implies(has_target(M, c), target(M, c).responses.current_order == c))


def live_clients(event):
    return forall(lambda a: not event.event[a].client.paper_trade, 0, len(event.event))


def exchange_order_types(event):
    return forall(lambda a: forall(lambda b: known_order_type(event.event[a].orders[b]), 0, len(event.event[a].orders)), 0, len(event.event))


@contract("flumine/order/process.py::process_current_orders", tags=["C11", "C15"])
def _(markets: Ref("Markets"), strategies: Ref("Strategies"), event: Ref("CurrentOrdersEvent"), log_control: Ref("LogControlFn"), add_market: Ref("AddMarketFn")):
    requires("live_trading", not config.simulated and live_clients(event))
    requires("exchange_order_types", exchange_order_types(event))  # A7
    requires("add_market_registers_into_this_registry", add_market.g_markets == markets)
    requires("registry_coherent", reg_ok(markets))
    modifies_map(markets._markets)
    modifies_map(markets.events)
    modifies_all("Market.closed")
    modifies_all("Market.orders_cleared")
    modifies_all("Market.market_cleared")
    modifies_all("Blotter.active")
    modifies_all("BaseStrategy._invested")
    modifies_all("RunnerContext.invested")
    modifies_all("RunnerContext.datetime_last_placed")
    modifies_all("RunnerContext.datetime_last_reset")
    modifies_all("Responses.current_order")
    modifies_all("Responses._date_time_placed")
    modifies_all("BaseOrder.bet_id")
    modifies_all("BaseOrder.status")
    modifies_all("BaseOrder.complete")
    modifies_all("BaseOrder.date_time_status_update")
    modifies_all("BaseOrder.date_time_execution_complete")
    modifies_all("UpdateData.size_reduction")
    modifies_all("UpdateData.new_price")
    modifies_all("Trade.status")
    modifies_all("Trade.date_time_complete")
    modifies(log_control, "g_logged")
    modifies_lists_of(ATOM)
    modifies_lists_of(Ref("BaseOrder"))
    # the blotter dicts of the markets named by the snapshot (adoption)
    modifies_maps_of(MapOf(ATOM, Ref("BaseOrder")))
    modifies_maps_of(MapOf(Opt(ATOM), Ref("BaseOrder")))
    modifies_maps_of(MapOf(ATOM, Ref("Trade")))
    modifies_maps_of(MapOfDefault(Ref("Trade"), ListOf(Ref("BaseOrder"))))
    modifies_maps_of(MapOfDefault(Ref("BaseStrategy"), ListOf(Ref("BaseOrder"))))
    modifies_maps_of(MapOfDefault(Tup(Ref("BaseStrategy"), INT, REAL), ListOf(Ref("BaseOrder"))))
    modifies_maps_of(MapOfDefault(Opt(Ref("BaseClient")), ListOf(Ref("BaseOrder"))))
    modifies_maps_of(MapOfDefault(Tup(Opt(Ref("BaseClient")), Ref("BaseStrategy")), ListOf(Ref("BaseOrder"))))
    local(order=Opt(Ref("BaseOrder")), market=Ref("Market"), client=Ref("BaseClient"), order_id=ATOM)
    invariant(0, "registry_coherent", reg_ok(markets))
    invariant(1, "registry_keys", reg_ok1(markets))
    invariant(1, "registry_orders", reg_ok2(markets))
    invariant(1, "registry_bet_ids", reg_ok3(markets))
    invariant(1, "registry_ownership", reg_ok4(markets))
    invariant(1, "the_entry_just_processed_is_reconciled", implies(_i1 > 0, step_post(markets, strategies, current_orders.orders[_i1 - 1])))
    ensures("registry_stays_coherent", reg_ok(markets))


# ----------------------------------------------------------------------------- the handler step: snapshot, then process_orders hooks
bound_method_object("AddMarketFn", "flumine/baseflumine.py::BaseFlumine._add_market", g_flumine="self", g_markets="self.markets")
bound_method_object("LogControlFn", "flumine/baseflumine.py::BaseFlumine.log_control")
schema("BaseEvent", event=Ref("Object"))
inline("flumine/markets/markets.py::Markets.__iter__")


def delivers(m, strategy):
    """process_orders is due for (market, strategy): the market is open, its blotter active and the strategy has orders there"""
    return not m.closed and m.blotter.active and strategy in m.blotter._strategy_orders and len(m.blotter._strategy_orders[strategy]) > 0


@contract("flumine/baseflumine.py::BaseFlumine._process_current_orders", tags=["C11", "C13"])
def _(self, event: Ref("CurrentOrdersEvent")):
    requires("betfair_snapshot", event.exchange == ExchangeType.BETFAIR)  # the Betdaq branch is outside C11's statement
    requires("raise_errors_off", not config.raise_errors)
    requires("live_trading", not config.simulated and live_clients(event))
    requires("exchange_order_types", exchange_order_types(event))
    requires("registry_coherent", reg_ok(self.markets))
    requires("registered_once", strategies_distinct(self))
    modifies_map(self.markets._markets)
    modifies_map(self.markets.events)
    modifies_all("Market.closed")
    modifies_all("Market.orders_cleared")
    modifies_all("Market.market_cleared")
    modifies_all("Blotter.active")
    modifies_all("BaseStrategy._invested")
    modifies_all("BaseStrategy.g_orders")
    modifies_all("BaseStrategy.g_kind")
    modifies_all("RunnerContext.invested")
    modifies_all("RunnerContext.datetime_last_placed")
    modifies_all("RunnerContext.datetime_last_reset")
    modifies_all("Responses.current_order")
    modifies_all("Responses._date_time_placed")
    modifies_all("BaseOrder.bet_id")
    modifies_all("BaseOrder.status")
    modifies_all("BaseOrder.complete")
    modifies_all("BaseOrder.date_time_status_update")
    modifies_all("BaseOrder.date_time_execution_complete")
    modifies_all("UpdateData.size_reduction")
    modifies_all("UpdateData.new_price")
    modifies_all("Trade.status")
    modifies_all("Trade.date_time_complete")
    modifies_all("LogControlFn.g_logged")
    modifies_lists_of(ATOM)
    modifies_lists_of(Ref("BaseOrder"))
    modifies_maps_of(MapOf(ATOM, Ref("BaseOrder")))
    modifies_maps_of(MapOf(Opt(ATOM), Ref("BaseOrder")))
    modifies_maps_of(MapOf(ATOM, Ref("Trade")))
    modifies_maps_of(MapOfDefault(Ref("Trade"), ListOf(Ref("BaseOrder"))))
    modifies_maps_of(MapOfDefault(Ref("BaseStrategy"), ListOf(Ref("BaseOrder"))))
    modifies_maps_of(MapOfDefault(Tup(Ref("BaseStrategy"), INT, REAL), ListOf(Ref("BaseOrder"))))
    modifies_maps_of(MapOfDefault(Opt(Ref("BaseClient")), ListOf(Ref("BaseOrder"))))
    modifies_maps_of(MapOfDefault(Tup(Opt(Ref("BaseClient")), Ref("BaseStrategy")), ListOf(Ref("BaseOrder"))))
    modifies_all("BaseStrategy.g_orders_w")
    local(strategy_orders=ListOf(Ref("BaseOrder")))
    invariant(0, "registry_coherent", reg_ok(self.markets))
    invariant(0, "snapshot_is_the_registry", forall(lambda j: exists_atom(lambda k: k in self.markets._markets and self.markets._markets[k] == _seq0[j]), 0, len(_seq0)))
    invariant(0, "snapshot_distinct", forall_int(lambda a, b: implies(0 <= a and a < b and b < len(_seq0), _seq0[a] != _seq0[b])))
    invariant(0, "watched_market_once_iff_it_has_orders", implies(arbitrary_strategy(self),
              SK(self).g_orders_w == old(SK(self).g_orders_w) + (1 if exists(lambda j: _seq0[j] == SK(self).g_watch, 0, _i0) and delivers(SK(self).g_watch, SK(self)) else 0)))
    invariant(1, "registry_coherent", reg_ok(self.markets))
    invariant(1, "watched_market_once_iff_it_has_orders", implies(arbitrary_strategy(self),
              SK(self).g_orders_w == old(SK(self).g_orders_w) + (1 if exists(lambda j: _seq0[j] == SK(self).g_watch, 0, _i0) and delivers(SK(self).g_watch, SK(self)) else 0)
              + (1 if market == SK(self).g_watch and self.g_k < _i1 and delivers(market, SK(self)) else 0)))
    invariant(1, "this_market_delivers", not market.closed and market.blotter.active)
    ensures("registry_stays_coherent", reg_ok(self.markets))
    ensures("process_orders_exactly_once_for_a_registered_open_market_with_orders", implies(arbitrary_strategy(self),
            SK(self).g_orders_w == old(SK(self).g_orders_w)
            + (1 if exists_atom(lambda k: k in self.markets._markets and self.markets._markets[k] == SK(self).g_watch) and delivers(SK(self).g_watch, SK(self)) else 0)))
