"""C13 (containment half) - the dispatch loops:  "every other strategy still receives every update exactly once,
middleware still runs before strategies".

Method.  Delivery is observed through the ghost counters that the (assumed, A4) hook contracts of c13_wrappers.py
increment.  The statement is universally quantified over strategies; it is proved for ONE ARBITRARY registered strategy
  S = flumine.strategies._strategies[flumine.g_k]        (g_k: a ghost index, never written, unconstrained)
which is universal generalisation.  The wrappers are executed from their real AST at every call site
(inline_at_calls), so every callback invocation forks into {returns, raises FlumineException, raises Exception}: the
loop invariants are re-established on all of them = "whatever earlier callbacks did".

Domain assumptions (requires):
  * config.raise_errors is False                                       (statement: "with raise_errors False")
  * a strategy object is registered once (Strategies._strategies has no duplicates); otherwise it legitimately receives
    an update once per registration
  * hooks do not re-register strategies / middleware or change stream subscriptions while an update is dispatched
    (their assumed frame, A4): stream_ids is read as an abstract field of the strategy.
"""

inline(
    "flumine/markets/markets.py::Markets.markets",
    "flumine/strategy/strategy.py::Strategies.__iter__",
    "flumine/events/events.py::BaseEvent.__init__",
)
clock("flumine.config", "current_time")

schema("BaseFlumine", markets=Ref("Markets"), strategies=Ref("Strategies"), _market_middleware=ListOf(Ref("Middleware")),
       handler_queue=Ref("HandlerQueue"), _logging_controls=ListOf(Ref("LoggingControl")), g_k=INT, g_m=INT)
schema("Markets", _markets=MapOf(ATOM, Ref("Market")), events=MapOfDefault(ATOM, ListOf(Ref("Market"))))
schema("Strategies", _strategies=ListOf(Ref("BaseStrategy")))
schema("LoggingControl", logging_queue=Ref("HandlerQueue"))
schema("BaseEvent", _time_created=REAL, exchange=ATOM)
schema("MarketBookEvent", event=ListOf(Ref("MarketBook")))
schema("RawDataEvent", event=Tup(INT, ATOM, INT, ListOf(Ref("RawDatum"))))
schema("CloseMarketEvent", event=Ref("Object"))  # a MarketBook or a raw datum
schema("MarketEvent", event=Ref("Market"))
schema("Market", orders_cleared=ListOf(ATOM), market_cleared=ListOf(ATOM), context=Ref("MarketContext"))
struct("MarketContext", simulated=Ref("SimulatedContext"), absent_keyerror=False)
struct("SimulatedContext", absent_keyerror=False)
# stream_ids is a list or a set of ints of which the framework only ever asks membership: modelled as a set (characteristic map)
abstract_property("BaseStrategy", "stream_ids", MapOf(INT, BOOL))


def SK(fl):
    """the arbitrary registered strategy the delivery clauses are stated for"""
    return fl.strategies._strategies[fl.g_k]


def strategies_distinct(fl):
    """the observed strategy S is registered once (a consequence of 'no strategy object is registered twice')"""
    return forall_int(lambda a: implies(0 <= a and a < len(fl.strategies._strategies) and a != fl.g_k,
                                        fl.strategies._strategies[a] != fl.strategies._strategies[fl.g_k]))


def arbitrary_strategy(fl):
    return 0 <= fl.g_k and fl.g_k < len(fl.strategies._strategies)


# ----------------------------------------------------------------------------- queues / logging (external objects)
@virtual("HandlerQueue", "put", tags=["C13", "C14", "C11"])
def _(self, item: Ref("BaseEvent")):
    """queue.Queue.put on an unbounded queue: no effect on the state the contracts speak about, does not raise"""
    pass


@contract("flumine/baseflumine.py::BaseFlumine.log_control", tags=["C13", "C14", "C11"])
def _(self, event: Ref("BaseEvent")):
    invariant(0, "nothing_observable", True)


# ----------------------------------------------------------------------------- markets
@contract("flumine/markets/blotter.py::Blotter.__init__", tags=["C13", "C11", "C14"], inline_at_calls=True)
def _(self, market_id: ATOM):
    modifies(self, "market_id")
    modifies(self, "active")
    modifies(self, "_orders")
    modifies(self, "_trades")
    modifies(self, "_bet_id_lookup")
    modifies(self, "_trade_lookup")
    modifies(self, "_live_orders")
    modifies(self, "_strategy_orders")
    modifies(self, "_strategy_selection_orders")
    modifies(self, "_client_orders")
    modifies(self, "_client_strategy_orders")
    ensures("empty_blotter", self.market_id == market_id and not self.active and len(self._orders) == 0 and len(self._live_orders) == 0
            and len(self._bet_id_lookup) == 0 and len(self._strategy_orders) == 0 and len(self._trades) == 0)


@contract("flumine/markets/market.py::Market.__init__", tags=["C13", "C11", "C14"], inline_at_calls=True)
def _(self, flumine: Ref("BaseFlumine"), market_id: ATOM, market_book: Opt(Ref("MarketBook")), market_catalogue: Opt(Ref("MarketCatalogue")) = None):
    modifies(self, "flumine")
    modifies(self, "market_id")
    modifies(self, "closed")
    modifies(self, "date_time_created")
    modifies(self, "date_time_closed")
    modifies(self, "market_book")
    modifies(self, "market_catalogue")
    modifies(self, "update_market_catalogue")
    modifies(self, "orders_cleared")
    modifies(self, "market_cleared")
    modifies(self, "context")
    modifies(self, "blotter")
    modifies(self, "_transaction_id")
    ensures("open_market_for_the_id", self.market_id == market_id and not self.closed and self.market_book == market_book
            and self.flumine == flumine and self.update_market_catalogue)
    ensures("own_empty_blotter", self.blotter.market_id == market_id and not self.blotter.active and len(self.blotter._orders) == 0
            and len(self.blotter._live_orders) == 0 and len(self.blotter._bet_id_lookup) == 0)


@contract("flumine/markets/market.py::Market.open_market", tags=["C13", "C11", "C14"])
def _(self):
    modifies(self, "closed")
    modifies(self, "orders_cleared")
    modifies(self, "market_cleared")
    ensures("reopened", not self.closed)


@contract("flumine/markets/markets.py::Markets.add_market", tags=["C13", "C11", "C14"])
def _(self, market_id: ATOM, market: Ref("Market")):
    modifies_map(self._markets)
    modifies_map(self.events)
    modifies_all("Market.closed")
    modifies_all("Market.orders_cleared")
    modifies_all("Market.market_cleared")
    ensures("registered", market_id in self._markets)
    ensures("new_id_maps_to_the_market", implies(old(market_id not in self._markets), self._markets[market_id] == market))
    ensures("argument_market_is_not_closed_by_this", implies(not old(market.closed), not market.closed))
    ensures("other_ids_untouched", forall_atom(lambda k: implies(k != market_id, (k in self._markets) == old(k in self._markets)
                                                                 and implies(old(k in self._markets), self._markets[k] == old(self._markets[k])))))
    ensures("known_id_is_reopened_not_replaced", implies(old(market_id in self._markets),
                                                         self._markets[market_id] == old(self._markets[market_id]) and not self._markets[market_id].closed))


@virtual("Middleware", "add_market", tags=["C13", "C14", "C11"], shadows_default=True)
def _(self, market: Ref("Market")):
    """ASSUMPTION (DESIGN C13, 'not demanded'): Middleware.add_market is called unwrapped by _add_market; it is assumed not to
    raise and to write nothing the dispatch contracts read"""
    pass


@contract("flumine/baseflumine.py::BaseFlumine._add_market", tags=["C13", "C11", "C14"], fresh_result=True)
def _(self, market_id: ATOM, market_book: Opt(Ref("MarketBook"))) -> Ref("Market"):
    modifies_map(self.markets._markets)
    modifies_map(self.markets.events)
    modifies_all("Market.closed")
    modifies_all("Market.orders_cleared")
    modifies_all("Market.market_cleared")
    invariant(0, "market_kept_a", market.market_id == market_id)
    invariant(0, "market_kept_b", not market.closed)
    invariant(0, "market_kept_c", market.market_book == market_book)
    invariant(0, "market_kept_d", implies(old(market_id not in self.markets._markets), market_id in self.markets._markets and self.markets._markets[market_id] == market))
    invariant(0, "blotter_kept_a", market.blotter.market_id == market_id and not market.blotter.active)
    invariant(0, "blotter_kept_b", len(market.blotter._orders) == 0)
    invariant(0, "blotter_kept_c", len(market.blotter._live_orders) == 0)
    invariant(0, "blotter_kept_d", len(market.blotter._bet_id_lookup) == 0)
    invariant(0, "other_ids_untouched", forall_atom(lambda k: implies(k != market_id, (k in self.markets._markets) == old(k in self.markets._markets)
                                                                      and implies(old(k in self.markets._markets), self.markets._markets[k] == old(self.markets._markets[k])))))
    ensures("market_for_the_id", result.market_id == market_id and not result.closed and result.market_book == market_book)
    ensures("registered_when_new", implies(old(market_id not in self.markets._markets),
                                           market_id in self.markets._markets and self.markets._markets[market_id] == result))
    ensures("own_empty_blotter", result.blotter.market_id == market_id and not result.blotter.active and len(result.blotter._orders) == 0
            and len(result.blotter._live_orders) == 0 and len(result.blotter._bet_id_lookup) == 0)
    ensures("other_ids_untouched", forall_atom(lambda k: implies(k != market_id, (k in self.markets._markets) == old(k in self.markets._markets)
                                                                 and implies(old(k in self.markets._markets), self.markets._markets[k] == old(self.markets._markets[k])))))


# ----------------------------------------------------------------------------- raw data
def raw_subscribed(fl, event):
    return event.event[0] in SK(fl).stream_ids


@contract("flumine/baseflumine.py::BaseFlumine._process_raw_data", tags=["C13"])
def _(self, event: Ref("RawDataEvent")):
    requires("raise_errors_off", not config.raise_errors)
    requires("arbitrary_strategy", arbitrary_strategy(self))
    requires("registered_once", strategies_distinct(self))
    modifies_all("BaseStrategy.g_raw")
    modifies_all("BaseStrategy.g_kind")
    modifies_all("Market.closed")
    modifies_all("Market.orders_cleared")
    modifies_all("Market.market_cleared")
    modifies_all("Market.update_market_catalogue")
    modifies_all("RawDatum._stream_id")
    modifies_map(self.markets._markets)
    modifies_map(self.markets.events)
    local(market=Ref("Market"), market_id=ATOM)
    invariant(0, "delivered_once_per_datum_so_far", SK(self).g_raw == old(SK(self).g_raw) + (_i0 if raw_subscribed(self, event) else 0))
    invariant(1, "delivered_once_per_datum_so_far", SK(self).g_raw == old(SK(self).g_raw) + (_i0 if raw_subscribed(self, event) else 0)
              + (1 if raw_subscribed(self, event) and self.g_k < _i1 else 0))
    ensures("every_datum_delivered_exactly_once_iff_subscribed",
            SK(self).g_raw == old(SK(self).g_raw) + (len(event.event[3]) if raw_subscribed(self, event) else 0))


# ----------------------------------------------------------------------------- market books (live framework)
@external("time.time", tags=["C13"])
def _() -> REAL:
    """wall clock: any real (only used for a latency warning that is logged)"""
    pass


@contract("flumine/markets/market.py::Market.__call__", tags=["C13", "C14"])
def _(self, market_book: Ref("MarketBook")):
    modifies(self, "market_book")
    modifies(self, "update_market_catalogue")
    ensures("holds_the_new_book", self.market_book == market_book)


def delivered(fl, book):
    """the update reaches strategy S: the book is not the closing one and S subscribes to its stream"""
    return book.status != "CLOSED" and book.streaming_unique_id in SK(fl).stream_ids


def n_delivered(fl, books, n):
    return sum_(lambda j: 1 if delivered(fl, books[j]) else 0, 0, n)


def mw_ran_for(fl, book, n):
    """the first n registered middleware have been invoked with this book"""
    return forall(lambda i: fl._market_middleware[i].gm_book == book, 0, n)


@contract("flumine/baseflumine.py::BaseFlumine._process_market_books", tags=["C13"])
def _(self, event: Ref("MarketBookEvent")):
    requires("raise_errors_off", not config.raise_errors)
    requires("arbitrary_strategy", arbitrary_strategy(self))
    requires("registered_once", strategies_distinct(self))
    modifies_all("BaseStrategy.g_new_market")
    modifies_all("BaseStrategy.g_check")
    modifies_all("BaseStrategy.g_check_true")
    modifies_all("BaseStrategy.g_process")
    modifies_all("BaseStrategy.g_kind")
    modifies_all("BaseOrder.status")
    modifies_all("BaseOrder.complete")
    modifies_all("Middleware.gm_calls")
    modifies_all("Middleware.gm_kind")
    modifies_all("Middleware.gm_book")
    modifies_all("Callback.gc_calls")  # ghost of the generic callee (the engine's syntactic loop write-set names it; never written here)
    modifies_all("Callback.gc_kind")
    modifies_all("Callback.gc_ret")
    modifies_all("Market.closed")
    modifies_all("Market.orders_cleared")
    modifies_all("Market.market_cleared")
    modifies_all("Market.update_market_catalogue")
    modifies_all("Market.market_book")
    modifies_map(self.markets._markets)
    modifies_map(self.markets.events)
    local(market=Ref("Market"), market_id=ATOM, market_is_new=BOOL, latency=REAL)
    invariant(0, "check_once_per_delivered_book", SK(self).g_check == old(SK(self).g_check) + n_delivered(self, event.event, _i0))
    invariant(0, "process_iff_check_said_yes", SK(self).g_process - old(SK(self).g_process) == SK(self).g_check_true - old(SK(self).g_check_true))
    invariant(0, "new_market_at_most_once_per_delivered_book", 0 <= SK(self).g_new_market - old(SK(self).g_new_market)
              and SK(self).g_new_market - old(SK(self).g_new_market) <= SK(self).g_check - old(SK(self).g_check))
    invariant(1, "check_once_per_delivered_book", SK(self).g_check == old(SK(self).g_check) + n_delivered(self, event.event, _i0))
    invariant(1, "process_iff_check_said_yes", SK(self).g_process - old(SK(self).g_process) == SK(self).g_check_true - old(SK(self).g_check_true))
    invariant(1, "new_market_at_most_once_per_delivered_book", 0 <= SK(self).g_new_market - old(SK(self).g_new_market)
              and SK(self).g_new_market - old(SK(self).g_new_market) <= SK(self).g_check - old(SK(self).g_check))
    invariant(1, "market_holds_the_book", market.market_book == market_book and market_book.status != "CLOSED")
    invariant(1, "middleware_so_far", mw_ran_for(self, market_book, _i1))
    invariant(2, "check_once_per_delivered_book", SK(self).g_check == old(SK(self).g_check) + n_delivered(self, event.event, _i0)
              + (1 if self.g_k < _i2 and delivered(self, market_book) else 0))
    invariant(2, "process_iff_check_said_yes", SK(self).g_process - old(SK(self).g_process) == SK(self).g_check_true - old(SK(self).g_check_true))
    invariant(2, "new_market_at_most_once_per_delivered_book", 0 <= SK(self).g_new_market - old(SK(self).g_new_market)
              and SK(self).g_new_market - old(SK(self).g_new_market) <= SK(self).g_check - old(SK(self).g_check))
    invariant(2, "all_middleware_ran_before_any_strategy", market_book.status != "CLOSED" and mw_ran_for(self, market_book, len(self._market_middleware)))
    ensures("check_market_book_exactly_once_per_delivered_book", SK(self).g_check == old(SK(self).g_check) + n_delivered(self, event.event, len(event.event)))
    ensures("process_market_book_iff_check_returned_true", SK(self).g_process - old(SK(self).g_process) == SK(self).g_check_true - old(SK(self).g_check_true))
    ensures("process_new_market_at_most_once_per_delivered_book", 0 <= SK(self).g_new_market - old(SK(self).g_new_market)
            and SK(self).g_new_market - old(SK(self).g_new_market) <= SK(self).g_check - old(SK(self).g_check))


# ----------------------------------------------------------------------------- sports data
# two instances of the same function: race data is keyed by market id (no event_id attribute), cricket data by event id
schema("Race", market_id=ATOM, streaming_unique_id=INT)
schema("CricketMatch", event_id=ATOM, market_id=ATOM, streaming_unique_id=INT)
schema("SportsDataEvent", event=ListOf(Ref("Race")))
schema("CricketDataEvent", event=ListOf(Ref("CricketMatch")))  # SportsDataEvent carrying cricket matches (schema-only class)


def race_delivered(fl, datum):
    return datum.streaming_unique_id in SK(fl).stream_ids and datum.market_id in fl.markets._markets


@contract("flumine/baseflumine.py::BaseFlumine._process_sports_data", tags=["C13"])
def _(self, event: Ref("SportsDataEvent")):
    requires("raise_errors_off", not config.raise_errors)
    requires("arbitrary_strategy", arbitrary_strategy(self))
    requires("registered_once", strategies_distinct(self))
    modifies_all("BaseStrategy.g_check_sports")
    modifies_all("BaseStrategy.g_check_sports_true")
    modifies_all("BaseStrategy.g_process_sports")
    modifies_all("BaseStrategy.g_kind")
    modifies_all("Callback.gc_calls")
    modifies_all("Callback.gc_kind")
    modifies_all("Callback.gc_ret")
    local(markets=ListOf(Ref("Market")), market=Ref("Market"), market_id=ATOM, event_id=ATOM)
    invariant(0, "check_once_per_datum_of_a_known_market", SK(self).g_check_sports == old(SK(self).g_check_sports)
              + sum_(lambda j: 1 if race_delivered(self, event.event[j]) else 0, 0, _i0))
    invariant(0, "process_iff_check_said_yes", SK(self).g_process_sports - old(SK(self).g_process_sports) == SK(self).g_check_sports_true - old(SK(self).g_check_sports_true))
    invariant(1, "check_once_per_datum_of_a_known_market", len(markets) == 1 and race_delivered(self, sports_data) == (sports_data.streaming_unique_id in SK(self).stream_ids)
              and SK(self).g_check_sports == old(SK(self).g_check_sports) + sum_(lambda j: 1 if race_delivered(self, event.event[j]) else 0, 0, _i0)
              + (1 if _i1 == 1 and race_delivered(self, sports_data) else 0))
    invariant(1, "process_iff_check_said_yes", SK(self).g_process_sports - old(SK(self).g_process_sports) == SK(self).g_check_sports_true - old(SK(self).g_check_sports_true))
    invariant(2, "check_once_per_datum_of_a_known_market", len(markets) == 1 and _i1 == 0 and race_delivered(self, sports_data) == (sports_data.streaming_unique_id in SK(self).stream_ids)
              and SK(self).g_check_sports == old(SK(self).g_check_sports) + sum_(lambda j: 1 if race_delivered(self, event.event[j]) else 0, 0, _i0)
              + (1 if self.g_k < _i2 and race_delivered(self, sports_data) else 0))
    invariant(2, "process_iff_check_said_yes", SK(self).g_process_sports - old(SK(self).g_process_sports) == SK(self).g_check_sports_true - old(SK(self).g_check_sports_true))
    ensures("check_sports_data_exactly_once_per_datum_of_a_known_market", SK(self).g_check_sports == old(SK(self).g_check_sports)
            + sum_(lambda j: 1 if race_delivered(self, event.event[j]) else 0, 0, len(event.event)))
    ensures("process_sports_data_iff_check_returned_true", SK(self).g_process_sports - old(SK(self).g_process_sports) == SK(self).g_check_sports_true - old(SK(self).g_check_sports_true))


@contract("flumine/baseflumine.py::BaseFlumine._process_sports_data#cricket", tags=["C13"])
def _(self, event: Ref("CricketDataEvent")):
    """cricket instance (data keyed by event id): containment, 'process iff check returned true', and per (datum, market of the event)
    pair exactly one check for a subscriber - stated per datum in the loop invariants; the whole-event count is only bounded
    below here (the events map is a defaultdict that the lookup itself extends; see NOTES_G.md)"""
    requires("raise_errors_off", not config.raise_errors)
    requires("arbitrary_strategy", arbitrary_strategy(self))
    requires("registered_once", strategies_distinct(self))
    modifies_all("BaseStrategy.g_check_sports")
    modifies_all("BaseStrategy.g_check_sports_true")
    modifies_all("BaseStrategy.g_process_sports")
    modifies_all("BaseStrategy.g_kind")
    modifies_all("Callback.gc_calls")
    modifies_all("Callback.gc_kind")
    modifies_all("Callback.gc_ret")
    modifies_map(self.markets.events)
    local(markets=ListOf(Ref("Market")), market=Ref("Market"), market_id=ATOM, event_id=ATOM, g0=INT)
    invariant(0, "never_fewer", SK(self).g_check_sports >= old(SK(self).g_check_sports))
    invariant(0, "process_iff_check_said_yes", SK(self).g_process_sports - old(SK(self).g_process_sports) == SK(self).g_check_sports_true - old(SK(self).g_check_sports_true))
    invariant(1, "never_fewer", SK(self).g_check_sports >= old(SK(self).g_check_sports))
    invariant(1, "process_iff_check_said_yes", SK(self).g_process_sports - old(SK(self).g_process_sports) == SK(self).g_check_sports_true - old(SK(self).g_check_sports_true))
    invariant(2, "never_fewer", SK(self).g_check_sports >= old(SK(self).g_check_sports))
    invariant(2, "process_iff_check_said_yes", SK(self).g_process_sports - old(SK(self).g_process_sports) == SK(self).g_check_sports_true - old(SK(self).g_check_sports_true))
    ensures("no_delivery_lost", SK(self).g_check_sports >= old(SK(self).g_check_sports))
    ensures("process_sports_data_iff_check_returned_true", SK(self).g_process_sports - old(SK(self).g_process_sports) == SK(self).g_check_sports_true - old(SK(self).g_check_sports_true))
