"""C13 / C14 - FlumineSimulation: the simulated latency queue, the order pass and the per-book dispatch.

_check_pending_packages (C13, isolation clause F4 of DESIGN): whether and when a queued package is executed depends on the
package alone (its market, its age, its own delay) - never on the other packages in the queue (other strategies' requests).
Stated for ONE ARBITRARY queue position g_p (universal generalisation, as in c13_dispatch.py).
"""

inline("flumine/events/events.py::BaseEvent.elapsed_seconds")
module_alias("config", "flumine.config")

schema("FlumineSimulation", handler_queue=ListOf(Ref("BaseOrderPackage")), simulated_datetime=Ref("SimulatedDateTime"), g_p=INT)
# simulated_delay: calc_simulated_delay() returns a number for a simulated client (FlumineSimulation.run refuses any other client)
schema("BaseOrderPackage", client=Ref("BaseClient"), market_id=ATOM, simulated_delay=REAL, g_handled=INT)


@virtual("BaseExecution", "handler", tags=["C13", "C14"], shadows_default=True)
def _(self, order_package: Ref("BaseOrderPackage")):
    """ASSUMED contract of the execution handler (subject of C12 / C04, not re-verified here): it acts on the orders of THIS package
    (F4) - observed by the ghost counter g_handled - does not touch the latency queue or the package's timing fields, does not raise"""
    modifies(order_package, "g_handled")
    modifies_all("BaseOrder.status")
    modifies_all("BaseOrder.complete")
    ensures("handled_once", order_package.g_handled == old(order_package.g_handled) + 1)


def due(pkg, market_id):
    return pkg.market_id == market_id and config.current_time - pkg._time_created > pkg.simulated_delay


def PKG(sim):
    return sim.handler_queue[sim.g_p]


def PKG_ok(sim):
    """g_p is an arbitrary integer: the clauses about P are stated for the case that it is a queue position"""
    return 0 <= sim.g_p and sim.g_p < len(sim.handler_queue)


def queue_distinct(sim):
    return forall_int(lambda a, b: implies(0 <= a and a < b and b < len(sim.handler_queue), sim.handler_queue[a] != sim.handler_queue[b]))


@contract("flumine/simulation/simulation.py::FlumineSimulation._check_pending_packages", tags=["C13"], list_shift_axioms=True)
def _(self, market_id: ATOM):
    requires("a_package_is_queued_once", queue_distinct(self))
    modifies_all("BaseOrderPackage.g_handled")
    modifies_all("BaseOrder.status")
    modifies_all("BaseOrder.complete")
    modifies_list(self.handler_queue)
    local(processed=ListOf(Ref("BaseOrderPackage")))
    invariant(0, "handled_iff_due_so_far", implies(old(PKG_ok(self)), old(PKG(self)).g_handled == old(PKG(self).g_handled) + (1 if self.g_p < _i0 and due(old(PKG(self)), market_id) else 0)))
    invariant(0, "processed_are_the_due_ones", implies(old(PKG_ok(self)), (old(PKG(self)) in processed) == (self.g_p < _i0 and due(old(PKG(self)), market_id))))
    invariant(0, "processed_come_from_the_queue", forall(lambda j: exists(lambda q: q < _i0 and self.handler_queue[q] == processed[j], 0, len(self.handler_queue)), 0, len(processed)))
    invariant(0, "processed_distinct", forall_int(lambda a, b: implies(0 <= a and a < b and b < len(processed), processed[a] != processed[b])))
    invariant(0, "queue_untouched", len(self.handler_queue) == old(len(self.handler_queue)) and forall(lambda j: self.handler_queue[j] == old(self.handler_queue[j]), 0, len(self.handler_queue)))
    invariant(1, "handled_iff_due", implies(old(PKG_ok(self)), old(PKG(self)).g_handled == old(PKG(self).g_handled) + (1 if due(old(PKG(self)), market_id) else 0)))
    invariant(1, "still_to_remove_are_queued", forall(lambda j: processed[j] in self.handler_queue, _i1, len(processed)))
    invariant(1, "processed_distinct", forall_int(lambda a, b: implies(0 <= a and a < b and b < len(processed), processed[a] != processed[b])))
    invariant(1, "queue_stays_distinct", queue_distinct(self) and len(self.handler_queue) <= old(len(self.handler_queue)))
    invariant(1, "P_leaves_iff_due", implies(old(PKG_ok(self)), (old(PKG(self)) in self.handler_queue) == (not exists(lambda j: processed[j] == old(PKG(self)), 0, _i1))))
    invariant(1, "P_processed_iff_due", implies(old(PKG_ok(self)), (old(PKG(self)) in processed) == due(old(PKG(self)), market_id)))
    ensures("executed_exactly_once_iff_due", implies(old(PKG_ok(self)), old(PKG(self)).g_handled == old(PKG(self).g_handled) + (1 if due(old(PKG(self)), market_id) else 0)))
    ensures("leaves_the_queue_iff_due", implies(old(PKG_ok(self)), (old(PKG(self)) in self.handler_queue) == (not due(old(PKG(self)), market_id))))
    ensures("queue_stays_distinct_and_only_shrinks", queue_distinct(self) and len(self.handler_queue) <= old(len(self.handler_queue)))


# ----------------------------------------------------------------------------- the order pass of one simulated update
inline(
    "flumine/markets/blotter.py::Blotter.live_orders",
    "flumine/markets/blotter.py::Blotter.strategy_orders",
    "flumine/order/order.py::BaseOrder.current_order",
    "flumine/simulation/simulatedorder.py::SimulatedOrder.status",
)


def live_distinct(bl):
    """Inv15 (blotter coherence, owned by C15): an order is in the live list once"""
    return forall_int(lambda a, b: implies(0 <= a and a < b and b < len(bl._live_orders), bl._live_orders[a] != bl._live_orders[b]))


@contract("flumine/markets/blotter.py::Blotter.complete_order", tags=["C13", "C14", "C11"], list_shift_axioms=True)
def _(self, order: Ref("BaseOrder")):
    raises(ValueError, when=not (order in self._live_orders), iff=True, label="not_live")
    modifies_list(self._live_orders)
    ensures("one_shorter", len(self._live_orders) == old(len(self._live_orders)) - 1)
    ensures("others_stay_live", forall(lambda j: implies(old(self._live_orders[j]) != order, old(self._live_orders[j]) in self._live_orders), 0, old(len(self._live_orders))))
    ensures("nothing_new", forall(lambda j: exists(lambda q: old(self._live_orders[q]) == self._live_orders[j], 0, old(len(self._live_orders))), 0, len(self._live_orders)))
    ensures("gone_if_listed_once", implies(old(live_distinct(self)), not (order in self._live_orders) and live_distinct(self)))


def sim_all(bl):
    """every live order of a simulation blotter is a simulated order linked to its SimulatedOrder (BaseOrder.__init__ / update_client)"""
    return forall(lambda j: bl._live_orders[j]._simulated and bl._live_orders[j].simulated.order == bl._live_orders[j], 0, len(bl._live_orders))


def has_orders(bl, strategy):
    return strategy in bl._strategy_orders and len(bl._strategy_orders[strategy]) > 0


def views_separate(fl, bl):
    """Blotter.__init__ / defaultdict(list): the per-strategy view and the live list are different list objects"""
    return implies(SK(fl) in bl._strategy_orders, bl._strategy_orders[SK(fl)] is not bl._live_orders)


@contract("flumine/simulation/simulation.py::FlumineSimulation._process_simulated_orders", tags=["C13", "C14"], list_shift_axioms=True)
def _(self, market: Ref("Market")):
    requires("raise_errors_off", not config.raise_errors)
    requires("registered_once", strategies_distinct(self))
    requires("live_list_coherent", live_distinct(market.blotter))
    requires("simulated_orders", sim_all(market.blotter))
    modifies_all("BaseOrder.status")
    modifies_all("BaseOrder.complete")
    modifies_all("BaseOrder.date_time_status_update")
    modifies_all("BaseOrder.date_time_execution_complete")
    modifies_all("UpdateData.size_reduction")
    modifies_all("UpdateData.new_price")
    modifies_all("Trade.status")
    modifies_all("Trade.date_time_complete")
    modifies_all("RunnerContext.datetime_last_reset")
    modifies_all("BaseStrategy._invested")
    modifies_all("BaseStrategy.g_orders")
    modifies_all("BaseStrategy.g_orders_w")
    modifies_all("BaseStrategy.g_kind")
    modifies_lists_of(ATOM)
    modifies_list(market.blotter._live_orders)
    modifies_map(market.blotter._strategy_orders)
    local(strategy_orders=ListOf(Ref("BaseOrder")))
    invariant(0, "snapshot_rest_still_live", forall(lambda j: _seq0[j] in market.blotter._live_orders, _i0, len(_seq0)))
    invariant(0, "snapshot_distinct", forall_int(lambda a, b: implies(0 <= a and a < b and b < len(_seq0), _seq0[a] != _seq0[b])))
    invariant(0, "live_list_coherent", live_distinct(market.blotter))
    invariant(0, "snapshot_simulated", forall(lambda j: _seq0[j]._simulated and _seq0[j].simulated.order == _seq0[j], 0, len(_seq0)))
    invariant(0, "no_delivery_yet", implies(arbitrary_strategy(self), SK(self).g_orders == old(SK(self).g_orders)
                                            and implies(old(views_separate(self, market.blotter)), has_orders(market.blotter, SK(self)) == old(has_orders(market.blotter, SK(self))))))
    invariant(0, "only_shrinks", forall(lambda j: exists(lambda q: old(market.blotter._live_orders[q]) == market.blotter._live_orders[j], 0, old(len(market.blotter._live_orders))),
                                        0, len(market.blotter._live_orders)))
    invariant(1, "process_orders_once_iff_it_has_orders", implies(arbitrary_strategy(self), SK(self).g_orders == old(SK(self).g_orders)
                                                                  + (1 if self.g_k < _i1 and has_orders(market.blotter, SK(self)) else 0)))
    invariant(1, "views_stable", implies(arbitrary_strategy(self) and old(views_separate(self, market.blotter)),
                                         has_orders(market.blotter, SK(self)) == old(has_orders(market.blotter, SK(self)))))
    invariant(1, "live_list_coherent", live_distinct(market.blotter))
    invariant(1, "only_shrinks", forall(lambda j: exists(lambda q: old(market.blotter._live_orders[q]) == market.blotter._live_orders[j], 0, old(len(market.blotter._live_orders))),
                                        0, len(market.blotter._live_orders)))
    ensures("process_orders_exactly_once_iff_the_strategy_has_orders_in_the_market",
            implies(arbitrary_strategy(self) and old(views_separate(self, market.blotter)),
                    SK(self).g_orders == old(SK(self).g_orders) + (1 if old(has_orders(market.blotter, SK(self))) else 0)))
    ensures("live_list_stays_coherent", live_distinct(market.blotter))
    ensures("live_list_only_shrinks", forall(lambda j: exists(lambda q: old(market.blotter._live_orders[q]) == market.blotter._live_orders[j], 0, old(len(market.blotter._live_orders))),
                                             0, len(market.blotter._live_orders)))


# ----------------------------------------------------------------------------- one simulated update (list of books of one message)
@contract("flumine/baseflumine.py::BaseFlumine._process_close_market", tags=["C13", "C14"])
def _(self, event: Ref("CloseMarketEvent")):
    """ASSUMED (subject of C20, not verified here): closing a market touches market / blotter / order state and calls the unwrapped
    hook process_closed_market ('not demanded' by C13); it does not deliver market-book callbacks, does not touch the clock or the
    latency queue and does not raise"""
    trusted("subject of C20 (market closure); only its frame is used here")
    modifies_all("Market.closed")
    modifies_all("Market.date_time_closed")
    modifies_all("Market.market_book")
    modifies_all("Market.update_market_catalogue")
    modifies_all("BaseOrder.status")
    modifies_all("BaseOrder.complete")


def bl_of(fl, k):
    return fl.markets._markets[k].blotter


def registry_coherent(fl):
    """representation invariant of the simulation's market registry (blotter coherence is C15's subject; here it is what makes the
    order pass exception-free): every ACTIVE blotter has a duplicate-free live list of linked simulated orders, and two active
    blotters do not share their live-list object"""
    return forall_atom(lambda k: implies(k in fl.markets._markets and bl_of(fl, k).active, live_distinct(bl_of(fl, k)) and sim_all(bl_of(fl, k)))) \
        and forall_atom(lambda k1, k2: implies(k1 in fl.markets._markets and k2 in fl.markets._markets and fl.markets._markets[k1] != fl.markets._markets[k2]
                                               and bl_of(fl, k1).active and bl_of(fl, k2).active,
                                               bl_of(fl, k1)._live_orders is not bl_of(fl, k2)._live_orders))


def last_book(event):
    return event.event[len(event.event) - 1]


@contract("flumine/simulation/simulation.py::FlumineSimulation._process_market_books", tags=["C13", "C14"])
def _(self, event: Ref("MarketBookEvent")):
    requires("raise_errors_off", not config.raise_errors)
    requires("registered_once", strategies_distinct(self))
    requires("a_package_is_queued_once", queue_distinct(self))
    requires("registry_coherent", registry_coherent(self))
    # C14 delivery monitors (see c14_run.py): ghost code run in the caller at every call - it records THAT this batch is delivered now
    ghost_before_call("""
self.simulated_datetime.g_chrono = self.simulated_datetime.g_chrono and (not self.simulated_datetime.g_have_last or len(event.event) == 0 or self.simulated_datetime.g_last_epoch <= event.event[0].publish_time_epoch)
self.simulated_datetime.g_last_epoch = event.event[0].publish_time_epoch if len(event.event) > 0 else self.simulated_datetime.g_last_epoch
self.simulated_datetime.g_have_last = self.simulated_datetime.g_have_last or len(event.event) > 0
self.simulated_datetime.g_order_ok = self.simulated_datetime.g_order_ok and (not (event.event is self.simulated_datetime.g_B2) or self.simulated_datetime.g_cnt >= 1)
self.simulated_datetime.g_cnt = self.simulated_datetime.g_cnt + (1 if event.event is self.simulated_datetime.g_B else 0)
self.simulated_datetime.g_cnt2 = self.simulated_datetime.g_cnt2 + (1 if event.event is self.simulated_datetime.g_B2 else 0)
""")
    modifies_module("flumine.config", "current_time")
    modifies_all("BaseStrategy.g_new_market")
    modifies_all("BaseStrategy.g_check")
    modifies_all("BaseStrategy.g_check_true")
    modifies_all("BaseStrategy.g_process")
    modifies_all("BaseStrategy.g_orders")
    modifies_all("BaseStrategy.g_orders_w")
    modifies_all("BaseStrategy.g_kind")
    modifies_all("BaseStrategy._invested")
    modifies_all("BaseOrderPackage.g_handled")
    modifies_all("BaseOrder.status")
    modifies_all("BaseOrder.complete")
    modifies_all("BaseOrder.date_time_status_update")
    modifies_all("BaseOrder.date_time_execution_complete")
    modifies_all("UpdateData.size_reduction")
    modifies_all("UpdateData.new_price")
    modifies_all("Trade.status")
    modifies_all("Trade.date_time_complete")
    modifies_all("RunnerContext.datetime_last_reset")
    modifies_all("Middleware.gm_calls")
    modifies_all("Middleware.gm_kind")
    modifies_all("Middleware.gm_book")
    modifies_all("Callback.gc_calls")
    modifies_all("Callback.gc_kind")
    modifies_all("Callback.gc_ret")
    modifies_all("Market.closed")
    modifies_all("Market.date_time_closed")
    modifies_all("Market.orders_cleared")
    modifies_all("Market.market_cleared")
    modifies_all("Market.update_market_catalogue")
    modifies_all("Market.market_book")
    modifies_lists_of(ATOM)
    modifies_lists_of(Ref("BaseOrder"))
    modifies_list(self.handler_queue)
    modifies_map(self.markets._markets)
    modifies_map(self.markets.events)
    modifies_all("Blotter._strategy_orders")
    local(market=Ref("Market"), market_id=ATOM, market_is_new=BOOL)
    invariant(0, "clock_is_the_last_processed_publish_time", implies(_i0 > 0, config.current_time == event.event[_i0 - 1].publish_time))
    invariant(0, "queue_duplicate_free", queue_distinct(self))
    invariant(0, "registry_coherent", registry_coherent(self))
    invariant(0, "check_once_per_delivered_book", implies(arbitrary_strategy(self), SK(self).g_check == old(SK(self).g_check) + n_delivered(self, event.event, _i0)))
    invariant(0, "process_iff_check_said_yes", implies(arbitrary_strategy(self), SK(self).g_process - old(SK(self).g_process) == SK(self).g_check_true - old(SK(self).g_check_true)))
    invariant(1, "clock_is_this_books_publish_time", config.current_time == market_book.publish_time)
    invariant(1, "queue_duplicate_free", queue_distinct(self))
    invariant(1, "registry_coherent", registry_coherent(self))
    invariant(1, "check_once_per_delivered_book", implies(arbitrary_strategy(self), SK(self).g_check == old(SK(self).g_check) + n_delivered(self, event.event, _i0)))
    invariant(1, "process_iff_check_said_yes", implies(arbitrary_strategy(self), SK(self).g_process - old(SK(self).g_process) == SK(self).g_check_true - old(SK(self).g_check_true)))
    invariant(1, "market_holds_the_book", market.market_book == market_book and market_book.status != "CLOSED"
              and market_id in self.markets._markets and self.markets._markets[market_id] == market)
    invariant(1, "middleware_so_far", mw_ran_for(self, market_book, _i1))
    invariant(2, "clock_is_this_books_publish_time", config.current_time == market_book.publish_time)
    invariant(2, "queue_duplicate_free", queue_distinct(self))
    invariant(2, "registry_coherent", registry_coherent(self))
    invariant(2, "check_once_per_delivered_book", implies(arbitrary_strategy(self), SK(self).g_check == old(SK(self).g_check) + n_delivered(self, event.event, _i0)
                                                          + (1 if self.g_k < _i2 and delivered(self, market_book) else 0)))
    invariant(2, "process_iff_check_said_yes", implies(arbitrary_strategy(self), SK(self).g_process - old(SK(self).g_process) == SK(self).g_check_true - old(SK(self).g_check_true)))
    invariant(2, "all_middleware_ran_before_any_strategy", market_book.status != "CLOSED" and mw_ran_for(self, market_book, len(self._market_middleware)))
    ensures("check_market_book_exactly_once_per_delivered_book",
            implies(arbitrary_strategy(self), SK(self).g_check == old(SK(self).g_check) + n_delivered(self, event.event, len(event.event))))
    ensures("process_market_book_iff_check_returned_true",
            implies(arbitrary_strategy(self), SK(self).g_process - old(SK(self).g_process) == SK(self).g_check_true - old(SK(self).g_check_true)))
    ensures("clock_is_the_last_publish_time", implies(len(event.event) > 0, config.current_time == last_book(event).publish_time))
    ensures("queue_duplicate_free", queue_distinct(self))
    ensures("registry_stays_coherent", registry_coherent(self))
