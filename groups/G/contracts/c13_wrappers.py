"""C13 (containment half) - the error-handling wrappers of flumine/utils.py and BaseFlumine._process_custom_event.

Statement: "An exception raised inside a documented strategy or middleware callback (market-book check/processing,
order processing, new-market, sports-data and raw-data callbacks, middleware calls, custom events) is contained".

Unknown code (A4).  The callee of a wrapper is user code.  It is represented by a @virtual contract that
  * may return normally with ANY result,
  * may raise FlumineException (or a subclass) or any other Exception (BaseException subclasses that are not
    Exceptions - KeyboardInterrupt, SystemExit - are outside the statement: "an exception raised inside a callback"),
  * is observed through GHOST fields (g_calls: invocation counter, g_kind: how the last invocation ended,
    g_ret: what it returned).  Ghost fields are never read by the code (they do not exist in /repo).

The wrappers are verified on their own against the generic callee `Callback.__call__` / the strategy / middleware
hooks, with `config.raise_errors` symbolic:  nothing may escape unless raise_errors is set, and then only a
non-Flumine exception.  A5 (log calls dropped) is NOT assumed inside the wrappers: strict_logging makes the engine
evaluate the argument expressions of the log calls in the except branches (an exception raised while logging would
escape the wrapper).
"""

K_NONE = "returned"
K_FLUMINE = "raised-flumine"
K_OTHER = "raised-other"

# ghost observation of an opaque callable (strategy.check_market_book, strategy.process_new_market, ... passed as `func`)
schema("Callback", gc_calls=INT, gc_kind=ATOM, gc_ret=Opt(BOOL))

strict_logging(
    "flumine/utils.py::call_strategy_error_handling",
    "flumine/utils.py::call_middleware_error_handling",
    "flumine/utils.py::call_process_orders_error_handling",
    "flumine/utils.py::call_process_raw_data",
    "flumine/baseflumine.py::BaseFlumine._process_custom_event",
)


@virtual("Callback", "__call__", tags=["C13"])
def _(self, market: Ref("Market"), update: Ref("MarketBook")) -> Opt(BOOL):
    modifies(self, "gc_calls")
    modifies(self, "gc_kind")
    modifies(self, "gc_ret")
    raises(FlumineException, label="callee_raises_flumine", modifies=[(self, "gc_calls"), (self, "gc_kind")],
           ensures=self.gc_calls == old(self.gc_calls) + 1 and self.gc_kind == K_FLUMINE)
    raises(Exception, label="callee_raises_other", modifies=[(self, "gc_calls"), (self, "gc_kind")],
           ensures=self.gc_calls == old(self.gc_calls) + 1 and self.gc_kind == K_OTHER)
    ensures("counted", self.gc_calls == old(self.gc_calls) + 1 and self.gc_kind == K_NONE and self.gc_ret == result)


@contract("flumine/utils.py::call_strategy_error_handling", tags=["C13"], inline_at_calls=True)
def _(func: Ref("Callback"), market: Ref("Market"), update: Ref("MarketBook")) -> Opt(BOOL):
    modifies(func, "gc_calls")
    modifies(func, "gc_kind")
    modifies(func, "gc_ret")
    raises(Exception, when=config.raise_errors, label="escapes_only_when_raise_errors",
           modifies=[(func, "gc_calls"), (func, "gc_kind")],
           ensures=func.gc_calls == old(func.gc_calls) + 1 and func.gc_kind == K_OTHER)
    ensures("callee_invoked_exactly_once", func.gc_calls == old(func.gc_calls) + 1)
    ensures("result_is_callees_or_false", result == (func.gc_ret if func.gc_kind == K_NONE else False))
    ensures("flumine_exception_always_contained", implies(config.raise_errors, func.gc_kind != K_OTHER))


# ----------------------------------------------------------------------------- middleware
schema("Middleware", gm_calls=INT, gm_kind=ATOM, gm_book=Opt(Ref("MarketBook")))  # gm_book: the book of the market it was last invoked with


@virtual("Middleware", "__call__", tags=["C13"], shadows_default=True)
def _(self, market: Ref("Market")):
    modifies(self, "gm_calls")
    modifies(self, "gm_kind")
    modifies(self, "gm_book")
    raises(FlumineException, label="middleware_raises_flumine", modifies=[(self, "gm_calls"), (self, "gm_kind"), (self, "gm_book")],
           ensures=self.gm_calls == old(self.gm_calls) + 1 and self.gm_kind == K_FLUMINE and self.gm_book == market.market_book)
    raises(Exception, label="middleware_raises_other", modifies=[(self, "gm_calls"), (self, "gm_kind"), (self, "gm_book")],
           ensures=self.gm_calls == old(self.gm_calls) + 1 and self.gm_kind == K_OTHER and self.gm_book == market.market_book)
    ensures("counted", self.gm_calls == old(self.gm_calls) + 1 and self.gm_kind == K_NONE and self.gm_book == market.market_book)


@contract("flumine/utils.py::call_middleware_error_handling", tags=["C13"], inline_at_calls=True)
def _(middleware: Ref("Middleware"), market: Ref("Market")):
    modifies(middleware, "gm_calls")
    modifies(middleware, "gm_kind")
    modifies(middleware, "gm_book")
    raises(Exception, when=config.raise_errors, label="escapes_only_when_raise_errors",
           modifies=[(middleware, "gm_calls"), (middleware, "gm_kind"), (middleware, "gm_book")],
           ensures=middleware.gm_calls == old(middleware.gm_calls) + 1 and middleware.gm_kind == K_OTHER)
    ensures("middleware_invoked_exactly_once", middleware.gm_calls == old(middleware.gm_calls) + 1)
    ensures("flumine_exception_always_contained", implies(config.raise_errors, middleware.gm_kind != K_OTHER))


# ----------------------------------------------------------------------------- strategy hooks (unknown user code, A4)
# ghost delivery counters per strategy and callback kind; g_kind / g_ret observe the LAST invocation of any hook
schema(
    "BaseStrategy",
    g_new_market=INT, g_check=INT, g_process=INT, g_orders=INT, g_raw=INT, g_check_sports=INT, g_process_sports=INT, g_catalogue=INT,
    g_watch=Ref("Market"), g_orders_w=INT,  # process_orders deliveries for ONE arbitrary market (ghost g_watch, never written)
    g_check_true=INT,  # number of check_market_book invocations that returned a true value
    g_check_sports_true=INT,
    g_kind=ATOM, g_ret=Opt(BOOL),
)
# a raw streaming datum (dict): only the keys the framework itself reads; any of them may be absent (cricket data has no "id")
struct("RawMarketDefinition", status=ATOM)  # A7: an exchange market definition always carries its status
struct("RawDatum", id=Opt(ATOM), marketDefinition=Opt(Ref("RawMarketDefinition")), _stream_id=Opt(INT))


@virtual("BaseStrategy", "process_orders", tags=["C13"], shadows_default=True)
def _(self, market: Ref("Market"), orders: ListOf(Ref("BaseOrder"))):
    modifies(self, "g_orders")
    modifies(self, "g_orders_w")
    modifies(self, "g_kind")
    modifies_all("BaseOrder.status")
    modifies_all("BaseOrder.complete")
    raises(FlumineException, label="hook_raises_flumine", modifies=[(self, "g_orders"), (self, "g_orders_w"), (self, "g_kind"), ("all", "BaseOrder.status"), ("all", "BaseOrder.complete")],
           ensures=self.g_orders == old(self.g_orders) + 1 and self.g_kind == K_FLUMINE and self.g_orders_w == old(self.g_orders_w) + (1 if market == self.g_watch else 0))
    raises(Exception, label="hook_raises_other", modifies=[(self, "g_orders"), (self, "g_orders_w"), (self, "g_kind"), ("all", "BaseOrder.status"), ("all", "BaseOrder.complete")],
           ensures=self.g_orders == old(self.g_orders) + 1 and self.g_kind == K_OTHER and self.g_orders_w == old(self.g_orders_w) + (1 if market == self.g_watch else 0))
    ensures("counted", self.g_orders == old(self.g_orders) + 1 and self.g_kind == K_NONE and self.g_orders_w == old(self.g_orders_w) + (1 if market == self.g_watch else 0))


@contract("flumine/utils.py::call_process_orders_error_handling", tags=["C13"], inline_at_calls=True)
def _(strategy: Ref("BaseStrategy"), market: Ref("Market"), strategy_orders: ListOf(Ref("BaseOrder"))):
    modifies(strategy, "g_orders")
    modifies(strategy, "g_orders_w")
    modifies(strategy, "g_kind")
    modifies_all("BaseOrder.status")
    modifies_all("BaseOrder.complete")
    raises(Exception, when=config.raise_errors, label="escapes_only_when_raise_errors",
           modifies=[(strategy, "g_orders"), (strategy, "g_orders_w"), (strategy, "g_kind"), ("all", "BaseOrder.status"), ("all", "BaseOrder.complete")],
           ensures=strategy.g_orders == old(strategy.g_orders) + 1 and strategy.g_kind == K_OTHER)
    ensures("hook_invoked_exactly_once", strategy.g_orders == old(strategy.g_orders) + 1)
    ensures("flumine_exception_always_contained", implies(config.raise_errors, strategy.g_kind != K_OTHER))


@virtual("BaseStrategy", "process_raw_data", tags=["C13"], shadows_default=True)
def _(self, clk: ATOM, publish_time: INT, datum: Ref("RawDatum")):
    modifies(self, "g_raw")
    modifies(self, "g_kind")
    raises(FlumineException, label="hook_raises_flumine", modifies=[(self, "g_raw"), (self, "g_kind")],
           ensures=self.g_raw == old(self.g_raw) + 1 and self.g_kind == K_FLUMINE)
    raises(Exception, label="hook_raises_other", modifies=[(self, "g_raw"), (self, "g_kind")],
           ensures=self.g_raw == old(self.g_raw) + 1 and self.g_kind == K_OTHER)
    ensures("counted", self.g_raw == old(self.g_raw) + 1 and self.g_kind == K_NONE)


@contract("flumine/utils.py::call_process_raw_data", tags=["C13"], inline_at_calls=True)
def _(strategy: Ref("BaseStrategy"), clk: ATOM, publish_time: INT, datum: Ref("RawDatum")):
    modifies(strategy, "g_raw")
    modifies(strategy, "g_kind")
    raises(Exception, when=config.raise_errors, label="escapes_only_when_raise_errors",
           modifies=[(strategy, "g_raw"), (strategy, "g_kind")],
           ensures=strategy.g_raw == old(strategy.g_raw) + 1 and strategy.g_kind == K_OTHER)
    ensures("hook_invoked_exactly_once", strategy.g_raw == old(strategy.g_raw) + 1)
    ensures("flumine_exception_always_contained", implies(config.raise_errors, strategy.g_kind != K_OTHER))


# ----------------------------------------------------------------------------- custom events
schema("CustomCallback", ge_calls=INT, ge_kind=ATOM)
schema("CustomEvent", callback=Ref("CustomCallback"))


@virtual("CustomCallback", "__call__", tags=["C13"])
def _(self, flumine: Ref("BaseFlumine"), event: Ref("CustomEvent")):
    modifies(self, "ge_calls")
    modifies(self, "ge_kind")
    raises(FlumineException, label="callback_raises_flumine", modifies=[(self, "ge_calls"), (self, "ge_kind")],
           ensures=self.ge_calls == old(self.ge_calls) + 1 and self.ge_kind == K_FLUMINE)
    raises(Exception, label="callback_raises_other", modifies=[(self, "ge_calls"), (self, "ge_kind")],
           ensures=self.ge_calls == old(self.ge_calls) + 1 and self.ge_kind == K_OTHER)
    ensures("counted", self.ge_calls == old(self.ge_calls) + 1 and self.ge_kind == K_NONE)


@contract("flumine/baseflumine.py::BaseFlumine._process_custom_event", tags=["C13"])
def _(self, event: Ref("CustomEvent")):
    modifies(event.callback, "ge_calls")
    modifies(event.callback, "ge_kind")
    raises(Exception, when=config.raise_errors, label="escapes_only_when_raise_errors",
           modifies=[(event.callback, "ge_calls"), (event.callback, "ge_kind")],
           ensures=event.callback.ge_calls == old(event.callback.ge_calls) + 1 and event.callback.ge_kind == K_OTHER)
    ensures("callback_invoked_exactly_once", event.callback.ge_calls == old(event.callback.ge_calls) + 1)
    ensures("flumine_exception_always_contained", implies(config.raise_errors, event.callback.ge_kind != K_OTHER))


# ----------------------------------------------------------------------------- market-book / sports-data hooks
def truthy(r):
    return r is not None and r


@virtual("BaseStrategy", "process_new_market", tags=["C13"], shadows_default=True)
def _(self, market: Ref("Market"), market_book: Ref("MarketBook")):
    modifies(self, "g_new_market")
    modifies(self, "g_kind")
    raises(FlumineException, label="hook_raises_flumine", modifies=[(self, "g_new_market"), (self, "g_kind")],
           ensures=self.g_new_market == old(self.g_new_market) + 1 and self.g_kind == K_FLUMINE)
    raises(Exception, label="hook_raises_other", modifies=[(self, "g_new_market"), (self, "g_kind")],
           ensures=self.g_new_market == old(self.g_new_market) + 1 and self.g_kind == K_OTHER)
    ensures("counted", self.g_new_market == old(self.g_new_market) + 1 and self.g_kind == K_NONE)


@virtual("BaseStrategy", "check_market_book", tags=["C13"], shadows_default=True)
def _(self, market: Ref("Market"), market_book: Ref("MarketBook")) -> Opt(BOOL):
    modifies(self, "g_check")
    modifies(self, "g_check_true")
    modifies(self, "g_kind")
    raises(FlumineException, label="hook_raises_flumine", modifies=[(self, "g_check"), (self, "g_kind")],
           ensures=self.g_check == old(self.g_check) + 1 and self.g_kind == K_FLUMINE)
    raises(Exception, label="hook_raises_other", modifies=[(self, "g_check"), (self, "g_kind")],
           ensures=self.g_check == old(self.g_check) + 1 and self.g_kind == K_OTHER)
    ensures("counted", self.g_check == old(self.g_check) + 1 and self.g_kind == K_NONE
            and self.g_check_true == old(self.g_check_true) + (1 if truthy(result) else 0))


@virtual("BaseStrategy", "process_market_book", tags=["C13"], shadows_default=True)
def _(self, market: Ref("Market"), market_book: Ref("MarketBook")):
    modifies(self, "g_process")
    modifies(self, "g_kind")
    modifies_all("BaseOrder.status")
    modifies_all("BaseOrder.complete")
    raises(FlumineException, label="hook_raises_flumine", modifies=[(self, "g_process"), (self, "g_kind"), ("all", "BaseOrder.status"), ("all", "BaseOrder.complete")],
           ensures=self.g_process == old(self.g_process) + 1 and self.g_kind == K_FLUMINE)
    raises(Exception, label="hook_raises_other", modifies=[(self, "g_process"), (self, "g_kind"), ("all", "BaseOrder.status"), ("all", "BaseOrder.complete")],
           ensures=self.g_process == old(self.g_process) + 1 and self.g_kind == K_OTHER)
    ensures("counted", self.g_process == old(self.g_process) + 1 and self.g_kind == K_NONE)


@virtual("BaseStrategy", "check_sports_data", tags=["C13"], shadows_default=True)
def _(self, market: Ref("Market"), sports_data: Ref("Object")) -> Opt(BOOL):
    modifies(self, "g_check_sports")
    modifies(self, "g_check_sports_true")
    modifies(self, "g_kind")
    raises(FlumineException, label="hook_raises_flumine", modifies=[(self, "g_check_sports"), (self, "g_kind")],
           ensures=self.g_check_sports == old(self.g_check_sports) + 1 and self.g_kind == K_FLUMINE)
    raises(Exception, label="hook_raises_other", modifies=[(self, "g_check_sports"), (self, "g_kind")],
           ensures=self.g_check_sports == old(self.g_check_sports) + 1 and self.g_kind == K_OTHER)
    ensures("counted", self.g_check_sports == old(self.g_check_sports) + 1 and self.g_kind == K_NONE
            and self.g_check_sports_true == old(self.g_check_sports_true) + (1 if truthy(result) else 0))


@virtual("BaseStrategy", "process_sports_data", tags=["C13"], shadows_default=True)
def _(self, market: Ref("Market"), sports_data: Ref("Object")):
    modifies(self, "g_process_sports")
    modifies(self, "g_kind")
    raises(FlumineException, label="hook_raises_flumine", modifies=[(self, "g_process_sports"), (self, "g_kind")],
           ensures=self.g_process_sports == old(self.g_process_sports) + 1 and self.g_kind == K_FLUMINE)
    raises(Exception, label="hook_raises_other", modifies=[(self, "g_process_sports"), (self, "g_kind")],
           ensures=self.g_process_sports == old(self.g_process_sports) + 1 and self.g_kind == K_OTHER)
    ensures("counted", self.g_process_sports == old(self.g_process_sports) + 1 and self.g_kind == K_NONE)
