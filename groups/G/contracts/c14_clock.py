"""C14 - the simulated clock (flumine/simulation/utils.py::SimulatedDateTime).

The module attribute datetime.datetime is modelled as a run-time variable (contract option patched_datetime=True) holding the
atom "cls:<class>": "cls:datetime" is the real class (its utcnow() is the wall clock: an arbitrary real), "cls:NewDateTime" the
simulation's class (its utcnow() returns config.current_time).
"""

NEW_DT = "cls:NewDateTime"

schema("SimulatedDateTime", _real_datetime=Opt(ATOM))
module_alias("datetime", "datetime")


@contract("flumine/simulation/utils.py::SimulatedDateTime.__call__", tags=["C14", "C13"], patched_datetime=True)
def _(self, pt: REAL):
    modifies_module("flumine.config", "current_time")
    ensures("framework_clock_is_the_publish_time", config.current_time == pt)


@contract("flumine/simulation/utils.py::SimulatedDateTime.__enter__", tags=["C14"], patched_datetime=True)
def _(self) -> ATOM:
    modifies(self, "_real_datetime")
    modifies_module("flumine.config", "current_time")
    modifies_module("datetime", "datetime")
    ensures("real_class_saved", self._real_datetime == old(datetime.datetime))
    ensures("simulated_class_installed", datetime.datetime == NEW_DT and result == NEW_DT)


@contract("flumine/simulation/utils.py::SimulatedDateTime.__exit__", tags=["C14"], patched_datetime=True)
def _(self, exc_type: Ref("Object"), exc_val: Ref("Object"), exc_tb: Ref("Object")):
    requires("entered", self._real_datetime is not None)
    modifies_module("datetime", "datetime")
    ensures("saved_class_restored", datetime.datetime == self._real_datetime)


@contract("flumine/simulation/utils.py::SimulatedDateTime.reset_real_datetime", tags=["C14"], patched_datetime=True)
def _(self):
    requires("entered", self._real_datetime is not None)
    # C14 delivery monitors restart with every event group / single market (run calls this exactly there)
    ghost_before_call("""
self.g_start = config.g_gen_counter
self.g_have_last = False
self.g_chrono = True
self.g_order_ok = True
self.g_cnt = 0
self.g_cnt2 = 0
""")
    modifies_module("flumine.config", "current_time")
    ensures("class_binding_untouched", datetime.datetime == old(datetime.datetime))
